"""Core of the checking framework: case evaluation, violation bookkeeping,
known findings, replay artefacts, evidence.  See DESIGN.md section 4.

A *check* (checks/cNN.py) exposes ``run(ck)`` and a dict ``EVALUATORS`` mapping a
name to a top-level function ``f(case) -> dict``.  A *case* is a JSON-able
description of one element of the enumerated space (a lattice element, a
configuration whose choice tree / state graph the evaluator explores, ...).
The evaluator runs the REAL code on it and returns

    {"fails": [ {key, what, observed, expected, ...}, ... ],
     "n": <executions run>, "states": .., "transitions": .., "traces": ..,
     "tags": [hashable,...]     # distinct non-trivial outcomes by the check's rule
     "slack": {name: ratio},    # worst observed/allowed per numeric comparison
     "skipped": {reason: count}, "sample": <json-able example>}

All keys except "fails" are optional.
"""
from __future__ import annotations

import hashlib
import json
import multiprocessing as mp
import os
import re
import sys
import time
import traceback

VERIF = os.path.dirname(os.path.dirname(os.path.abspath(__file__)))
REPO = os.environ.get("VERIF_REPO", "/repo")


def setup_paths():
    """Import ``inference`` from the working tree of REPO; vendored mpmath."""
    for p in (os.path.join(VERIF, "_vendor"), REPO):
        if p in sys.path:
            sys.path.remove(p)
        sys.path.insert(0, p)
    os.environ.setdefault("MPLBACKEND", "Agg")
    os.environ.setdefault("OMP_NUM_THREADS", "1")
    os.environ.setdefault("OPENBLAS_NUM_THREADS", "1")
    os.environ.setdefault("MKL_NUM_THREADS", "1")


class HarnessError(Exception):
    """The harness (not the library) is at fault: exit 2."""


class LibFailure(Exception):
    """Library code raised on an in-domain input: an observation, reported as a violation."""

    def __init__(self, label, exc):
        self.label = label
        self.exc_type = type(exc).__name__
        self.tb = "".join(traceback.format_exception(type(exc), exc, exc.__traceback__))[-3000:]
        super().__init__(f"{label}: {self.exc_type}: {exc}")


class lib:
    """``with lib("label"): <library call>`` – converts an escaping library exception into LibFailure."""

    def __init__(self, label, allow=()):
        self.label = label
        self.allow = allow

    def __enter__(self):
        return self

    def __exit__(self, et, ev, tb):
        if et is None:
            return False
        if issubclass(et, (HarnessError, LibFailure, KeyboardInterrupt, SystemExit, MemoryError)):
            return False
        if self.allow and issubclass(et, self.allow):
            return False
        if issubclass(et, BaseException) and not issubclass(et, Exception):
            return False
        raise LibFailure(self.label, ev) from ev


def jsonable(o):
    import numpy as np

    if isinstance(o, dict):
        return {str(k): jsonable(v) for k, v in o.items()}
    if isinstance(o, (list, tuple, set, frozenset)):
        return [jsonable(v) for v in o]
    if isinstance(o, np.ndarray):
        return jsonable(o.tolist())
    if isinstance(o, (np.floating,)):
        return jsonable(float(o))
    if isinstance(o, (np.integer,)):
        return int(o)
    if isinstance(o, (np.bool_,)):
        return bool(o)
    if isinstance(o, float):
        if o != o:
            return "nan"
        if o in (float("inf"), float("-inf")):
            return "inf" if o > 0 else "-inf"
        return o
    if isinstance(o, (int, str, bool)) or o is None:
        return o
    if isinstance(o, bytes):
        return o.hex()
    return repr(o)


def _eval_one(args):
    modname, evname, case = args
    setup_paths()
    import importlib

    mod = importlib.import_module(modname)
    fn = mod.EVALUATORS[evname]
    t0 = time.time()
    try:
        res = fn(case) or {}
        res.setdefault("fails", [])
    except LibFailure as e:
        res = {
            "fails": [
                {
                    "key": f"{evname}/{e.label}/raises:{e.exc_type}",
                    "what": str(e),
                    "traceback": e.tb,
                }
            ]
        }
    except HarnessError as e:
        res = {"fails": [], "harness_error": f"{type(e).__name__}: {e}\n{traceback.format_exc()[-3000:]}"}
    except Exception as e:  # an exception that escaped outside a lib() block: harness bug
        res = {"fails": [], "harness_error": f"{type(e).__name__}: {e}\n{traceback.format_exc()[-3000:]}"}
    except BaseException as e:
        if type(e).__name__ != "Runaway":
            raise
        # the code under test never stopped drawing random numbers under the scripted stream (a redraw-until loop the
        # stream cannot satisfy): an observation about the library, reported as a violation of its own kind
        res = {"fails": [{"key": f"{evname}/does-not-terminate-under-the-scripted-random-stream", "what": str(e)}]}
    res["case"] = case
    res["evaluator"] = evname
    res["t"] = time.time() - t0
    return res


def _eval_chunk(chunk):
    return [_eval_one(a) for a in chunk]


def sanitize(key):
    s = re.sub(r"[^A-Za-z0-9_.=+-]+", "_", key)
    if len(s) > 120:
        s = s[:100] + "_" + hashlib.sha1(key.encode()).hexdigest()[:10]
    return s


class Check:
    def __init__(self, pid, modname, tier, seed, level):
        self.pid = pid
        self.modname = modname
        self.tier = tier
        self.seed = seed
        self.level = level
        self.t0 = time.time()
        self.evaluations = 0
        self.cases = 0
        self.states = 0
        self.transitions = 0
        self.traces = 0
        self.tags = set()
        self.slack = {}
        self.skipped = {}
        self.samples = []
        self.fails = []  # (fail dict, case, evaluator)
        self.harness_errors = []
        self.assumptions = []
        self.rule = ""
        self.extra = {}
        self.exhaustive = True
        self.caps = []
        self.per_evaluator = {}
        self.min_tags = 2
        self._pool = None

    # ------------------------------------------------------------------ running
    @property
    def quick(self):
        return self.tier == "quick"

    def pool(self):
        if self._pool is None:
            n = int(os.environ.get("VERIF_JOBS", "0")) or min(16, os.cpu_count() or 1)
            ctx = mp.get_context("fork")
            self._pool = ctx.Pool(n)
        return self._pool

    def run_cases(self, evname, cases, parallel=True, chunk=None):
        cases = list(cases)
        if not cases:
            return []
        args = [(self.modname, evname, c) for c in cases]
        if parallel and len(cases) > 1 and os.environ.get("VERIF_JOBS") != "1":
            if chunk is None:
                chunk = max(1, min(64, len(args) // 64))
            chunks = [args[i : i + chunk] for i in range(0, len(args), chunk)]
            results = [r for rs in self.pool().imap(_eval_chunk, chunks) for r in rs]
        else:
            results = [_eval_one(a) for a in args]
        for r in results:
            self.absorb(r)
        return results

    def absorb(self, r):
        ev = r.get("evaluator", "?")
        pe = self.per_evaluator.setdefault(ev, {"cases": 0, "evaluations": 0, "fails": 0, "wall_cpu_s": 0.0})
        pe["cases"] += 1
        pe["evaluations"] += int(r.get("n", 1))
        pe["wall_cpu_s"] = round(pe["wall_cpu_s"] + r.get("t", 0.0), 3)
        pe["fails"] += len(r["fails"])
        self.cases += 1
        self.evaluations += int(r.get("n", 1))
        self.states += int(r.get("states", 0))
        self.transitions += int(r.get("transitions", 0))
        self.traces += int(r.get("traces", 0))
        for t in r.get("tags", ()):
            self.tags.add(t if isinstance(t, str) else json.dumps(jsonable(t)))
        for k, v in r.get("slack", {}).items():
            if v == v and v > self.slack.get(k, -1.0):
                self.slack[k] = float(v)
        for k, v in r.get("skipped", {}).items():
            self.skipped[k] = self.skipped.get(k, 0) + v
        for c in r.get("caps", ()):
            if c not in self.caps:
                self.caps.append(c)
        if "sample" in r and len(self.samples) < 6 and (self.cases <= 3 or self.cases % 97 == 0):
            self.samples.append(jsonable(r["sample"]))
        if "harness_error" in r:
            self.harness_errors.append((r["evaluator"], r["case"], r["harness_error"]))
        for f in r["fails"]:
            self.fails.append((f, r["case"], r["evaluator"]))

    def assume(self, text):
        if text not in self.assumptions:
            self.assumptions.append(text)

    # ---------------------------------------------------------------- finishing
    def finish(self):
        if self._pool is not None:
            self._pool.close()
            self._pool.join()
        known = load_known()
        status = 0
        printed = set()
        kf_counts = {}
        new = {}
        for f, case, ev in self.fails:
            key = f"{self.pid}/{f['key']}"
            ent = known.get(key)
            if ent is not None and ent.get("status") == "known":
                kf_counts[key] = kf_counts.get(key, 0) + 1
                if kf_counts[key] == 1 and os.environ.get("VERIF_WRITE_KNOWN_REPLAYS") and ent.get("replay"):
                    # maintenance only (never in a registered command): refresh the committed replay of a known finding
                    path = os.path.join(VERIF, ent["replay"])
                    os.makedirs(os.path.dirname(path), exist_ok=True)
                    with open(path, "w") as fh:
                        json.dump(jsonable({"property": self.pid, "module": self.modname, "evaluator": ev, "key": f["key"],
                                            "case": case, "failure": f}), fh, indent=1)
                continue
            new.setdefault(key, []).append((f, case, ev))
        for key, n in sorted(kf_counts.items()):
            print(f"KNOWN-FINDING: property={self.pid} {key} [{n} case(s)] {known[key].get('what','')}")
        if self.harness_errors:
            for ev, case, msg in self.harness_errors[:5]:
                print(f"HARNESS-ERROR property={self.pid} evaluator={ev} case={json.dumps(jsonable(case))[:400]}\n{msg}", file=sys.stderr)
            status = 2
        nviol = 0
        for key, lst in sorted(new.items()):
            f, case, ev = lst[0]
            # determinism: the failing case must fail the same way when re-run on fresh objects
            again = _eval_one((self.modname, ev, case)) if not f.get("volatile") else {"fails": [f]}
            keys2 = {f"{self.pid}/{g['key']}" for g in again["fails"]}
            if key not in keys2:
                print(
                    f"HARNESS-ERROR property={self.pid} non-deterministic failure {key} (replay gave {sorted(keys2)[:3]})",
                    file=sys.stderr,
                )
                status = 2
                continue
            nviol += len(lst)
            path = os.path.join(os.environ.get("VERIF_REPLAY_DIR", os.path.join(VERIF, "replays")), self.pid, sanitize(f["key"]) + ".json")
            os.makedirs(os.path.dirname(path), exist_ok=True)
            with open(path, "w") as fh:
                json.dump(
                    jsonable(
                        {
                            "property": self.pid,
                            "module": self.modname,
                            "evaluator": ev,
                            "key": f["key"],
                            "case": case,
                            "failure": f,
                            "occurrences": len(lst),
                        }
                    ),
                    fh,
                    indent=1,
                )
            if len(printed) < 40:
                print(f"VIOLATION property={self.pid} replay={path}")
                print(f"  key={key} occurrences={len(lst)} what={str(f.get('what',''))[:300]}")
            printed.add(key)
            if status == 0:
                status = 1
        # vacuity guard
        if status == 0 and len(self.tags) < self.min_tags:
            print(f"HARNESS-ERROR property={self.pid} vacuous exploration: {len(self.tags)} distinct non-trivial outcomes", file=sys.stderr)
            status = 2
        self.write_evidence(nviol, sorted(kf_counts))
        wall = time.time() - self.t0
        print(
            f"[{self.pid}] tier={self.tier} seed={self.seed} cases={self.cases} evaluations={self.evaluations} "
            f"states={self.states} transitions={self.transitions} distinct_nontrivial={len(self.tags)} "
            f"violations={nviol} known_findings={len(kf_counts)} wall={wall:.1f}s exit={status}"
        )
        return status

    def write_evidence(self, nviol, known_keys):
        cov = {
            "evaluations": int(self.evaluations),
            "distinct_nontrivial": len(self.tags),
            "rule": self.rule,
            "samples": self.samples[:6] or [{"note": "no sample recorded"}],
            "cases": self.cases,
            "exhaustive": bool(self.exhaustive and not self.caps),
            "caps_hit": self.caps,
            "worst_slack_observed_over_allowed": {k: round(v, 6) for k, v in sorted(self.slack.items())},
            "skipped": self.skipped,
            "per_evaluator": self.per_evaluator,
            "known_findings_reported": known_keys,
            "nontrivial_tags_sample": sorted(self.tags)[:25],
        }
        if self.level == "model_checking":
            cov["states"] = int(self.states)
            cov["transitions"] = int(self.transitions)
            cov["traces_validated_against_impl"] = int(self.traces)
        cov.update(self.extra)
        ev = {
            "property_id": self.pid,
            "tier": self.tier,
            "seed": int(self.seed),
            "level": self.level,
            "coverage": jsonable(cov),
            "assumptions": self.assumptions,
            "wall_s": round(time.time() - self.t0, 3),
            "violations": int(nviol),
        }
        evdir = os.environ.get("VERIF_EVIDENCE_DIR", os.path.join(VERIF, "evidence"))
        os.makedirs(evdir, exist_ok=True)
        path = os.path.join(evdir, f"{self.pid}.json")
        tmp = path + ".tmp"
        with open(tmp, "w") as fh:
            json.dump(ev, fh, indent=1)
        os.replace(tmp, path)


def load_known():
    path = os.path.join(VERIF, "known_findings.json")
    if not os.path.exists(path):
        return {}
    with open(path) as fh:
        data = json.load(fh)
    return {e["key"]: e for e in data.get("findings", [])}


def fail(key, what, **kw):
    d = {"key": key, "what": what}
    d.update(kw)
    return d
