"""Run once after a fresh restore (offline): vendor mpmath from the wheelhouse, byte-compile,
self-test the explorers on toy systems with and without a planted bug."""
import compileall
import glob
import os
import sys
import zipfile

VERIF = os.path.dirname(os.path.dirname(os.path.abspath(__file__)))


def main():
    vend = os.path.join(VERIF, "_vendor")
    os.makedirs(vend, exist_ok=True)
    if not os.path.isdir(os.path.join(vend, "mpmath")):
        wheels = sorted(glob.glob("/opt/veriftools/wheels/mpmath-*.whl"))
        if not wheels:
            print("setup: mpmath wheel not found in /opt/veriftools/wheels", file=sys.stderr)
            return 1
        zipfile.ZipFile(wheels[-1]).extractall(vend)
    for d in ("evidence", "replays"):
        os.makedirs(os.path.join(VERIF, d), exist_ok=True)
    compileall.compile_dir(os.path.join(VERIF, "mc"), quiet=1)
    compileall.compile_dir(os.path.join(VERIF, "checks"), quiet=1)
    sys.path.insert(0, VERIF)
    from mc import core

    core.setup_paths()
    import mpmath  # noqa: F401
    import inference  # noqa: F401

    try:
        from mc import selftest
    except ImportError:
        selftest = None
    if selftest is not None:
        rc = selftest.main()
        if rc:
            return rc
    print("setup ok")
    return 0


if __name__ == "__main__":
    sys.exit(main())
