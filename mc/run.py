"""python -m mc.run C13 [--tier quick|thorough]  – run the check for one property."""
import argparse
import importlib
import os
import sys


def main(argv=None):
    ap = argparse.ArgumentParser()
    ap.add_argument("pid")
    ap.add_argument("--tier", default=os.environ.get("VERIF_TIER", "quick"), choices=["quick", "thorough"])
    ns = ap.parse_args(argv)
    os.environ.setdefault("PYTHONHASHSEED", "0")
    import warnings

    warnings.simplefilter("ignore")
    from mc import core

    core.setup_paths()
    pid = ns.pid.upper()
    modname = f"checks.{pid.lower()}"
    try:
        mod = importlib.import_module(modname)
        import inference  # noqa: F401  (import failure of the library itself is a harness error here)
    except Exception as e:  # pragma: no cover
        import traceback

        traceback.print_exc()
        print(f"HARNESS-ERROR property={pid} cannot import: {e}", file=sys.stderr)
        return 2
    seed = int(os.environ.get("VERIF_SEED", "0") or 0)
    ck = core.Check(pid, modname, ns.tier, seed, mod.LEVEL)
    try:
        mod.run(ck)
    except core.HarnessError as e:
        import traceback

        traceback.print_exc()
        print(f"HARNESS-ERROR property={pid} {e}", file=sys.stderr)
        return 2
    return ck.finish()


if __name__ == "__main__":
    sys.exit(main())
