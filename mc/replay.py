"""python -m mc.replay <replay.json> – re-execute one recorded case through the same
evaluator, without the enumeration around it.  Exit 1 if the recorded failure
reproduces (prints it), 0 if the case now passes."""
import json
import sys


def main(argv=None):
    argv = sys.argv[1:] if argv is None else argv
    import warnings

    warnings.simplefilter("ignore")
    from mc import core

    core.setup_paths()
    rec = json.load(open(argv[0]))
    r1 = core._eval_one((rec["module"], rec["evaluator"], rec["case"]))
    r2 = core._eval_one((rec["module"], rec["evaluator"], rec["case"]))
    k1 = sorted(f["key"] for f in r1["fails"])
    k2 = sorted(f["key"] for f in r2["fails"])
    if "harness_error" in r1:
        print(r1["harness_error"])
        return 2
    if k1 != k2:
        print("replay diverged between two runs:", k1, k2)
        return 2
    hit = [f for f in r1["fails"] if f["key"] == rec["key"]]
    for f in r1["fails"]:
        print(json.dumps(core.jsonable(f))[:2000])
    if hit:
        print(f"REPRODUCED property={rec['property']} key={rec['key']}")
        return 1
    print(f"not reproduced: property={rec['property']} key={rec['key']} (other failures: {k1})")
    return 0


if __name__ == "__main__":
    sys.exit(main())
