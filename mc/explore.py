"""Engine A – stateless choice-tree explorer (deviation-bounded DFS over a scripted random stream).

``explore(body)`` runs ``body(ctx)`` once per leaf of the tree of choices.  Inside, every
seam calls ``ctx.choose(label, weights)``; a run replays its prefix (a mismatch while
replaying is a HarnessError) and answers 0 afterwards; every untried alternative at a
position >= len(prefix) is pushed.  Each execution carries the product of the weights of its
choices (its exact probability) and an observation log ``ctx.obs``.
"""
from mc.core import HarnessError


class Cut(BaseException):
    """Raised by a harness wrapper to end an execution at the horizon."""


class Runaway(BaseException):
    """The code under test keeps consuming random draws without ever finishing (e.g. a redraw-until loop that the scripted
    stream can never satisfy).  Not caught by the explorer: the case runner reports it as a violation of its own kind."""


MAX_CHOICES = 1500


class Ctx:
    __slots__ = ("prefix", "trace", "weight", "obs", "cost", "cut", "labels")

    def __init__(self, prefix=(), labels=None):
        self.prefix = list(prefix)
        self.labels = labels
        self.trace = []  # (label, k, n, weights)
        self.weight = 1.0
        self.obs = []
        self.cost = 0
        self.cut = False

    def choose(self, label, weights, costs=None):
        i = len(self.trace)
        n = len(weights)
        if n == 0:
            raise HarnessError("empty choice")
        if i >= MAX_CHOICES:
            raise Runaway(f"more than {MAX_CHOICES} random draws in one execution")
        if i < len(self.prefix):
            k = self.prefix[i]
            if k >= n:
                raise HarnessError(f"replay divergence at {i}: choice {k} out of range {n} ({label})")
            if self.labels is not None and i < len(self.labels) and self.labels[i] != label:
                raise HarnessError(f"replay divergence at {i}: label {label!r} != recorded {self.labels[i]!r}")
        else:
            k = 0
        self.trace.append((label, k, n, weights))
        self.weight *= weights[k]
        if costs is not None:
            self.cost += costs[k]
        elif k:
            self.cost += 1
        return k

    def note(self, *item):
        self.obs.append(item)

    @property
    def choices(self):
        return [t[1] for t in self.trace]


def explore(body, bound=None, max_exec=None, first=None):
    """Yield (ctx, result) for every execution.  result is None for executions ended by Cut.
    ``bound``: max number of non-default choices (None = all).  ``first``: restrict the first
    choice to this index (used to split work)."""
    stack = [([] if first is None else [first], None)]
    n = 0
    while stack:
        prefix, labels = stack.pop()
        ctx = Ctx(prefix, labels)
        try:
            res = body(ctx)
        except Cut:
            ctx.cut = True
            res = None
        n += 1
        if len(ctx.trace) < len(prefix):
            raise HarnessError(f"replay divergence: execution made {len(ctx.trace)} choices, prefix has {len(prefix)}")
        yield ctx, res
        if max_exec is not None and n >= max_exec:
            if stack:
                raise HarnessError(f"execution cap {max_exec} hit with {len(stack)} branches pending")
            return
        labs = [t[0] for t in ctx.trace]
        ch = ctx.choices
        # cost of the prefix up to position i
        base = 0
        costs_before = []
        for (lab, k, nn, w) in ctx.trace:
            costs_before.append(base)
            base += 1 if k else 0
        for i in range(len(ctx.trace) - 1, len(prefix) - 1, -1):
            nn = ctx.trace[i][2]
            w = ctx.trace[i][3]
            for alt in range(nn - 1, 0, -1):
                if w[alt] <= 0.0:
                    continue
                if bound is not None and costs_before[i] + 1 > bound:
                    continue
                stack.append((ch[:i] + [alt], labs[: i + 1]))
