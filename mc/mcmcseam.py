"""Shared harness pieces for the MCMC checks: lattice targets, logging posterior wrapper,
construction of real sampler objects driven by a scripted generator."""
import math

import numpy as np

from mc.explore import Cut
from mc.rngseam import ScriptedGenerator


class Lattice:
    """Finite table of log-densities on the points offset + k, k in prod(range(shape))."""

    def __init__(self, shape, logp, offset=0.0, spacing=1.0):
        self.shape = tuple(shape)
        self.d = len(self.shape)
        self.logp = np.asarray(logp, dtype=float).reshape(self.shape)
        self.offset = float(offset)
        self.spacing = float(spacing)

    def index(self, theta):
        k = (np.asarray(theta, dtype=float).reshape(-1) - self.offset) / self.spacing
        r = np.rint(k)
        if k.size != self.d or not np.all(np.abs(k - r) < 1e-6):
            return None
        idx = tuple(int(v) for v in r)
        if any(i < 0 or i >= n for i, n in zip(idx, self.shape)):
            return None
        return idx

    def coords(self, idx):
        return np.array([self.offset + self.spacing * i for i in idx], dtype=float)

    def value(self, theta):
        idx = self.index(theta)
        return -math.inf if idx is None else float(self.logp[idx])

    def states(self):
        return [idx for idx in np.ndindex(*self.shape) if np.isfinite(self.logp[idx])]

    def pi(self, T=1.0):
        w = np.exp(self.logp / T)
        return w / w.sum()


def target_table(name, shape):
    """Deterministic catalogue of lattice targets (log-densities)."""
    grids = np.meshgrid(*[np.arange(n, dtype=float) for n in shape], indexing="ij")
    d = len(shape)

    def one(k, n, kind):
        if kind == "unimodal":
            return -0.35 * (k - (n - 1) / 3.0) ** 2
        if kind == "bimodal":
            return np.log(np.exp(-((k - 1.0) ** 2)) + 0.6 * np.exp(-((k - (n - 2.0)) ** 2)))
        if kind == "ties":
            return -np.floor(np.abs(k - (n // 2)) / 2.0)
        if kind == "holes":
            v = -0.2 * np.abs(k - 1.0)
            return np.where(k == 2, -np.inf, v)
        if kind == "cliff":
            return np.where(k >= n // 2, -60.0, 0.0) - 0.1 * k
        raise KeyError(kind)

    out = sum(one(g, n, name) for g, n in zip(grids, shape))
    if d == 2:
        out = out - 0.4 * (grids[0] - grids[1]) ** 2 * (0.0 if name in ("holes", "cliff") else 1.0)
    return out


class EvalLog:
    """Wraps the user's posterior: logs every evaluation into ctx.obs; raises Cut when an
    evaluation beyond ``maxeval`` (counted from arm()) is requested."""

    def __init__(self, fn, ctx, maxeval=None):
        self.fn = fn
        self.ctx = ctx
        self.maxeval = maxeval
        self.armed = False
        self.n = 0

    def arm(self, maxeval=None):
        self.armed = True
        self.n = 0
        if maxeval is not None:
            self.maxeval = maxeval

    def __call__(self, theta):
        v = self.fn(theta)
        if self.armed:
            if self.maxeval is not None and self.n >= self.maxeval:
                raise Cut()
            self.n += 1
            self.ctx.note("eval", tuple(float(x) for x in np.asarray(theta, dtype=float).reshape(-1)), float(v))
        return v


class WarmGen:
    """Generator for a scripted warm-up step: every normal draw is ``delta`` (times scale), every uniform is 0
    (accept whenever the acceptance probability is positive)."""

    def __init__(self, delta):
        self.delta = delta
        self.calls = 0

    def normal(self, loc=0.0, scale=1.0, size=None):
        self.calls += 1
        if self.calls > 4000:
            from mc.explore import Runaway

            raise Runaway("more than 4000 draws during one scripted warm-up step")
        z = self.delta if size is None else np.full(size, float(self.delta))
        return loc + scale * z

    def random(self, size=None):
        return 0.0 if size is None else np.zeros(size)

    def integers(self, low, high=None, size=None):
        return low if high is not None else 0


def set_rng(chain, gen):
    chain.rng = gen
    for p in getattr(chain, "params", []):
        p.rng = gen


RW_CLASSES = ("MetropolisChain", "GibbsChain", "PcaChain")


def build_rw_chain(kind, post, start, sigma, T, limits, lat, directions=None):
    """limits: None | 'box' | 'nonneg'.  Box walls are half a cell outside the outermost lattice points."""
    from inference.mcmc import GibbsChain, PcaChain
    from inference.mcmc.gibbs import MetropolisChain

    d = len(start)
    widths = np.full(d, float(sigma))
    lo = np.array([lat.offset - 0.5 * lat.spacing] * d)
    hi = np.array([lat.offset + (n - 0.5) * lat.spacing for n in lat.shape])
    start_arr = np.array(start, dtype=float)
    if getattr(lat, "int_start", False) and np.all(start_arr == np.rint(start_arr)):
        start_arr = start_arr.astype(np.int64)  # a whole-number starting point written with an integer dtype
    if kind == "PcaChain":
        b = (lo, hi) if limits == "box" else None
        chain = PcaChain(posterior=post, start=start_arr, widths=widths, temperature=T, bounds=b, display_progress=False)
        if directions is not None:
            chain.directions = [np.array(v, dtype=float) for v in directions]
    else:
        cls = {"MetropolisChain": MetropolisChain, "GibbsChain": GibbsChain}[kind]
        chain = cls(posterior=post, start=start_arr, widths=widths, temperature=T, display_progress=False)
        for i in range(d):
            if limits == "box":
                chain.set_boundaries(i, (float(lo[i]), float(hi[i])))
            elif limits == "nonneg":
                chain.set_non_negative(i, True)
    return chain
