"""Writes /verif/seeded/SUMMARY.md from the meta/result/confirmation files (maintenance tool)."""
import json
import os

VERIF = os.path.dirname(os.path.dirname(os.path.abspath(__file__)))


def main():
    root = os.path.join(VERIF, "seeded")
    rows = []
    for sid in sorted(os.listdir(root)):
        d = os.path.join(root, sid)
        if not os.path.exists(os.path.join(d, "meta.json")):
            continue
        meta = json.load(open(os.path.join(d, "meta.json")))
        res = json.load(open(os.path.join(d, "result.json"))) if os.path.exists(os.path.join(d, "result.json")) else {}
        conf = json.load(open(os.path.join(d, "confirmation.json"))) if os.path.exists(os.path.join(d, "confirmation.json")) else {}
        keys = []
        for c in res.get("checks", {}).values():
            keys += [l.strip().split(" ")[0].replace("key=", "") for l in c.get("violation_lines", []) if l.strip().startswith("key=")]
        rows.append((sid, meta.get("property"), (meta.get("summary") or "").replace("|", "/").replace("\n", " ")[:150], (meta.get("needs") or "").replace("|", "/").replace("\n", " ")[:130],
                     "yes" if conf.get("confirmed") else ("no" if conf else "-"), "detected" if res.get("detected") else "MISSED", "; ".join(sorted(set(keys)))[:160]))
    with open(os.path.join(root, "SUMMARY.md"), "w") as fh:
        fh.write("# Seeded property-breaking changes\n\nEach directory holds `patch.diff`, the independent demonstration `demo.py`, `meta.json` (written by the sub-agent that produced the change from the "
                 "property text alone), `confirmation.json` (my own confirmation in a scratch worktree: demonstration passes on the clean tree, the 150 tests pass with the change, demonstration fails "
                 "with the change) and `result.json` (outcome of the property's quick check against the change, run by `python -m mc.seeded`).\n\n")
        fh.write(f"{len(rows)} changes; {sum(r[5] == 'detected' for r in rows)} detected by the quick tier of the property's check.\n\n")
        fh.write("| id | property | change | needs | confirmed | quick check | keys reported |\n|---|---|---|---|---|---|---|\n")
        for r in rows:
            fh.write("| " + " | ".join(r) + " |\n")
    print(len(rows), "rows")


if __name__ == "__main__":
    main()
