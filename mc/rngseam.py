"""Scripted random generator + symbolic uniform variate (DESIGN.md section 2).

``ScriptedGenerator`` implements the subset of numpy.random.Generator the library calls and
asks the explorer (``ctx.choose``) for every draw.  ``U`` represents a monotone function of
one uniform variate; comparing it with a number forks the execution with the exact
probabilities and records the threshold the code used.
"""
import itertools
import math
import operator

import numpy as np

from mc.core import HarnessError


class SeamUnsupported(HarnessError):
    pass


DEFAULT_QUANTILES = (0.05, 0.25, 0.5, 0.75, 0.95)


class _Root:
    __slots__ = ("u", "lo", "hi", "ctx", "quantiles", "id")

    def __init__(self, ctx, quantiles, ident):
        self.u = None
        self.lo = 0.0
        self.hi = 1.0
        self.ctx = ctx
        self.quantiles = quantiles
        self.id = ident


def _isnum(o):
    return isinstance(o, (int, float, np.floating, np.integer)) or (isinstance(o, np.ndarray) and o.ndim == 0)


def _is_nan(o):
    try:
        return not isinstance(o, U) and np.ndim(o) == 0 and float(o) != float(o)
    except (TypeError, ValueError):
        return False


class U:
    """value = f(u), u ~ Uniform(lo, hi) (initially (0,1)); f monotone."""

    __slots__ = ("root", "f", "finv", "inc")
    __array_priority__ = 1000

    def __init__(self, root, f=None, finv=None, inc=True):
        self.root = root
        self.f = f if f is not None else (lambda u: u)
        self.finv = finv if finv is not None else (lambda v: v)
        self.inc = inc

    # ---- helpers
    def _concrete(self):
        return self.root.u is not None

    def value(self):
        """concretise (choose a quantile of the remaining interval) and return the float value"""
        r = self.root
        if r.u is None:
            qs = r.quantiles
            i = r.ctx.choose("quantile", [1.0 / len(qs)] * len(qs))
            r.u = r.lo + qs[i] * (r.hi - r.lo)
            r.ctx.note("u", r.id, r.u)
        return self.f(r.u)

    __float__ = value

    def _range(self):
        a, b = self.f(self.root.lo), self.f(self.root.hi)
        return (a, b) if a <= b else (b, a)

    def _new(self, f, finv, inc):
        return U(self.root, f, finv, inc)

    def _aff(self, a, b):
        a = float(a)
        b = float(b)
        if a == 0.0:
            return b
        f, fi = self.f, self.finv
        return self._new(lambda u: a * f(u) + b, lambda v: fi((v - b) / a), self.inc if a > 0 else not self.inc)

    # ---- arithmetic
    def __add__(self, o):
        if _isnum(o):
            return self._aff(1.0, o)
        return self.value() + o

    __radd__ = __add__

    def __sub__(self, o):
        if _isnum(o):
            return self._aff(1.0, -float(o))
        return self.value() - o

    def __rsub__(self, o):
        if _isnum(o):
            return self._aff(-1.0, o)
        return o - self.value()

    def __mul__(self, o):
        if _isnum(o):
            return self._aff(o, 0.0)
        return self.value() * o

    __rmul__ = __mul__

    def __truediv__(self, o):
        if _isnum(o):
            return self._aff(1.0 / float(o), 0.0)
        return self.value() / o

    def __rtruediv__(self, o):
        lo, hi = self._range()
        if _isnum(o) and lo > 0 and float(o) > 0:
            c = float(o)
            f, fi = self.f, self.finv
            return self._new(lambda u: c / f(u), lambda v: fi(c / v), not self.inc)
        return o / self.value()

    def __neg__(self):
        return self._aff(-1.0, 0.0)

    def __pow__(self, p):
        lo, hi = self._range()
        if not _isnum(p) or lo < 0 or float(p) <= 0:
            return self.value() ** p
        p = float(p)
        f, fi = self.f, self.finv
        return self._new(lambda u: f(u) ** p, lambda v: fi(max(v, 0.0) ** (1.0 / p)), self.inc)

    def _mono(self, g, ginv, increasing=True):
        f, fi = self.f, self.finv
        return self._new(lambda u: g(f(u)), lambda v: fi(ginv(v)), self.inc if increasing else not self.inc)

    def __array_ufunc__(self, ufunc, method, *inputs, **kw):
        if method != "__call__" or kw.get("out") is not None:
            raise SeamUnsupported(f"ufunc {ufunc} method {method} on symbolic uniform")
        if len(inputs) == 1:
            if self._concrete():
                return ufunc(self.value())
            lo, hi = self._range()
            if ufunc is np.log and lo > 0:
                return self._mono(math.log, math.exp)
            if ufunc is np.exp:
                return self._mono(math.exp, lambda v: math.log(v) if v > 0 else -math.inf)
            if ufunc is np.sqrt and lo >= 0:
                return self._mono(math.sqrt, lambda v: v * v)
            if ufunc is np.negative:
                return -self
            if ufunc is np.absolute and lo >= 0:
                return self
            if ufunc is np.square and lo >= 0:
                return self ** 2
            return ufunc(self.value())
        binops = {
            np.add: operator.add, np.subtract: operator.sub, np.multiply: operator.mul, np.true_divide: operator.truediv,
            np.less: operator.lt, np.less_equal: operator.le, np.greater: operator.gt, np.greater_equal: operator.ge,
            np.power: operator.pow,
        }
        if ufunc in binops and len(inputs) == 2:
            a, b = inputs
            if isinstance(a, U) and isinstance(b, U):
                return binops[ufunc](a.value(), b.value())
            if isinstance(a, U):
                return binops[ufunc](a, b)
            if isinstance(a, np.ndarray) and a.ndim > 0:
                return ufunc(a, b.value())
            refl = {
                np.add: b.__radd__, np.subtract: b.__rsub__, np.multiply: b.__rmul__, np.true_divide: b.__rtruediv__,
                np.less: b.__gt__, np.less_equal: b.__ge__, np.greater: b.__lt__, np.greater_equal: b.__le__,
                np.power: (lambda x: x ** b.value()),
            }
            return refl[ufunc](a)
        vals = [i.value() if isinstance(i, U) else i for i in inputs]
        return ufunc(*vals, **kw)

    # ---- comparisons: fork with exact probability
    def _p_less(self, thr):
        """P(value < thr | u in [lo,hi])"""
        r = self.root
        a, b = self.f(r.lo), self.f(r.hi)
        lo, hi = (a, b) if a <= b else (b, a)
        if thr <= lo:
            return 0.0
        if thr >= hi:
            return 1.0
        if thr != thr:
            return 0.0
        ustar = min(max(self.finv(thr), r.lo), r.hi)
        frac = (ustar - r.lo) / (r.hi - r.lo)
        return frac if self.inc else 1.0 - frac

    def _less(self, thr, op):
        if isinstance(thr, U):
            thr = thr.value()
        if isinstance(thr, np.ndarray) and thr.ndim > 0:
            return {"<": operator.lt, "<=": operator.le}[op](self.value(), thr)
        thr = float(thr)
        r = self.root
        if thr != thr:  # every ordered comparison with nan is False
            r.ctx.note("cmp", r.id, op, thr, None, False)
            return False
        if r.u is not None:
            v = self.f(r.u)
            out = v < thr if op == "<" else v <= thr
            r.ctx.note("cmp", r.id, op, thr, None, bool(out))
            return out
        p = self._p_less(thr)
        if p >= 1.0:
            out = True
        elif p <= 0.0:
            out = False
        else:
            out = r.ctx.choose("cmp", [p, 1.0 - p]) == 0
            # narrow the interval of the root variate consistently with the outcome
            ustar = min(max(self.finv(thr), r.lo), r.hi)
            if out == self.inc:
                r.hi = ustar
            else:
                r.lo = ustar
        r.ctx.note("cmp", r.id, op, thr, p, bool(out))
        return out

    def __lt__(self, o):
        return self._less(o, "<")

    def __le__(self, o):
        return self._less(o, "<=")

    def __gt__(self, o):
        if _is_nan(o):
            return self._less(o, "<=")
        return not self._less(o, "<=")

    def __ge__(self, o):
        if _is_nan(o):
            return self._less(o, "<")
        return not self._less(o, "<")

    def __bool__(self):
        raise SeamUnsupported("truth value of a symbolic uniform")

    def __int__(self):
        r = self.root
        if r.u is not None:
            return int(self.f(r.u))
        lo, hi = self._range()
        ks = list(range(math.floor(lo), math.floor(hi) + 1))
        ps = [max(self._p_less(k + 1) - self._p_less(k), 0.0) for k in ks]
        keep = [(k, p) for k, p in zip(ks, ps) if p > 1e-15]
        if any(k < 0 for k, _ in keep):
            return int(self.value())
        tot = sum(p for _, p in keep)
        i = r.ctx.choose("int", [p / tot for _, p in keep])
        k = keep[i][0]
        # narrow
        u1, u2 = sorted((min(max(self.finv(k), r.lo), r.hi) if k > lo else (r.lo if self.inc else r.hi),
                         min(max(self.finv(k + 1), r.lo), r.hi) if k + 1 < hi else (r.hi if self.inc else r.lo)))
        r.lo, r.hi = u1, u2
        r.ctx.note("int", r.id, k, keep[i][1] / tot)
        return k

    __index__ = __int__

    def __repr__(self):
        return f"U(id={self.root.id}, u={self.root.u}, range={self._range()})"


PERM_MENU_CAP = 5


class ScriptedGenerator:
    """Stand-in for numpy.random.Generator driven by the explorer."""

    def __init__(self, ctx, normal=(-1.0, 1.0), normal_w=None, quantiles=DEFAULT_QUANTILES, name="rng"):
        self.ctx = ctx
        self.xi = list(normal)
        self.w = list(normal_w) if normal_w is not None else [1.0 / len(self.xi)] * len(self.xi)
        self.quantiles = tuple(quantiles)
        self.name = name
        self._n = 0
        self._nd = 0

    # -- helpers
    def _shape(self, size):
        if size is None:
            return None
        if isinstance(size, (int, np.integer)):
            return (int(size),)
        return tuple(int(s) for s in size)

    def _xi(self):
        # the alphabet is offered in an order that rotates with the draw count: the default answer (option 0) of
        # consecutive draws therefore runs through all letters, so a legitimate redraw-until-accepted loop in the code
        # under test terminates on the default path instead of being handed the same letter for ever
        n = len(self.xi)
        off = self._nd % n
        self._nd += 1
        w = self.w[off:] + self.w[:off]
        k = (self.ctx.choose("normal", w) + off) % n
        self.ctx.note("normal", self.name, self.xi[k])
        return self.xi[k]

    def _q(self, label="quantile"):
        k = self.ctx.choose(label, [1.0 / len(self.quantiles)] * len(self.quantiles))
        self.ctx.note(label, self.name, self.quantiles[k])
        return self.quantiles[k]

    def _fill(self, shape, fn):
        if shape is None:
            return fn()
        out = np.empty(shape, dtype=float)
        flat = out.reshape(-1)
        for i in range(flat.size):
            flat[i] = fn()
        return out

    # -- Generator API subset
    def normal(self, loc=0.0, scale=1.0, size=None):
        shape = self._shape(size)
        if shape is None and (isinstance(loc, np.ndarray) and loc.ndim > 0 or isinstance(scale, np.ndarray) and scale.ndim > 0):
            shape = np.broadcast(np.asarray(loc), np.asarray(scale)).shape
        self.ctx.note("call", self.name, "normal", _brief(loc), _brief(scale), shape)
        z = self._fill(shape, self._xi)
        return loc + scale * z

    def standard_normal(self, size=None):
        return self.normal(size=size)

    def random(self, size=None):
        shape = self._shape(size)
        if shape is None:
            self._n += 1
            root = _Root(self.ctx, self.quantiles, f"{self.name}#{self._n}")
            self.ctx.note("call", self.name, "random", root.id)
            return U(root)
        self.ctx.note("call", self.name, "random", shape)
        return self._fill(shape, self._q)

    def uniform(self, low=0.0, high=1.0, size=None):
        shape = self._shape(size)
        if shape is None and (isinstance(low, np.ndarray) and low.ndim > 0 or isinstance(high, np.ndarray) and high.ndim > 0):
            shape = np.broadcast(np.asarray(low), np.asarray(high)).shape
        self.ctx.note("call", self.name, "uniform", _brief(low), _brief(high), shape)
        q = self._fill(shape, self._q)
        return low + (np.asarray(high) - low) * q

    def exponential(self, scale=1.0, size=None):
        shape = self._shape(size)
        if shape is None and isinstance(scale, np.ndarray) and scale.ndim > 0:
            shape = scale.shape
        self.ctx.note("call", self.name, "exponential", _brief(scale), shape)
        q = self._fill(shape, self._q)
        return -np.log1p(-np.asarray(q)) * scale

    def integers(self, low, high=None, size=None, endpoint=False):
        if high is None:
            low, high = 0, low
        low, high = int(low), int(high) + (1 if endpoint else 0)
        n = high - low
        if n <= 0:
            raise ValueError("low >= high")

        def one():
            k = self.ctx.choose("integers", [1.0 / n] * n)
            self.ctx.note("integers", self.name, low + k, n)
            return low + k

        shape = self._shape(size)
        if shape is None:
            return one()
        return self._fill(shape, one).astype(int)

    def _perm(self, n):
        if n <= PERM_MENU_CAP:
            perms = list(itertools.permutations(range(n)))
        else:
            ident = tuple(range(n))
            perms = [ident, ident[::-1]] + [ident[k:] + ident[:k] for k in range(1, n)]
            self.ctx.note("cap", "permutation menu", n)
        k = self.ctx.choose("perm", [1.0 / len(perms)] * len(perms))
        self.ctx.note("perm", self.name, perms[k])
        return list(perms[k])

    def shuffle(self, x):
        p = self._perm(len(x))
        vals = [x[i] for i in p]
        for i, v in enumerate(vals):
            x[i] = v

    def permutation(self, x):
        if isinstance(x, (int, np.integer)):
            return np.array(self._perm(int(x)))
        arr = np.asarray(x)
        return arr[self._perm(len(arr))]

    def choice(self, a, size=None, replace=True, p=None):
        if isinstance(a, (int, np.integer)):
            vals = np.arange(int(a))
        else:
            vals = np.asarray(a)
        n = len(vals)
        w = [1.0 / n] * n if p is None else [float(v) for v in p]
        self.ctx.note("call", self.name, "choice", n, None if p is None else [float(v) for v in p])
        if not replace and size is not None:
            raise SeamUnsupported("choice without replacement")

        def one():
            k = self.ctx.choose("choice", w)
            self.ctx.note("choice", self.name, k)
            return k

        shape = self._shape(size)
        if shape is None:
            return vals[one()]
        idx = self._fill(shape, one).astype(int)
        return vals[idx]


def _brief(v):
    if isinstance(v, np.ndarray):
        return v.tolist() if v.size <= 8 else ("array", v.shape)
    if isinstance(v, (np.floating, np.integer)):
        return v.item()
    return v
