"""Run the checks against the kept property-breaking changes in /verif/seeded/<id>/ (maintenance tool, not a registered command).

For each seeded change: a scratch git worktree of /repo's HEAD is created outside /repo and /verif, patch.diff is applied, the
quick check of the property it breaks is run with VERIF_REPO pointing at the scratch tree (evidence and replays redirected to the
scratch area), and the outcome is stored in seeded/<id>/result.json.  The worktree is removed afterwards.

usage: python -m mc.seeded [id ...] [--tier quick|thorough] [--tests]
"""
import json
import os
import shutil
import subprocess
import sys
import tempfile
import time

VERIF = os.path.dirname(os.path.dirname(os.path.abspath(__file__)))


def run_one(sid, tier="quick", tests=False, checks=None):
    d = os.path.join(VERIF, "seeded", sid)
    meta = json.load(open(os.path.join(d, "meta.json")))
    prop = meta["property"]
    scratch = tempfile.mkdtemp(prefix="verif-seeded-")
    wt = os.path.join(scratch, "repo")
    res = {"id": sid, "property": prop, "tier": tier}
    try:
        subprocess.run(["git", "-C", "/repo", "worktree", "add", "-q", "--detach", wt, "HEAD"], check=True)
        ap = subprocess.run(["git", "-C", wt, "apply", os.path.join(d, "patch.diff")], capture_output=True, text=True)
        if ap.returncode != 0:
            res["error"] = "patch does not apply: " + ap.stderr[-400:]
            return res
        env = dict(os.environ, VERIF_REPO=wt, VERIF_EVIDENCE_DIR=os.path.join(scratch, "evidence"), VERIF_REPLAY_DIR=os.path.join(scratch, "replays"), PYTHONPATH=wt)
        if tests:
            t = subprocess.run(["/venv/bin/python", "-m", "pytest", "-q", "-p", "no:cacheprovider", "-x", "tests"], cwd=wt, env=env, capture_output=True, text=True)
            res["tests_rc"] = t.returncode
            res["tests_tail"] = t.stdout.strip().splitlines()[-1:] if t.stdout else []
        if os.path.exists(os.path.join(d, "demo.py")):
            dm = subprocess.run(["/venv/bin/python", os.path.join(d, "demo.py")], cwd=wt, env=env, capture_output=True, text=True)
            res["demo_rc_with_change"] = dm.returncode
        res["checks"] = {}
        for pid in (checks or [prop]):
            t0 = time.time()
            r = subprocess.run(["/venv/bin/python", "-m", "mc.run", pid, "--tier", tier], cwd=VERIF, env=env, capture_output=True, text=True)
            viol = [l for l in r.stdout.splitlines() if l.startswith("VIOLATION") or l.strip().startswith("key=")]
            res["checks"][pid] = {"rc": r.returncode, "wall_s": round(time.time() - t0, 1), "violation_lines": viol[:12],
                                  "stderr_tail": r.stderr.strip().splitlines()[-3:] if r.returncode == 2 else []}
        res["detected"] = any(c["rc"] == 1 for c in res["checks"].values())
        return res
    finally:
        subprocess.run(["git", "-C", "/repo", "worktree", "remove", "--force", wt], capture_output=True)
        shutil.rmtree(scratch, ignore_errors=True)
        json.dump(res, open(os.path.join(d, "result.json"), "w"), indent=1)


def confirm_one(sid):
    """Independent confirmation of a seeded change, in a scratch worktree: the demonstration passes on the clean tree, the
    whole test suite passes with the change applied, the demonstration fails with the change applied."""
    d = os.path.join(VERIF, "seeded", sid)
    scratch = tempfile.mkdtemp(prefix="verif-confirm-")
    wt = os.path.join(scratch, "repo")
    out = {}
    try:
        subprocess.run(["git", "-C", "/repo", "worktree", "add", "-q", "--detach", wt, "HEAD"], check=True)
        env = dict(os.environ, PYTHONPATH=wt, MPLBACKEND="Agg")
        demo = os.path.join(d, "demo.py")
        r = subprocess.run(["/venv/bin/python", demo], cwd=wt, env=env, capture_output=True, text=True, timeout=1800)
        out["demo_rc_clean_tree"] = r.returncode
        ap = subprocess.run(["git", "-C", wt, "apply", os.path.join(d, "patch.diff")], capture_output=True, text=True)
        out["patch_applies"] = ap.returncode == 0
        if ap.returncode == 0:
            t = subprocess.run(["/venv/bin/python", "-m", "pytest", "-q", "-p", "no:cacheprovider", "tests"], cwd=wt, env=env, capture_output=True, text=True, timeout=7200)
            out["tests_rc_with_change"] = t.returncode
            out["tests_tail"] = (t.stdout.strip().splitlines() or [""])[-1]
            r = subprocess.run(["/venv/bin/python", demo], cwd=wt, env=env, capture_output=True, text=True, timeout=1800)
            out["demo_rc_with_change"] = r.returncode
            out["demo_message"] = (r.stdout + r.stderr).strip().splitlines()[-1:] if r.returncode else []
        out["confirmed"] = bool(out.get("patch_applies") and out.get("demo_rc_clean_tree") == 0 and out.get("tests_rc_with_change") == 0 and out.get("demo_rc_with_change", 0) != 0)
        out["repo_head"] = subprocess.run(["git", "-C", "/repo", "rev-parse", "--short", "HEAD"], capture_output=True, text=True).stdout.strip()
    except Exception as e:  # noqa
        out["error"] = f"{type(e).__name__}: {e}"[:300]
    finally:
        subprocess.run(["git", "-C", "/repo", "worktree", "remove", "--force", wt], capture_output=True)
        shutil.rmtree(scratch, ignore_errors=True)
    json.dump(out, open(os.path.join(d, "confirmation.json"), "w"), indent=1)
    return sid, out


def main(argv):
    if "--confirm" in argv:
        from concurrent.futures import ThreadPoolExecutor

        argv = [a for a in argv if a != "--confirm"]
        jobs = 6
        if "--jobs" in argv:
            i = argv.index("--jobs")
            jobs = int(argv[i + 1])
            del argv[i : i + 2]
        ids = argv or sorted(x for x in os.listdir(os.path.join(VERIF, "seeded")) if os.path.exists(os.path.join(VERIF, "seeded", x, "patch.diff")))
        with ThreadPoolExecutor(jobs) as ex:
            for sid, out in ex.map(confirm_one, ids):
                print(sid, "confirmed" if out.get("confirmed") else "NOT-CONFIRMED", {k: v for k, v in out.items() if k not in ("demo_message",)}, flush=True)
        return

    tier = "quick"
    tests = False
    ids = []
    checks = None
    i = 0
    while i < len(argv):
        a = argv[i]
        if a == "--tier":
            tier = argv[i + 1]
            i += 1
        elif a == "--tests":
            tests = True
        elif a == "--checks":
            checks = argv[i + 1].split(",")
            i += 1
        else:
            ids.append(a)
        i += 1
    if not ids:
        ids = sorted(os.listdir(os.path.join(VERIF, "seeded")))
    for sid in ids:
        if not os.path.exists(os.path.join(VERIF, "seeded", sid, "patch.diff")):
            continue
        r = run_one(sid, tier, tests, checks)
        print(sid, "detected" if r.get("detected") else "MISSED", {k: (v["rc"], v["wall_s"]) for k, v in r.get("checks", {}).items()}, r.get("error", ""))


if __name__ == "__main__":
    main(sys.argv[1:])
