"""Self-test of the explorers on toy systems: a planted bug must be reported, the correct system must be silent."""
import math
import sys

import numpy as np


def toy_kernel(bug):
    from mc.explore import explore
    from mc.rngseam import ScriptedGenerator

    logp = [-0.3 * (k - 2) ** 2 for k in range(6)]

    def step(x, rng):
        y = x + int(rng.normal(0.0, 1.0))
        p_new = logp[y] if 0 <= y < 6 else -math.inf
        a = math.exp(min(0.0, (logp[x] - p_new) if bug else (p_new - logp[x]))) if p_new > -math.inf else 0.0
        return y if rng.random() < a else x

    P = np.zeros((6, 6))
    n = 0
    for x in range(6):
        def body(ctx, x=x):
            return step(x, ScriptedGenerator(ctx, normal=[-1.0, 1.0]))
        for ctx, y in explore(body):
            P[x, y] += ctx.weight
            n += 1
    pi = np.exp(logp)
    pi /= pi.sum()
    F = pi[:, None] * P
    return float(np.abs(F - F.T).max()), n


def toy_protocol(bug):
    """two workers send a number to the parent; the buggy parent appends in arrival order"""
    from mc.sched import World

    def run_all():
        from collections import deque

        finals = set()
        seen = set()
        q = deque([[]])
        states = 0
        while q:
            p = q.popleft()
            w = World()
            out = {}

            def parent():
                pipes = []
                procs = []
                for i in range(2):
                    a, b = w.Pipe()
                    pr = w.Process(target=lambda c, i=i: c.send(i + 1), args=(b,))
                    pipes.append(a)
                    procs.append(pr)
                for pr in procs:
                    pr.start()
                if bug:
                    got = []
                    pending = list(pipes)
                    while pending:
                        for c in list(pending):
                            if c.poll(0):
                                got.append(c.recv())
                                pending.remove(c)
                    out["outcome"] = tuple(got)
                else:
                    out["outcome"] = tuple(c.recv() for c in pipes)
                for pr in procs:
                    pr.join()

            w.S.spawn("parent", parent)
            res = w.S.run(p, "parent")
            k = w.S.key()
            if k in seen:
                continue
            seen.add(k)
            states += 1
            if res[0] == "done":
                finals.add(out.get("outcome"))
            elif res[0] == "frontier":
                for i in range(len(res[1])):
                    q.append(p + [i])
            if states > 5000:
                break
        return finals, states

    return run_all()


def main():
    ok = True
    r0, n0 = toy_kernel(False)
    r1, n1 = toy_kernel(True)
    if not (r0 < 1e-15 and r1 > 1e-3):
        print(f"selftest: choice-tree explorer failed (residuals {r0}, {r1})", file=sys.stderr)
        ok = False
    f0, s0 = toy_protocol(False)
    f1, s1 = toy_protocol(True)
    if not (len(f0) == 1 and len(f1) == 2):
        print(f"selftest: schedule explorer failed (finals {f0}, {f1})", file=sys.stderr)
        ok = False
    print(f"selftest: choice-tree {n0}+{n1} executions (residual {r0:.1e} / planted {r1:.1e}); schedules {s0}+{s1} states (outcomes {len(f0)} / planted {len(f1)})")
    return 0 if ok else 1


if __name__ == "__main__":
    sys.exit(main())
