"""Reference model and seams for C20 (inference.approx.conditional).

* ``CellURng`` – deterministic stand-in for the module-level ``rng``: records the ``p`` handed to
  ``choice`` and answers with *every* cell of positive probability crossed with every ``u`` of a
  listed alphabet (the k-th draw is cell ``pos[(k // nU) % npos]`` with uniform ``us[k % nU]``).
* exact cell masses / inverse CDF of the piecewise-linear interpolant of a table.
* a small catalogue of posteriors whose 1-D conditionals are known in closed form (log-density
  along a line), with numerically located conditional mode / width used only to *place* bounds
  and conditioning points.
"""
import math

import numpy as np

from mc.core import HarnessError

EPS = float(np.finfo(float).eps)


class CellURng:
    """Scripted generator: enumerates (cell, u) instead of sampling."""

    def __init__(self, us):
        self.us = np.asarray(us, dtype=float)
        self.p_log = []  # every p handed to choice
        self.idx_log = []
        self.u_log = []
        self._pos = None

    # numpy's own argument checks for Generator.choice(p=...) (so that a table the real generator
    # would refuse is refused here too)
    @staticmethod
    def _validate(n, p):
        p = np.asarray(p, dtype=float)
        if p.ndim != 1 or p.size != n:
            raise ValueError("a and p must have same size")
        if np.isnan(p).any():
            raise ValueError("probabilities contain NaN")
        if (p < 0).any():
            raise ValueError("probabilities are not non-negative")
        if abs(p.sum() - 1.0) > math.sqrt(EPS):
            raise ValueError("probabilities do not sum to 1")
        return p

    def _count(self, size):
        if size is None:
            return None
        if isinstance(size, (int, np.integer)):
            return int(size)
        k = 1
        for s in size:
            k *= int(s)
        return k

    def choice(self, a, size=None, replace=True, p=None, axis=0, shuffle=True):
        if isinstance(a, (int, np.integer)):
            vals = np.arange(int(a))
        else:
            vals = np.asarray(a)
        n = len(vals)
        p = np.full(n, 1.0 / n) if p is None else self._validate(n, p)
        self.p_log.append(p.copy())
        pos = np.nonzero(p > 0)[0]
        k = self._count(size)
        if k is None:
            raise HarnessError("CellURng.choice needs a size (one call must draw the whole enumeration)")
        if k < pos.size * self.us.size:
            raise HarnessError(f"n_samples={k} is smaller than cells x u = {pos.size}x{self.us.size}")
        j = np.arange(k)
        idx = pos[(j // self.us.size) % pos.size]
        self.idx_log.append(idx)
        return vals[idx].reshape(size)

    def random(self, size=None, dtype=float, out=None):
        k = self._count(size)
        if k is None:
            raise HarnessError("CellURng.random needs a size")
        u = self.us[np.arange(k) % self.us.size]
        self.u_log.append(u)
        return u.reshape(size).astype(dtype)

    def uniform(self, low=0.0, high=1.0, size=None):
        return low + (np.asarray(high) - low) * self.random(size=size)


# ----------------------------------------------------------------------------- piecewise-linear law
def cell_masses(x, table):
    """Exact probability of each cell of the piecewise-linear interpolant (normalised)."""
    x = np.asarray(x, dtype=float)
    t = np.asarray(table, dtype=float)
    m = 0.5 * (t[1:] + t[:-1]) * np.diff(x)
    return m / math.fsum(m)


def cell_inverse_cdf(p0, p1, u):
    """Position in [0,1] at which the linear density from p0 (at 0) to p1 (at 1) has accumulated the
    fraction u of the cell's mass.  Cancellation-free form valid for every p0,p1 >= 0 (not both 0)."""
    s = p0 + p1
    a = 2.0 * p0 / s  # normalised density at 0 (= 1 - dh)
    dh = (p1 - p0) / s
    return 2.0 * u / (a + np.sqrt(a * a + 4.0 * dh * u))


def cell_cdf(p0, p1, t):
    """fraction of the cell's mass accumulated at position t in [0,1]"""
    s = p0 + p1
    a = 2.0 * p0 / s
    dh = (p1 - p0) / s
    return a * t + dh * t * t


# ----------------------------------------------------------------------------- posteriors
class Family:
    """log-posterior with a scale parameter s (all lengths multiplied by s) and a location parameter loc (every
    coordinate shifted by loc * s: the centre of the distribution is then |loc| widths away from the origin)."""

    def __init__(self, name, s, loc=0.0):
        self.name = name
        self.s = float(s)
        self.loc = float(loc)
        self.off = float(loc) * float(s)

    def mode(self):
        raise NotImplementedError

    def sig(self):
        """marginal length scales (used only to place the conditioning point)"""
        raise NotImplementedError


class Separable(Family):
    d = 3
    MU = np.array([1.0, -2.0, 0.5])
    SG = np.array([0.1, 3.0, 1.0])

    def __call__(self, t):
        z = (np.asarray(t, dtype=float) - self.mode()) / (self.SG * self.s)
        return -0.5 * float(z @ z)

    def mode(self):
        return self.MU * self.s + self.off

    def sig(self):
        return self.SG * self.s

    lower = None


class Correlated(Family):
    d = 2
    RHO = 0.9
    MU = np.array([0.3, -0.2])
    SG = np.array([1.0, 0.5])

    def __call__(self, t):
        z = (np.asarray(t, dtype=float) - self.mode()) / (self.SG * self.s)
        r = self.RHO
        return -0.5 * float(z[0] ** 2 - 2 * r * z[0] * z[1] + z[1] ** 2) / (1 - r * r)

    def mode(self):
        return self.MU * self.s + self.off

    def sig(self):
        return self.SG * self.s * math.sqrt(1 - self.RHO**2)

    lower = None


class Skewed(Family):
    """t0 > 0 gamma-like (shape 3) coupled to a normal t1 whose mean follows t0; log-concave."""

    d = 2

    def __call__(self, t):
        t = np.asarray(t, dtype=float)
        u = (t[0] - self.off) / self.s
        v = (t[1] - self.off) / self.s
        if u <= 0:
            return -math.inf
        return 2.0 * math.log(u) - u - 0.5 * (v - 0.5 * u) ** 2

    def mode(self):
        # v = u/2 at the mode, then 2/u - 1 = 0
        return np.array([2.0, 1.0]) * self.s + self.off

    def sig(self):
        return np.array([1.2, 1.0]) * self.s

    @property
    def lower(self):
        return np.array([1e-6 * self.s + self.off, -math.inf])


FAMILIES = {"separable": Separable, "correlated": Correlated, "skewed": Skewed}


def make_family(name, s, loc=0.0):
    return FAMILIES[name](name, s, loc)


def line(post, c, i):
    """the 1-D conditional log-density of variable i through the point c"""
    c = np.asarray(c, dtype=float)

    def f(x):
        t = c.copy()
        t[i] = x
        return post(t)

    return f


def cond_mode_width(f, centre, scale, lower=-math.inf):
    """mode m and width w = (-f''(m))^(-1/2) of a unimodal smooth 1-D log-density, located by
    golden-section search in [centre-60 scale, centre+60 scale] (clipped at ``lower``)."""
    a = max(centre - 60.0 * scale, lower)
    b = centre + 60.0 * scale
    g = (math.sqrt(5.0) - 1.0) / 2.0
    x1, x2 = b - g * (b - a), a + g * (b - a)
    f1, f2 = f(x1), f(x2)
    for _ in range(200):
        if f1 < f2:
            a, x1, f1 = x1, x2, f2
            x2 = a + g * (b - a)
            f2 = f(x2)
        else:
            b, x2, f2 = x2, x1, f1
            x1 = b - g * (b - a)
            f1 = f(x1)
        if b - a < 1e-9 * scale:
            break
    m = 0.5 * (a + b)
    h = 1e-3 * scale
    # refine the mode with two Newton steps on the central-difference derivative
    for _ in range(3):
        d1 = (f(m + h) - f(m - h)) / (2 * h)
        d2 = (f(m + h) - 2 * f(m) + f(m - h)) / (h * h)
        if not (d2 < 0):
            raise HarnessError("conditional is not locally concave at its located mode")
        m = m - d1 / d2
    d2 = (f(m + h) - 2 * f(m) + f(m - h)) / (h * h)
    return m, 1.0 / math.sqrt(-d2)


def simpson_ref(y, x):
    """composite Simpson 1/3 (3/8 on the last three intervals if their number is odd) – used only
    to size the admissible quadrature error of a normalisation done on the same grid."""
    y = np.asarray(y, dtype=float)
    n = len(x) - 1
    h = (x[-1] - x[0]) / n
    if n % 2 == 0:
        return h / 3.0 * (y[0] + y[-1] + 4 * y[1:-1:2].sum() + 2 * y[2:-1:2].sum())
    if n == 1:
        return 0.5 * h * (y[0] + y[1])
    if n == 3:
        return 3 * h / 8 * (y[0] + 3 * y[1] + 3 * y[2] + y[3])
    m = n - 3
    s = h / 3.0 * (y[0] + y[m] + 4 * y[1:m:2].sum() + 2 * y[2:m:2].sum())
    return s + 3 * h / 8 * (y[m] + 3 * y[m + 1] + 3 * y[m + 2] + y[m + 3])


def trapz_ref(y, x):
    y = np.asarray(y, dtype=float)
    return float(((y[1:] + y[:-1]) * 0.5 * np.diff(x)).sum())
