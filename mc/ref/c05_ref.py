"""Reference model for C05: 50-digit log-densities of the normal, Cauchy and logistic laws.

Written from the textbook formulas (location mu, "uncertainty" s):

    normal    log f = -z^2/2 - log s - log(2 pi)/2,                z = (y - mu)/s
    Cauchy    log f = -log(pi s) - log(1 + z^2),                   z = (y - mu)/s
    logistic  log f = -|z| - 2 log(1 + exp(-|z|)) - log b,         z = (y - mu)/b,  b = s sqrt(3)/pi
              (a logistic law with scale b has variance b^2 pi^2 / 3, so its s.d. is s)

and their derivatives with respect to the location mu (the "prediction").  Nothing here looks
at the library.
"""
import mpmath as mp

mp.mp.dps = 50

KINDS = ("gaussian", "cauchy", "logistic")
CLASS_OF = {"gaussian": "GaussianLikelihood", "cauchy": "CauchyLikelihood", "logistic": "LogisticLikelihood"}

_LOG2PI_2 = mp.log(2 * mp.pi) / 2
_S3PI = mp.sqrt(3) / mp.pi


def logpdf(kind, y, mu, s):
    """log density of one datum; also returns the sum of |terms| (the scale for a derived tolerance)."""
    y, mu, s = mp.mpf(y), mp.mpf(mu), mp.mpf(s)
    if kind == "gaussian":
        z = (y - mu) / s
        q, ln = z * z / 2, mp.log(s)
        return -q - ln - _LOG2PI_2, q + abs(ln) + _LOG2PI_2
    if kind == "cauchy":
        z = (y - mu) / s
        q, ln = mp.log(1 + z * z), mp.log(mp.pi * s)
        return -ln - q, abs(ln) + q + 2
    if kind == "logistic":
        b = s * _S3PI
        z = abs((y - mu) / b)
        t, ln = 2 * mp.log1p(mp.exp(-z)), mp.log(b)
        return -z - t - ln, 3 * z + t + abs(ln) + 2
    raise ValueError(kind)


def dlogpdf_dmu(kind, y, mu, s):
    """d log f / d mu in closed form."""
    y, mu, s = mp.mpf(y), mp.mpf(mu), mp.mpf(s)
    if kind == "gaussian":
        return (y - mu) / (s * s)
    if kind == "cauchy":
        z = (y - mu) / s
        return 2 * z / (s * (1 + z * z))
    if kind == "logistic":
        b = s * _S3PI
        return mp.tanh((y - mu) / (2 * b)) / b
    raise ValueError(kind)


def dlogpdf_dmu_numeric(kind, y, mu, s):
    """the same derivative by 50-digit numerical differentiation of logpdf (guards the closed forms above;
    the logistic reference has a kink-free but |z|-written form, so differentiate the smooth equivalent)"""
    y, s = mp.mpf(y), mp.mpf(s)

    def f(m):
        if kind == "logistic":
            b = s * _S3PI
            z = (y - m) / b
            return -z - 2 * mp.log1p(mp.exp(-z)) - mp.log(b)
        return logpdf(kind, y, m, s)[0]

    return mp.diff(f, mp.mpf(mu), h=mp.mpf(s) * mp.mpf(10) ** -20)


def total(kind, y, pred, sig):
    """sum of log densities, and tolerance scale"""
    v = mp.mpf(0)
    sc = mp.mpf(0)
    for yi, pi_, si in zip(y, pred, sig):
        a, b = logpdf(kind, yi, pi_, si)
        v += a
        sc += b
    return v, sc + abs(v)


def gradient(kind, y, pred, sig, jac):
    """chain rule through the exact float Jacobian `jac` (n x p): returns (grad[p], scale[p])"""
    n = len(y)
    p = len(jac[0])
    g = [dlogpdf_dmu(kind, y[i], pred[i], sig[i]) for i in range(n)]
    out, sc = [], []
    for j in range(p):
        out.append(sum((g[i] * mp.mpf(jac[i][j]) for i in range(n)), mp.mpf(0)))
        # |g_i| plus an absolute floor 1/s_i (a CDF-like factor in [-1,1] known to eps, divided by the scale)
        sc.append(sum(((abs(g[i]) + 1 / mp.mpf(sig[i])) * abs(mp.mpf(jac[i][j])) for i in range(n)), mp.mpf(0)))
    return out, sc
