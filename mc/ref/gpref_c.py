"""Reference model for C16 / C18 – Gaussian-process prediction, its spatial derivatives and the
acquisition functions, written from the documented formulas only (never imports inference.*).

Arithmetic is mpmath at 50 digits.  Kernels (hyper-parameter layout as in the class docstrings):

  SE  K(u,v) = A^2 exp(-1/2 sum_i ((u_i-v_i)/l_i)^2)                 theta = [ln A, ln l_1..l_d]
  RQ  K(u,v) = A^2 (1 + 1/(2 alpha) sum_i ((u_i-v_i)/l_i)^2)^(-alpha)  theta = [ln A, ln alpha, ln l_1..l_d]
  WN  K(x_i,x_j) = delta_ij sigma_n^2  (data noise only; no contribution to a prediction of the latent function)
                                                                      theta = [ln sigma_n]
Mean functions (parametrised about the centroid xbar of the data, as the hyper-parameter labels say:
"background", "gradient i", "quadratic coeff i"):

  C  m(q) = t0          L  m(q) = t0 + sum_i t_i (q_i - xbar_i)
  Q  m(q) = t0 + sum_i t_i (q_i - xbar_i) + sum_i s_i (q_i - xbar_i)^2

GP algebra (Rasmussen & Williams 2.23-2.24, 9.4):  with G = K(X,X) + S,  alpha = G^-1 (y - m(X)),
  mu(q)        = m(q) + k(q,X) alpha                      var(q) = k(q,q) - k G^-1 k^T
  d mu / dq_i  = dm/dq_i + (d_i k) alpha                  d var / dq_i = d/dq_i k(q,q) - 2 (d_i k) G^-1 k^T
  Cov[df/dq_i, df/dq_j] = d^2 k / du_i dv_j (q,q) - (d_i k) G^-1 (d_j k)^T
"""
import mpmath as mp
import numpy as np

mp.mp.dps = 50
EPS = float(np.finfo(float).eps)

KERNEL_NPAR = {"SE": lambda d: 1 + d, "RQ": lambda d: 2 + d, "WN": lambda d: 1, "CP": lambda d: 2 * (1 + d) + 2}
MEAN_NPAR = {"C": lambda d: 1, "L": lambda d: 1 + d, "Q": lambda d: 1 + 2 * d}


def M(v):
    return mp.mpf(float(v))


# ----------------------------------------------------------------------------- kernels
class SE:
    def __init__(self, theta, d):
        self.a2 = mp.exp(2 * M(theta[0]))
        self.l2 = [mp.exp(2 * M(t)) for t in theta[1 : 1 + d]]
        self.d = d

    def k(self, u, v):
        return self.a2 * mp.exp(-sum((u[i] - v[i]) ** 2 / self.l2[i] for i in range(self.d)) / 2)

    def dk(self, u, v):
        """d k / d u_i"""
        k = self.k(u, v)
        return [-k * (u[i] - v[i]) / self.l2[i] for i in range(self.d)]

    def d2k(self, u, v):
        """d^2 k / d u_i d v_j"""
        k = self.k(u, v)
        r = [(u[i] - v[i]) / self.l2[i] for i in range(self.d)]
        return [[k * ((1 / self.l2[i] if i == j else 0) - r[i] * r[j]) for j in range(self.d)] for i in range(self.d)]


class RQ:
    def __init__(self, theta, d):
        self.a2 = mp.exp(2 * M(theta[0]))
        self.al = mp.exp(M(theta[1]))
        self.l2 = [mp.exp(2 * M(t)) for t in theta[2 : 2 + d]]
        self.d = d

    def _z(self, u, v):
        return sum((u[i] - v[i]) ** 2 / self.l2[i] for i in range(self.d)) / 2

    def k(self, u, v):
        return self.a2 * (1 + self._z(u, v) / self.al) ** (-self.al)

    def dk(self, u, v):
        f = self.a2 * (1 + self._z(u, v) / self.al) ** (-self.al - 1)
        return [-f * (u[i] - v[i]) / self.l2[i] for i in range(self.d)]

    def d2k(self, u, v):
        b = 1 + self._z(u, v) / self.al
        f1 = self.a2 * b ** (-self.al - 1)
        f2 = self.a2 * (self.al + 1) / self.al * b ** (-self.al - 2)
        r = [(u[i] - v[i]) / self.l2[i] for i in range(self.d)]
        return [[(f1 / self.l2[i] if i == j else 0) - f2 * r[i] * r[j] for j in range(self.d)] for i in range(self.d)]


class WN:
    def __init__(self, theta, d):
        self.s2 = mp.exp(2 * M(theta[0]))
        self.d = d

    def k(self, u, v):
        return mp.mpf(0)

    def dk(self, u, v):
        return [mp.mpf(0)] * self.d

    def d2k(self, u, v):
        return [[mp.mpf(0)] * self.d for _ in range(self.d)]


class CP:
    """Change-point kernel of two SE kernels along axis 0 (class docstring of ChangePoint):
    K(u,v) = K1(u,v) (1-f(u))(1-f(v)) + K2(u,v) f(u) f(v),  f(x) = 1/(1+exp(-(x_0-c)/w)),
    theta = [theta(K1), theta(K2), c, w]  (c, w not logarithmic)."""

    def __init__(self, theta, d):
        self.parts = [SE(list(theta[: 1 + d]), d), SE(list(theta[1 + d : 2 + 2 * d]), d)]
        self.c, self.w = M(theta[2 + 2 * d]), M(theta[3 + 2 * d])
        self.d = d

    def _g(self, x):
        """weights (1-f, f) of the two regions and their derivatives with respect to x_0"""
        f = 1 / (1 + mp.exp(-(x[0] - self.c) / self.w))
        df = f * (1 - f) / self.w
        return (1 - f, f), (-df, df)

    def k(self, u, v):
        gu, _ = self._g(u)
        gv, _ = self._g(v)
        return sum(p.k(u, v) * gu[a] * gv[a] for a, p in enumerate(self.parts))

    def dk(self, u, v):
        gu, dgu = self._g(u)
        gv, _ = self._g(v)
        out = [mp.mpf(0)] * self.d
        for a, p in enumerate(self.parts):
            pd = p.dk(u, v)
            for i in range(self.d):
                out[i] += pd[i] * gu[a] * gv[a]
            out[0] += p.k(u, v) * dgu[a] * gv[a]
        return out

    def d2k(self, u, v):
        gu, dgu = self._g(u)
        gv, dgv = self._g(v)
        d = self.d
        out = [[mp.mpf(0)] * d for _ in range(d)]
        for a, p in enumerate(self.parts):
            kk, du, dv, dd = p.k(u, v), p.dk(u, v), p.dk(v, u), p.d2k(u, v)  # d_v k(u,v) = d_u k(v,u)
            for i in range(d):
                for j in range(d):
                    out[i][j] += dd[i][j] * gu[a] * gv[a]
                out[i][0] += du[i] * gu[a] * dgv[a]
                out[0][i] += dv[i] * dgu[a] * gv[a]
            out[0][0] += kk * dgu[a] * dgv[a]
        return out


KERNELS = {"SE": SE, "RQ": RQ, "WN": WN, "CP": CP}


class Kernel:
    """Sum of components; theta is the concatenation of the component hyper-parameters."""

    def __init__(self, kinds, theta, d):
        self.parts = []
        self.noise = mp.mpf(0)
        pos = 0
        for kd in kinds:
            npar = KERNEL_NPAR[kd](d)
            p = KERNELS[kd](list(theta[pos : pos + npar]), d)
            pos += npar
            self.parts.append(p)
            if kd == "WN":
                self.noise += p.s2
        if pos != len(theta):
            raise ValueError("kernel hyper-parameter count")
        self.d = d

    def k(self, u, v):
        return sum(p.k(u, v) for p in self.parts)

    def dk(self, u, v):
        out = [mp.mpf(0)] * self.d
        for p in self.parts:
            g = p.dk(u, v)
            out = [a + b for a, b in zip(out, g)]
        return out

    def d2k(self, u, v):
        out = [[mp.mpf(0)] * self.d for _ in range(self.d)]
        for p in self.parts:
            g = p.d2k(u, v)
            out = [[a + b for a, b in zip(r1, r2)] for r1, r2 in zip(out, g)]
        return out


# ----------------------------------------------------------------------------- mean functions
class Mean:
    def __init__(self, kind, theta, X):
        self.kind = kind
        n, d = len(X), len(X[0])
        self.d = d
        self.t = [M(t) for t in theta]
        if len(theta) != MEAN_NPAR[kind](d):
            raise ValueError("mean hyper-parameter count")
        self.c = [sum(X[j][i] for j in range(n)) / n for i in range(d)]

    def m(self, q):
        d, t = self.d, self.t
        v = t[0]
        if self.kind in ("L", "Q"):
            v += sum(t[1 + i] * (q[i] - self.c[i]) for i in range(d))
        if self.kind == "Q":
            v += sum(t[1 + d + i] * (q[i] - self.c[i]) ** 2 for i in range(d))
        return v

    def m_abs(self, q):
        """Sum of the magnitudes of the terms of m(q) with q - xbar not cancelled (scale of its rounding error)."""
        d, t = self.d, self.t
        v = abs(t[0])
        if self.kind in ("L", "Q"):
            v += sum(abs(t[1 + i]) * (abs(q[i]) + abs(self.c[i])) for i in range(d))
        if self.kind == "Q":
            v += sum(abs(t[1 + d + i]) * (abs(q[i]) + abs(self.c[i])) ** 2 for i in range(d))
        return v

    def dm_abs(self, q):
        d, t = self.d, self.t
        g = [mp.mpf(0)] * d
        if self.kind in ("L", "Q"):
            g = [abs(t[1 + i]) for i in range(d)]
        if self.kind == "Q":
            g = [g[i] + 2 * abs(t[1 + d + i]) * (abs(q[i]) + abs(self.c[i])) for i in range(d)]
        return g

    def dm(self, q):
        d, t = self.d, self.t
        g = [mp.mpf(0)] * d
        if self.kind in ("L", "Q"):
            g = [t[1 + i] for i in range(d)]
        if self.kind == "Q":
            g = [g[i] + 2 * t[1 + d + i] * (q[i] - self.c[i]) for i in range(d)]
        return g


# ----------------------------------------------------------------------------- the GP
def _norm(v):
    return float(mp.sqrt(sum(x * x for x in v)))


class RefGP:
    def __init__(self, X, y, kinds, ktheta, mean_kind, mtheta, y_err=None):
        self.X = [[M(v) for v in row] for row in X]
        self.n, self.d = len(X), len(X[0])
        self.y = [M(v) for v in y]
        self.kern = Kernel(kinds, ktheta, self.d)
        self.mean = Mean(mean_kind, mtheta, self.X)
        n = self.n
        G = mp.matrix(n, n)
        for i in range(n):
            for j in range(i, n):
                G[i, j] = G[j, i] = self.kern.k(self.X[i], self.X[j])
        for i in range(n):
            G[i, i] += self.kern.noise
            if y_err is not None:
                G[i, i] += M(y_err[i]) ** 2
        self.G = G
        Gf = np.array([[float(G[i, j]) for j in range(n)] for i in range(n)])
        sv = np.linalg.svd(Gf, compute_uv=False)
        self.normG = float(sv[0])
        self.cond = float(sv[0] / sv[-1]) if sv[-1] > 0 else float("inf")
        self.ok = self.cond < 1e10
        if not self.ok:
            return
        self.Ginv = mp.inverse(G)
        self.set_mean(mean_kind, mtheta)

    def set_mean(self, mean_kind, mtheta):
        """(Re)define the mean function; the data covariance does not depend on it."""
        n = self.n
        self.mean = Mean(mean_kind, mtheta, self.X)
        self.mX = [self.mean.m(x) for x in self.X]
        r = [self.y[j] - self.mX[j] for j in range(n)]
        self.alpha = self._mv(r)
        # |alpha| plus the part of its rounding error that comes from forming y - m(X)
        self.alpha_scale = _norm(self.alpha) + (_norm(self.y) + _norm([self.mean.m_abs(x) for x in self.X])) / self.normG

    def set_y(self, y):
        """Replace the data values; the data covariance does not depend on them."""
        self.y = [M(v) for v in y]
        self.set_mean(self.mean.kind, [float(t) for t in self.mean.t])

    def weights(self, q):
        """w = G^-1 k(X, q): the prediction is m(q) + w.(y - m(X))"""
        return self._mv(self.kvec([M(v) for v in q]))

    def _mv(self, v):
        n = self.n
        return [sum(self.Ginv[i, j] * v[j] for j in range(n)) for i in range(n)]

    def kvec(self, q):
        return [self.kern.k(q, x) for x in self.X]

    def mu(self, q):
        q = [M(v) for v in q]
        return self.mean.m(q) + sum(a * b for a, b in zip(self.kvec(q), self.alpha))

    def var(self, q):
        q = [M(v) for v in q]
        k = self.kvec(q)
        w = self._mv(k)
        return self.kern.k(q, q) - sum(a * b for a, b in zip(k, w))

    def predict(self, q):
        """Everything at one point, with the magnitudes that scale the rounding error of each quantity
        (multiply by c*eps*cond to get a tolerance)."""
        d, n = self.d, self.n
        q = [M(v) for v in q]
        k = self.kvec(q)
        w = self._mv(k)
        kqq = self.kern.k(q, q)
        mq = self.mean.m(q)
        mu = mq + sum(a * b for a, b in zip(k, self.alpha))
        var = kqq - sum(a * b for a, b in zip(k, w))
        dks = [self.kern.dk(q, x) for x in self.X]  # n x d
        dk = [[dks[j][i] for j in range(n)] for i in range(d)]  # d x n
        dm = self.mean.dm(q)
        mqa = float(self.mean.m_abs(q))
        dma = [float(v) for v in self.mean.dm_abs(q)]
        dmu = [dm[i] + sum(a * b for a, b in zip(dk[i], self.alpha)) for i in range(d)]
        # d/dq k(q,q) = (d_u + d_v) k at u=v=q ; d_v k(u,v) = d_u k(v,u) by symmetry of k
        dkqq = [2 * g for g in self.kern.dk(q, q)]
        dvar = [dkqq[i] - 2 * sum(a * b for a, b in zip(dk[i], w)) for i in range(d)]
        prior = self.kern.d2k(q, q)
        wd = [self._mv(dk[i]) for i in range(d)]
        expl = [[sum(a * b for a, b in zip(dk[i], wd[j])) for j in range(d)] for i in range(d)]
        gcov = [[prior[i][j] - expl[i][j] for j in range(d)] for i in range(d)]
        nk, nw = _norm(k), _norm(w)
        ndk = [_norm(v) for v in dk]
        nwd = [_norm(v) for v in wd]
        scales = {
            "mu": nk * self.alpha_scale + mqa + abs(float(mu)),
            "var": abs(float(kqq)) + nk * nw,
            "dmu": [ndk[i] * self.alpha_scale + dma[i] for i in range(d)],
            "dvar": [2 * ndk[i] * nw + abs(float(dkqq[i])) for i in range(d)],
            "gcov": [[float(mp.sqrt(abs(prior[i][i] * prior[j][j]))) + ndk[i] * nwd[j] for j in range(d)] for i in range(d)],
        }
        return {"mu": mu, "var": var, "dmu": dmu, "dvar": dvar, "gcov": gcov, "prior": prior, "explained": expl, "scales": scales}


# ----------------------------------------------------------------------------- Richardson differentiation
def richardson_weights(levels):
    """The extrapolated derivative is sum_k w_k D(h / 2^k), D the central difference quotient."""
    return [richardson([(1.0 if k == e else 0.0, 0.0) for k in range(levels)], [1.0] * levels) for e in range(levels)]


def stencil(q, i, h, levels):
    """Points q +- h/2^k e_i as floats; returns [(xp, xm, denom)]."""
    out = []
    for k in range(levels):
        hk = h / 2.0**k
        xp = list(q)
        xm = list(q)
        xp[i] = q[i] + hk
        xm[i] = q[i] - hk
        out.append((xp, xm, xp[i] - xm[i]))
    return out


def richardson(values, denoms):
    """values[k] = (f(xp_k), f(xm_k)); works for floats and mpf."""
    L = len(values)
    T = [[(values[k][0] - values[k][1]) / denoms[k]] for k in range(L)]
    for k in range(1, L):
        for j in range(1, k + 1):
            T[k].append(T[k][j - 1] + (T[k][j - 1] - T[k - 1][j - 1]) / (4**j - 1))
    return T[L - 1][L - 1]


# ----------------------------------------------------------------------------- acquisition functions
def ncdf(z):
    return mp.erfc(-z / mp.sqrt(2)) / 2


def npdf(z):
    return mp.exp(-z * z / 2) / mp.sqrt(2 * mp.pi)


def ei_terms(mu, sig, ymax):
    """Closed form of E[max(f - ymax, 0)], f ~ N(mu, sig^2):  sig (z Phi(z) + phi(z)),  z = (mu - ymax)/sig.
    Returns z, ln EI, and g = d ln(z Phi + phi)/dz = Phi / (z Phi + phi)."""
    mu, sig, ymax = mp.mpf(mu), mp.mpf(sig), mp.mpf(ymax)
    z = (mu - ymax) / sig
    P, p = ncdf(z), npdf(z)
    h = z * P + p
    return {"z": z, "ln_ei": mp.log(sig) + mp.log(h), "g": P / h, "h": h, "cdf": P, "pdf": p}


def ei_by_quadrature(mu, sig, ymax):
    """The definition itself: integral of (f - ymax) N(f; mu, sig^2) over f > ymax."""
    mu, sig, ymax = mp.mpf(mu), mp.mpf(sig), mp.mpf(ymax)
    z = (mu - ymax) / sig
    # mp.quad stops on an ABSOLUTE error of 10^-dps, so the integrand is normalised by its value scale first
    shift = z * z / 2 if z < 0 else mp.mpf(0)
    f = lambda t: (t - ymax) * mp.exp(shift - ((t - mu) / sig) ** 2 / 2) / (sig * mp.sqrt(2 * mp.pi))
    s = sig / max(mp.mpf(1), -z)  # decay length of the integrand just above ymax when z << 0
    pts = {ymax}
    pts |= {ymax + s * j for j in (0.5, 1, 2, 4, 8, 16, 32, 64, 128)}
    pts |= {mu + sig * j for j in (-8, -4, -2, -1, 0, 1, 2, 4, 8, 16, 40) if mu + sig * j > ymax}
    return mp.quad(f, sorted(pts)) * mp.exp(-shift)


def neg_ln_ei_and_grad(mu, var, dmu, dvar, ymax):
    """-ln EI and its spatial gradient from mu, var and their gradients."""
    mu, var = mp.mpf(mu), mp.mpf(var)
    sig = mp.sqrt(var)
    t = ei_terms(mu, sig, ymax)
    z, g = t["z"], t["g"]
    grad = []
    for a, b in zip(dmu, dvar):
        dsig = mp.mpf(b) / (2 * sig)
        dz = (mp.mpf(a) - z * dsig) / sig
        grad.append(-(dsig / sig + g * dz))
    return -t["ln_ei"], grad, t


def neg_ucb_and_grad(mu, var, dmu, dvar, kappa):
    mu, var = mp.mpf(mu), mp.mpf(var)
    sig = mp.sqrt(var)
    val = -(mu + kappa * sig)
    grad = [-(mp.mpf(a) + kappa * mp.mpf(b) / (2 * sig)) for a, b in zip(dmu, dvar)]
    return val, grad


def neg_var_and_grad(var, dvar):
    return -mp.mpf(var), [-mp.mpf(b) for b in dvar]


# ----------------------------------------------------------------------------- self tests of this module
def selftest_kernel_derivatives():
    """Analytic dk, d2k against mpmath numerical differentiation; returns the worst relative error."""
    worst = 0.0
    for kinds, theta, d in (
        (["SE"], [0.3, -0.2, 0.4], 2),
        (["RQ"], [0.1, 0.7, 0.3, -0.5], 2),
        (["SE", "WN"], [0.2, 0.1, -1.0], 1),
        (["RQ"], [-0.4, -1.0, 0.2, 0.0, 0.6], 3),
        (["SE", "SE", "WN"], [0.3, -0.2, 0.4, -0.1, 0.5, -0.6, -1.0], 2),
        (["RQ", "SE"], [0.1, 0.7, 0.3, -0.5, -0.2, 0.6, 0.1], 2),
        (["CP"], [0.3, -0.2, 0.4, -0.1, 0.5, -0.6, 0.6, 0.45], 2),
        (["CP"], [0.2, 0.1, -0.3, -0.4, 0.9, 0.3], 1),
    ):
        K = Kernel(kinds, theta, d)
        u = [M(0.3 + 0.4 * i) for i in range(d)]
        v = [M(1.1 - 0.3 * i) for i in range(d)]
        dk, d2k = K.dk(u, v), K.d2k(u, v)
        for i in range(d):
            fi = lambda t, i=i: K.k([t if a == i else u[a] for a in range(d)], v)
            num = mp.diff(fi, u[i])
            worst = max(worst, float(abs(num - dk[i]) / (abs(num) + mp.mpf(10) ** -30)))
            for j in range(d):
                fij = lambda s, t, i=i, j=j: K.k([s if a == i else u[a] for a in range(d)], [t if a == j else v[a] for a in range(d)])
                num = mp.diff(fij, (u[i], v[j]), (1, 1))
                worst = max(worst, float(abs(num - d2k[i][j]) / (abs(num) + mp.mpf(10) ** -30)))
    return worst
