"""Reference model for C11 (GP model-selection scores) and C17 (GP linear inversion).

Independent of the library: kernels are re-implemented from the documented formulas
(docstrings of SquaredExponential / RationalQuadratic / WhiteNoise / ChangePoint), the mean
functions from their parametrisation (value at the centroid of the training positions,
slopes, curvatures), all linear algebra is done on Python lists of mpmath numbers at 50
digits (own Cholesky / substitutions), gradients are Richardson-extrapolated central
differences of the 50-digit scores.

Everything is phrased for one linear-Gaussian data model

    prior   f ~ N(m(theta_m), K(theta_c))           on the positions X  (n_par points)
    data    y ~ N(B f, S)                           B: (n_data, n_par), S: (n_data, n_data)

so that   y ~ N(B m, B K B^T + S)   (C11: B = identity; C17: B = model matrix).

Diagonal stabiliser ("jitter").  The library adds a small *relative* value to the diagonal of
every smooth kernel matrix.  Its size is not pinned by the documentation; the checks accept
any relative inflation rho_i in [0, 1e-10] of the smooth kernel's diagonal (DESIGN C10).  It
is passed in here as the vector ``rho`` (measured by the caller from the model's own data
covariance matrix) and enters as  K_ii += rho_i * k_smooth(x_i, x_i).

Kernel specification (JSON-able):
    "SE" | "RQ" | "WN" | ["+", spec, spec, ...] | ["CP", axis, spec, spec, ...]
Hyper-parameter layout: concatenation of the components' parameters in the order given; for
CP the kernels' parameters first, then (location, width) for each change-point.
Mean specification: "C" (1 parameter) | "L" (1+d) | "Q" (1+2d) | "N" (3; a user-defined mean that is non-linear in
its hyper-parameters, m(x) = exp(a) sin(b x_0 + c), theta = [a, b, c] - used by checks/c17.py).
Further user-defined means of checks/c17.py, all non-uniform in x (x_0 = first coordinate, as given):
    "U0" (0 parameters) 0.3 cos(1.3 x_0) | "U1" (1) a (1 + x_0) | "S1" (1) a sin(2 x_0) | "U2" (2) a + b x_0^2
"""
import math

import mpmath as mp
import numpy as np

mp.mp.dps = 50
mpf = mp.mpf
ZERO = mpf(0)
ONE = mpf(1)
EPS = float(np.finfo(float).eps)
LOG2PI = mp.log(2 * mp.pi)


def M(v):
    """exact conversion float -> mpf"""
    return v if isinstance(v, mp.mpf) else mpf(float(v))


def mvec(a):
    return [M(v) for v in a]


def mmat(a):
    return [[M(v) for v in row] for row in a]


# ------------------------------------------------------------------------- kernels
def kernel_n_params(spec, d):
    if spec == "SE":
        return d + 1
    if spec == "RQ":
        return d + 2
    if spec == "WN":
        return 1
    if spec[0] == "+":
        return sum(kernel_n_params(s, d) for s in spec[1:])
    if spec[0] == "CP":
        subs = spec[2:]
        return sum(kernel_n_params(s, d) for s in subs) + 2 * (len(subs) - 1)
    raise ValueError(spec)


def mean_n_params(spec, d):
    return {"C": 1, "L": 1 + d, "Q": 1 + 2 * d, "N": 3, "U0": 0, "U1": 1, "S1": 1, "U2": 2}[spec]


def kernel_param_units(spec, th, d):
    """natural unit of every covariance hyper-parameter: 1 for the logarithmic ones, the
    change-point width for a change-point's location and width (the weights depend on (x-c)/w)."""
    if isinstance(spec, str):
        return [1.0] * kernel_n_params(spec, d)
    out, o = [], 0
    subs = spec[1:] if spec[0] == "+" else spec[2:]
    for s in subs:
        p = kernel_n_params(s, d)
        out += kernel_param_units(s, th[o : o + p], d)
        o += p
    if spec[0] == "CP":
        for i in range(len(subs) - 1):
            w = abs(float(th[o + 2 * i + 1]))
            out += [w, w]
    return out


def compile_kernel(spec, th, d):
    """-> k(u, v, same) returning (smooth part, delta part); th: list of mpf of the right length."""
    if spec == "SE":
        # K(u,v) = A^2 exp(-1/2 sum ((u_i - v_i)/l_i)^2),  theta = [ln A, ln l_1..l_d]
        a2 = mp.exp(2 * th[0])
        il2 = [mp.exp(-2 * t) for t in th[1 : d + 1]]

        def k(u, v, same):
            s = ZERO
            for i in range(d):
                df = u[i] - v[i]
                s += df * df * il2[i]
            return a2 * mp.exp(-s / 2), ZERO

        return k
    if spec == "RQ":
        # K(u,v) = A^2 (1 + 1/(2 alpha) sum ((u_i-v_i)/l_i)^2)^(-alpha), theta = [ln A, ln alpha, ln l_i]
        a2 = mp.exp(2 * th[0])
        al = mp.exp(th[1])
        il2 = [mp.exp(-2 * t) for t in th[2 : d + 2]]

        def k(u, v, same):
            s = ZERO
            for i in range(d):
                df = u[i] - v[i]
                s += df * df * il2[i]
            return a2 * mp.power(1 + s / (2 * al), -al), ZERO

        return k
    if spec == "WN":
        # K(x_i, x_j) = delta_ij sigma^2, theta = [ln sigma]
        s2 = mp.exp(2 * th[0])

        def k(u, v, same):
            return ZERO, (s2 if same else ZERO)

        return k
    if spec[0] == "+":
        ks, o = [], 0
        for s in spec[1:]:
            p = kernel_n_params(s, d)
            ks.append(compile_kernel(s, th[o : o + p], d))
            o += p

        def k(u, v, same):
            a = b = ZERO
            for f in ks:
                x, y = f(u, v, same)
                a += x
                b += y
            return a, b

        return k
    if spec[0] == "CP":
        # K_cp = K_1 a_1 + sum_{i=2}^{n-1} K_i a_i b_{i-1} + K_n b_{n-1},
        # a_i = (1-f_i(u))(1-f_i(v)), b_i = f_i(u) f_i(v), f_i(x) = 1/(1+exp(-(x-c_i)/w_i))
        axis = spec[1]
        subs = spec[2:]
        ks, o = [], 0
        for s in subs:
            p = kernel_n_params(s, d)
            ks.append(compile_kernel(s, th[o : o + p], d))
            o += p
        cps = [(th[o + 2 * i], th[o + 2 * i + 1]) for i in range(len(subs) - 1)]
        nk = len(subs)

        def k(u, v, same):
            fu = [1 / (1 + mp.exp(-(u[axis] - c) / w)) for c, w in cps]
            fv = [1 / (1 + mp.exp(-(v[axis] - c) / w)) for c, w in cps]
            a = b = ZERO
            for i in range(nk):
                wgt = ONE
                if i < nk - 1:
                    wgt *= (1 - fu[i]) * (1 - fv[i])
                if i > 0:
                    wgt *= fu[i - 1] * fv[i - 1]
                x, y = ks[i](u, v, same)
                a += wgt * x
                b += wgt * y
            return a, b

        return k
    raise ValueError(spec)


def mean_abs_vector(spec, th, X, xbar):
    """sum of the absolute values of the terms of m(x) (rounding scale of the computed mean)"""
    d = len(xbar)
    if spec == "N":
        # exp(a) sin(b x_0 + c): the argument is formed to eps (|b x_0| + |c|), the sine to eps
        return [mp.exp(th[0]) * (1 + abs(th[1] * x[0]) + abs(th[2])) for x in X]
    if spec == "U0":  # 0.3 cos(1.3 x_0): argument to eps |1.3 x_0|, cosine to eps
        return [M("0.3") * (1 + abs(M("1.3") * x[0])) for x in X]
    if spec == "U1":
        return [abs(th[0]) * (1 + abs(x[0])) for x in X]
    if spec == "S1":
        return [abs(th[0]) * (1 + 2 * abs(x[0])) for x in X]
    if spec == "U2":
        return [abs(th[0]) + 2 * abs(th[1]) * x[0] ** 2 for x in X]
    out = []
    for x in X:
        v = abs(th[0])
        if spec in ("L", "Q"):
            for i in range(d):
                v += abs(th[1 + i]) * (abs(x[i]) + abs(xbar[i]))  # x - xbar carries the rounding of xbar: eps |x|
        if spec == "Q":
            for i in range(d):
                v += abs(th[1 + d + i]) * ((x[i] - xbar[i]) ** 2 + 2 * abs(x[i] - xbar[i]) * (abs(x[i]) + abs(xbar[i])))
        out.append(v)
    return out


def kernel_matrices(spec, th, X):
    """X: list of points (lists of mpf). -> (smooth n x n, delta diagonal n)"""
    n = len(X)
    d = len(X[0])
    k = compile_kernel(spec, th, d)
    Ks = [[None] * n for _ in range(n)]
    kd = [None] * n
    for i in range(n):
        for j in range(i + 1):
            s, dl = k(X[i], X[j], i == j)
            Ks[i][j] = s
            Ks[j][i] = s
            if i == j:
                kd[i] = dl
    return Ks, kd


def mean_vector(spec, th, X, xbar):
    """m(x) = t0 [+ sum_i t_{1+i} (x_i - xbar_i)] [+ sum_i t_{1+d+i} (x_i - xbar_i)^2];  "N": exp(t0) sin(t1 x_0 + t2)"""
    d = len(xbar)
    if spec == "N":
        return [mp.exp(th[0]) * mp.sin(th[1] * x[0] + th[2]) for x in X]
    if spec == "U0":
        return [M(0.3) * mp.cos(M(1.3) * x[0]) for x in X]
    if spec == "U1":
        return [th[0] * (1 + x[0]) for x in X]
    if spec == "S1":
        return [th[0] * mp.sin(2 * x[0]) for x in X]
    if spec == "U2":
        return [th[0] + th[1] * x[0] ** 2 for x in X]
    out = []
    for x in X:
        v = th[0]
        if spec in ("L", "Q"):
            for i in range(d):
                v += th[1 + i] * (x[i] - xbar[i])
        if spec == "Q":
            for i in range(d):
                v += th[1 + d + i] * (x[i] - xbar[i]) ** 2
        out.append(v)
    return out


# ------------------------------------------------------------------ linear algebra
class NotPD(Exception):
    pass


def chol(A):
    n = len(A)
    L = [[ZERO] * n for _ in range(n)]
    for i in range(n):
        Li = L[i]
        Ai = A[i]
        for j in range(i + 1):
            Lj = L[j]
            s = Ai[j]
            for k in range(j):
                s -= Li[k] * Lj[k]
            if i == j:
                if s <= 0:
                    raise NotPD()
                Li[j] = mp.sqrt(s)
            else:
                Li[j] = s / Lj[j]
    return L


def fsub(L, b):
    n = len(L)
    y = [None] * n
    for i in range(n):
        s = b[i]
        Li = L[i]
        for k in range(i):
            s -= Li[k] * y[k]
        y[i] = s / Li[i]
    return y


def bsub(L, y):
    n = len(L)
    x = [None] * n
    for i in range(n - 1, -1, -1):
        s = y[i]
        for k in range(i + 1, n):
            s -= L[k][i] * x[k]
        x[i] = s / L[i][i]
    return x


def matmul(A, B):
    Bt = list(zip(*B))
    return [[mp.fsum(a * b for a, b in zip(row, col)) for col in Bt] for row in A]


def matvec(A, v):
    return [mp.fsum(a * b for a, b in zip(row, v)) for row in A]


def transpose(A):
    return [list(r) for r in zip(*A)]


def tofloat(A):
    return np.array([[float(v) for v in row] for row in A], dtype=float) if A and isinstance(A[0], list) else np.array([float(v) for v in A], dtype=float)


# ------------------------------------------------------------------ the data model
class Factor:
    """Everything that depends on the covariance hyper-parameters only."""

    __slots__ = ("Kp", "C", "L", "logdet", "subs", "ksm_diag")


class LinGauss:
    def __init__(self, X, y, kspec, mspec, S=None, B=None, rho=None):
        self.X = mmat(X)
        self.n_par = len(self.X)
        self.d = len(self.X[0])
        self.y = mvec(y)
        self.n_data = len(self.y)
        self.kspec = kspec
        self.mspec = mspec
        self.pm = mean_n_params(mspec, self.d)
        self.pc = kernel_n_params(kspec, self.d)
        self.p = self.pm + self.pc
        self.B = None if B is None else mmat(B)
        self.Bt = None if B is None else transpose(self.B)
        self.S = None if S is None else mmat(S)
        self.xbar = [mp.fsum(x[i] for x in self.X) / self.n_par for i in range(self.d)]
        self.rho = [ZERO] * self.n_par if rho is None else mvec(rho)
        self._fc = {}

    # --- pieces
    def prior(self, theta):
        th = mvec(theta)
        F = self.factor(th[self.pm :])
        m = mean_vector(self.mspec, th[: self.pm], self.X, self.xbar)
        return m, F.Kp

    def factor(self, thc, loo=False):
        key = tuple(thc)
        F = self._fc.get(key)
        if F is None:
            F = Factor()
            Ks, kd = kernel_matrices(self.kspec, list(thc), self.X)
            F.ksm_diag = [Ks[i][i] for i in range(self.n_par)]
            Kp = [row[:] for row in Ks]
            for i in range(self.n_par):
                Kp[i][i] = Ks[i][i] + kd[i] + self.rho[i] * Ks[i][i]
            F.Kp = Kp
            if self.B is None:
                C = [row[:] for row in Kp]
            else:
                C = matmul(matmul(self.B, Kp), self.Bt)
            if self.S is not None:
                for i in range(self.n_data):
                    for j in range(self.n_data):
                        C[i][j] = C[i][j] + self.S[i][j]
            F.C = C
            F.L = chol(C)
            F.logdet = 2 * mp.fsum(mp.log(F.L[i][i]) for i in range(self.n_data))
            F.subs = None
            if len(self._fc) > 64:
                self._fc.clear()
            self._fc[key] = F
        if loo and F.subs is None:
            # the n leave-one-out sub-models: remove datum i, keep the factor of the rest
            n = self.n_data
            subs = []
            for i in range(n):
                idx = [j for j in range(n) if j != i]
                Li = chol([[F.C[a][b] for b in idx] for a in idx])
                v = fsub(Li, [F.C[a][i] for a in idx])
                var = F.C[i][i] - mp.fsum(t * t for t in v)
                subs.append((idx, Li, v, var))
            F.subs = subs
        return F

    def residual_rounding_scale(self, theta):
        """|y_i| + sum_j |B_ij| (sum of |terms| of m_j): the residual y - B m is formed in float64 to eps times this"""
        th = mvec(theta)
        ma = mean_abs_vector(self.mspec, th[: self.pm], self.X, self.xbar)
        if self.B is not None:
            ma = [mp.fsum(abs(b) * v for b, v in zip(row, ma)) for row in self.B]
        return np.array([float(abs(a) + b) for a, b in zip(self.y, ma)])

    def data_mean(self, thm):
        m = mean_vector(self.mspec, list(thm), self.X, self.xbar)
        return m if self.B is None else matvec(self.B, m)

    def scores(self, theta, loo=False):
        """-> dict: lml (without the -n/2 log 2pi constant), quad, logdet, alpha, mu, C, [loo, loo_mu, loo_var]"""
        th = mvec(theta)
        F = self.factor(th[self.pm :], loo=loo)
        mu = self.data_mean(th[: self.pm])
        r = [a - b for a, b in zip(self.y, mu)]
        v = fsub(F.L, r)
        quad = mp.fsum(t * t for t in v)
        out = {"quad": quad, "logdet": F.logdet, "lml": -quad / 2 - F.logdet / 2, "mu": mu, "C": F.C, "F": F, "r": r}
        if loo:
            lmu, lvar, tot = [], [], ZERO
            for i, (idx, Li, vi, var) in enumerate(F.subs):
                w = fsub(Li, [r[a] for a in idx])
                pm_ = mu[i] + mp.fsum(a * b for a, b in zip(vi, w))
                lmu.append(pm_)
                lvar.append(var)
                tot += -mp.log(var) / 2 - (self.y[i] - pm_) ** 2 / (2 * var)
            out.update(loo=tot, loo_mu=lmu, loo_var=lvar)
        return out

    def alpha(self, sc):
        return bsub(sc["F"].L, fsub(sc["F"].L, sc["r"]))

    def posterior(self, theta):
        """closed-form linear-Gaussian posterior: mean m + K B^T J^-1 (y - B m), cov K - K B^T J^-1 B K"""
        th = mvec(theta)
        F = self.factor(th[self.pm :])
        m = mean_vector(self.mspec, th[: self.pm], self.X, self.xbar)
        Bm = m if self.B is None else matvec(self.B, m)
        r = [a - b for a, b in zip(self.y, Bm)]
        K = F.Kp
        KBt = K if self.B is None else matmul(K, self.Bt)  # n_par x n_data
        G = [fsub(F.L, row) for row in KBt]  # rows: L^-1 (B K)_col  -> n_par vectors of length n_data
        z = fsub(F.L, r)
        mean = [m[i] + mp.fsum(a * b for a, b in zip(G[i], z)) for i in range(self.n_par)]
        cov = [[K[i][j] - mp.fsum(a * b for a, b in zip(G[i], G[j])) for j in range(self.n_par)] for i in range(self.n_par)]
        return mean, cov, m, K

    # --- Richardson-extrapolated central differences of (lml, loo, C, mu, jitter)
    def _vec(self, theta, loo):
        sc = self.scores(theta, loo=loo)
        F = sc["F"]
        out = [sc["lml"], sc["loo"] if loo else ZERO]
        for row in F.C:
            out.extend(row)
        out.extend(sc["mu"])
        out.extend(self.rho[i] * F.ksm_diag[i] for i in range(self.n_par))
        return out

    def gradients(self, theta, loo=False, h=None):
        """Richardson (h, h/2) central differences w.r.t. every hyper-parameter.
        -> dict with lists over parameters: lml, loo, dC (n x n float arrays), dmu, djit, err (extrapolation estimate)"""
        th = mvec(theta)
        hs = [M(v) for v in h] if isinstance(h, (list, tuple)) else [mpf("1e-10") if h is None else M(h)] * self.p  # a step per parameter, or one for all
        n = self.n_data
        res = {"lml": [], "loo": [], "dC": [], "dmu": [], "djit": [], "err": []}
        for j in range(self.p):
            D = []
            h = hs[j]
            for hh in (h, h / 2):
                tp = th[:]
                tm = th[:]
                tp[j] = th[j] + hh
                tm[j] = th[j] - hh
                fp = self._vec(tp, loo)
                fm = self._vec(tm, loo)
                D.append([(a - b) / (2 * hh) for a, b in zip(fp, fm)])
            R = [(4 * b - a) / 3 for a, b in zip(D[0], D[1])]
            res["lml"].append(R[0])
            res["loo"].append(R[1])
            res["dC"].append(np.array([float(v) for v in R[2 : 2 + n * n]]).reshape(n, n))
            res["dmu"].append(np.array([float(v) for v in R[2 + n * n : 2 + n * n + n]]))
            res["djit"].append(np.array([float(v) for v in R[2 + n * n + n :]]))
            res["err"].append(float(max(abs(R[0] - D[1][0]), abs(R[1] - D[1][1]))))
        return res


# --------------------------------------------------------------------- tolerances
# First-order perturbation bounds.  The computed data covariance differs from the exact one by
# E with ||E|| <= CE * eps * ||C||  (kernel entries carry a few eps relative error each, a
# backward-stable factorisation adds ~n eps ||C||; CE = 1e3 leaves two orders of head-room).
CE = 1.0e3


class Pert:
    """numpy side of one evaluation point: norms and the first-order sensitivities."""

    def __init__(self, C, r, alpha, rabs=None):
        self.C = np.asarray(C, dtype=float)
        self.n = self.C.shape[0]
        self.r = np.asarray(r, dtype=float)
        self.alpha = np.asarray(alpha, dtype=float)
        w = np.linalg.eigvalsh(0.5 * (self.C + self.C.T))
        self.normC = float(max(abs(w[0]), abs(w[-1])))
        self.lmin = float(w[0])
        self.cond = float("inf") if w[0] <= 0 else float(w[-1] / w[0])
        self.ok = np.isfinite(self.cond) and self.cond < 1e15
        if self.ok:
            self.Ci = np.linalg.inv(self.C)
            self.normCi = 1.0 / self.lmin
            self.normE = CE * EPS * self.normC
            self.kE = self.normE * self.normCi  # = CE eps cond
            self.na = float(np.linalg.norm(self.alpha))
            self.ci = np.linalg.norm(self.Ci, axis=0)  # ||C^-1 e_i||
            self.var = 1.0 / np.diag(self.Ci)
            # rounding of the residual itself: |delta r_i| <= CE eps rabs_i, hence |delta alpha| <= |C^-1| dr
            self.dr = CE * EPS * (np.abs(self.r) if rabs is None else np.asarray(rabs, dtype=float))
            self.da_r = np.abs(self.Ci) @ self.dr
            self.kEa = self.kE + (float(np.linalg.norm(self.da_r)) / self.na if self.na > 0 else 0.0)
            # magnitude of the scores (sum of the absolute values of their terms)
            self.scale_lml = 0.5 * abs(float(self.r @ self.alpha)) + 0.5 * float(np.abs(np.log(w)).sum()) + self.n
            self.scale_loo = float((0.5 * np.abs(np.log(self.var)) + 0.5 * self.alpha**2 * self.var).sum()) + self.n

    def grad_floor(self, which, unit):
        """A hyper-parameter is an input known to eps in its natural unit s; the curvature of the score is of
        order (score magnitude)/s^2, so no float64 evaluation can be asked for the gradient to better than
        CE eps (score magnitude)/s.  Only this absolute floor keeps gradients of order 1e-30 (a change-point
        kernel switched off at every data point) from being compared to 1e-40."""
        S = self.scale_lml if which == "lml" else self.scale_loo
        return CE * EPS * S / unit

    # value of  -1/2 r'C^-1 r - 1/2 log det C
    def tol_lml(self, value):
        return self.normE * (0.5 * self.na**2 + 0.5 * self.n * self.normCi) + float(np.abs(self.alpha) @ self.dr) + CE * EPS * (abs(value) + 1.0)

    # d/d theta_j of the above: 1/2 tr((aa' - C^-1) dC) + a'dmu
    def tol_grad_lml(self, dC, dmu, djit):
        nF = float(np.linalg.norm(dC))
        Q = np.abs(np.outer(self.alpha, self.alpha)) + np.abs(self.Ci)
        t = self.normE * self.normCi * (self.na**2 + 0.5 * math.sqrt(self.n) * self.normCi) * nF
        t += CE * EPS * 0.5 * float((Q * np.abs(dC)).sum())
        t += self.kE * self.na * float(np.linalg.norm(dmu)) + CE * EPS * float((np.abs(self.alpha) * np.abs(dmu)).sum())
        t += float(np.abs(self.Ci @ dmu) @ self.dr) + float(np.abs(self.Ci @ (dC @ self.alpha)) @ self.dr)
        # the stabiliser's own theta-dependence is not pinned: allow its whole contribution
        # (djit: derivative of the stabiliser's contribution to C - a diagonal, or a full matrix B diag B^T)
        if djit is not None:
            dj = np.asarray(djit, dtype=float)
            t += 0.5 * float((np.diag(Q) * np.abs(dj)).sum()) if dj.ndim == 1 else 0.5 * float((Q * np.abs(dj)).sum())
        return t

    # leave-one-out
    def _loo_d(self):
        da = self.ci * self.normE * self.na + self.da_r  # |delta alpha_i|
        dv = self.var**2 * self.ci**2 * self.normE  # |delta var_i|
        return da, dv

    def tol_loo(self, value):
        da, dv = self._loo_d()
        a, v = np.abs(self.alpha), self.var
        t = (0.5 * np.abs(1.0 / v - a**2) * dv + a * v * da).sum()
        return float(t) + CE * EPS * (abs(value) + 1.0)

    def tol_loo_pred(self, y):
        da, dv = self._loo_d()
        a, v = np.abs(self.alpha), self.var
        tmu = da * v + a * dv + CE * EPS * (np.abs(y) + a * v)
        tsd = dv / (2 * np.sqrt(v)) + CE * EPS * np.sqrt(v)
        return tmu, tsd

    def tol_grad_loo(self, dC, dmu, djit):
        da, dv = self._loo_d()
        a, v, ci = np.abs(self.alpha), self.var, self.ci
        n2 = float(np.linalg.norm(dC, 2))
        zb = ci * n2 * self.na  # |(C^-1 dC alpha)_i|
        wb = ci**2 * n2  # |(C^-1 dC C^-1)_ii|
        c2 = 0.5 * v * (1 + v * a**2)
        dc2 = 0.5 * dv * (1 + 2 * v * a**2) + v**2 * a * da
        t = (da * v * zb + a * dv * zb + a * v * (self.kE + self.kEa) * zb).sum()
        t += (dc2 * wb + c2 * 2 * self.kE * wb).sum()
        t += CE * EPS * float((a * v * zb + c2 * wb).sum())
        nm = float(np.linalg.norm(dmu))
        t += ((da * v + a * dv) * ci * nm + a * v * self.kE * ci * nm).sum() + CE * EPS * float((a * v * ci * nm).sum())
        if djit is not None and len(djit) == self.n:
            aC = np.abs(self.Ci)
            t += float((a * v * (aC @ (np.abs(djit) * a))).sum() + (c2 * ((aC**2) @ np.abs(djit))).sum())
        return float(t)


def richardson_numpy(f, x, j, h):
    """Richardson central difference of a float function (used only where a 50-digit reference is not available)."""
    def D(hh):
        xp = np.array(x, dtype=float)
        xm = np.array(x, dtype=float)
        xp[j] += hh
        xm[j] -= hh
        return (f(xp) - f(xm)) / (xp[j] - xm[j])

    d1, d2 = D(h), D(h / 2)
    return (4 * d2 - d1) / 3, abs(d2 - d1)
