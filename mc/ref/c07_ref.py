"""Reference pieces for C07 (Hamiltonian trajectories): smooth log-densities with analytic gradient
and Hessian, the catalogue of mass specifications and bound boxes, and a scripted generator that
returns prescribed vectors from ``normal`` (momentum law) and prescribed numbers from ``random``.
"""
import math

import numpy as np

from mc.core import HarnessError

EPS = float(np.finfo(float).eps)

MU = np.array([0.2, -0.1, 0.3])
A_DIAG = np.array([1.0, 2.5, 0.4])
A_FULL = {
    1: np.array([[1.5]]),
    2: np.array([[2.0, 0.6], [0.6, 1.0]]),
    3: np.array([[2.0, 0.6, -0.3], [0.6, 1.0, 0.4], [-0.3, 0.4, 1.5]]),
}
B_SOFT = {
    1: np.array([[0.3]]),
    2: np.array([[0.3, 0.1], [0.1, 0.2]]),
    3: np.array([[0.3, 0.1, 0.0], [0.1, 0.2, -0.05], [0.0, -0.05, 0.25]]),
}
K_SHARP = np.array([4.0, 3.0, 5.0])


class Potential:
    """log-density ``logp`` (= -U), gradient and Hessian of logp; ``log`` records every point the
    library evaluates the density / gradient at."""

    def __init__(self, name, d):
        self.name, self.d = name, d
        self.mu = MU[:d].copy()
        self.plog = []
        self.glog = []
        self.record = False

    # ---- to be handed to the library
    def posterior(self, t):
        if self.record:
            self.plog.append(np.array(t, dtype=float))
        return self.logp(t)

    def grad(self, t):
        if self.record:
            self.glog.append(np.array(t, dtype=float))
        return self.dlogp(t)

    # ---- model
    def logp(self, t):
        t = np.asarray(t, dtype=float)
        z = t - self.mu
        n = self.name
        if n == "diag":
            return -0.5 * float((A_DIAG[: self.d] * z * z).sum())
        if n == "corr":
            return -0.5 * float(z @ A_FULL[self.d] @ z)
        if n == "quartic":
            return -0.5 * float(z @ A_FULL[self.d] @ z) - 0.1 * float((z**4).sum())
        if n == "sharp":
            k = K_SHARP[: self.d]
            return -float(np.logaddexp(k * z, -k * z).sum()) - 0.5 * float(z @ B_SOFT[self.d] @ z)
        raise HarnessError(n)

    def dlogp(self, t):
        t = np.asarray(t, dtype=float)
        z = t - self.mu
        n = self.name
        if n == "diag":
            return -(A_DIAG[: self.d] * z)
        if n == "corr":
            return -(A_FULL[self.d] @ z)
        if n == "quartic":
            return -(A_FULL[self.d] @ z) - 0.4 * z**3
        if n == "sharp":
            k = K_SHARP[: self.d]
            return -(k * np.tanh(k * z)) - B_SOFT[self.d] @ z
        raise HarnessError(n)

    def hess(self, t):
        t = np.asarray(t, dtype=float)
        z = t - self.mu
        n = self.name
        if n == "diag":
            return -np.diag(A_DIAG[: self.d])
        if n == "corr":
            return -A_FULL[self.d]
        if n == "quartic":
            return -A_FULL[self.d] - np.diag(1.2 * z**2)
        if n == "sharp":
            k = K_SHARP[: self.d]
            return -np.diag(k * k / np.cosh(k * z) ** 2) - B_SOFT[self.d]
        raise HarnessError(n)

    def max_curvature(self, radius):
        """upper bound of the largest eigenvalue of -Hessian within |t - mu|_inf <= radius"""
        n = self.name
        if n == "diag":
            return float(A_DIAG[: self.d].max())
        if n == "corr":
            return float(np.linalg.eigvalsh(A_FULL[self.d]).max())
        if n == "quartic":
            return float(np.linalg.eigvalsh(A_FULL[self.d]).max() + 1.2 * radius**2)
        if n == "sharp":
            return float((K_SHARP[: self.d] ** 2).max() + np.linalg.eigvalsh(B_SOFT[self.d]).max())
        raise HarnessError(n)


POTENTIALS = ["diag", "corr", "quartic", "sharp"]


def self_test_gradients():
    """analytic gradient / Hessian of every potential against central differences (harness sanity)"""
    for name in POTENTIALS:
        for d in (1, 2, 3):
            P = Potential(name, d)
            t = np.array([0.37, -0.52, 0.11])[:d]
            h = 1e-5
            for i in range(d):
                e = np.zeros(d)
                e[i] = h
                g = (P.logp(t + e) - P.logp(t - e)) / (2 * h)
                if abs(g - P.dlogp(t)[i]) > 1e-7 * (1 + abs(g)):
                    raise HarnessError(f"reference gradient of {name} d={d} is wrong")
                hcol = (P.dlogp(t + e) - P.dlogp(t - e)) / (2 * h)
                if np.abs(hcol - P.hess(t)[:, i]).max() > 1e-6 * (1 + np.abs(hcol).max()):
                    raise HarnessError(f"reference Hessian of {name} d={d} is wrong")


# ----------------------------------------------------------------------------- masses
IM_VEC = np.array([0.5, 2.0, 1.3])
IM_FULL = {
    1: np.array([[0.7]]),
    2: np.array([[1.0, 0.3], [0.3, 0.7]]),
    3: np.array([[1.0, 0.3, -0.2], [0.3, 0.7, 0.25], [-0.2, 0.25, 1.4]]),
}
MASSES = ["default", "scalar", "vector", "matrix-diag", "matrix-full"]


def inverse_mass(kind, d):
    """(argument handed to HamiltonianChain, dense inverse-mass matrix it stands for, class label)"""
    if kind == "default":
        return None, np.eye(d), "ScalarMass"
    if kind == "scalar":
        return 0.3, 0.3 * np.eye(d), "ScalarMass"
    if kind == "vector":
        return IM_VEC[:d].copy(), np.diag(IM_VEC[:d]), "VectorMass"
    if kind == "matrix-diag":
        return np.diag(IM_VEC[:d]).copy(), np.diag(IM_VEC[:d]), "MatrixMass-diagonal"
    if kind == "matrix-full":
        return IM_FULL[d].copy(), IM_FULL[d].copy(), "MatrixMass-offdiag" if d > 1 else "MatrixMass-diagonal"
    raise HarnessError(kind)


# ----------------------------------------------------------------------------- bounds
LO_TIGHT = np.array([-0.7, -0.55, -0.9])
UP_TIGHT = np.array([0.8, 0.65, 0.75])
BOUNDS = ["none", "wide", "tight"]


def box(kind, d):
    if kind == "none":
        return None
    if kind == "wide":
        return -64.0 * (1 + 0.1 * np.arange(d)), 64.0 * (1.05 + 0.1 * np.arange(d))
    if kind == "tight":
        return LO_TIGHT[:d].copy(), UP_TIGHT[:d].copy()
    raise HarnessError(kind)


# ----------------------------------------------------------------------------- scripted generator
class VecRng:
    """``normal`` returns loc + scale * z for the next prescribed vector z; ``random`` returns the next
    prescribed number (all calls between two ``normal`` calls see the same number)."""

    def __init__(self, zs, us=None):
        self.zs = [np.asarray(z, dtype=float) for z in zs]
        self.us = list(us) if us is not None else None
        self.k = 0  # number of normal calls so far
        self.n_random = 0

    def normal(self, loc=0.0, scale=1.0, size=None):
        if self.k >= len(self.zs):
            raise HarnessError("scripted generator exhausted (normal)")
        z = self.zs[self.k]
        self.k += 1
        if size is not None:
            n = int(np.prod(size))
            if n != z.size:
                raise HarnessError(f"normal(size={size}) but scripted vector has {z.size} entries")
            z = z.reshape(size)
        return loc + scale * z

    def standard_normal(self, size=None):
        return self.normal(size=size)

    def multivariate_normal(self, mean, cov, size=None):
        raise HarnessError("scripted generator: multivariate_normal not supported")

    def random(self, size=None):
        if self.us is None:
            raise HarnessError("scripted generator has no uniforms")
        if size is not None:
            raise HarnessError("scripted generator: random(size=...) not supported")
        self.n_random += 1
        return self.us[min(max(self.k - 1, 0), len(self.us) - 1)]

    def uniform(self, low=0.0, high=1.0, size=None):
        return low + (high - low) * self.random(size)
