"""Reference model for C06 (priors) and the scripted stand-in for the module-level generator of inference.priors.

Per-variable laws, written from the textbook definitions in 50-digit arithmetic:

    "G" (mean m, s.d. s)   support R           log f = -z^2/2 - log s - log(2 pi)/2      F = Phi(z)
    "E" (mean beta)        support [0, inf)    log f = -x/beta - log beta                F = 1 - exp(-x/beta)
    "U" (lower a, upper b) support [a, b]      log f = -log(b - a)                       F = (x - a)/(b - a)

A joint prior over variables 0..n-1 is the sum of the per-variable log densities (independence).  Nothing here
looks at the library.
"""
import mpmath as mp
import numpy as np

from mc.core import HarnessError

mp.mp.dps = 50

_LOG2PI_2 = mp.log(2 * mp.pi) / 2
INF = float("inf")


def support(t, h):
    if t == "G":
        return (-INF, INF)
    if t == "E":
        return (0.0, INF)
    if t == "U":
        return (float(h[0]), float(h[1]))
    raise ValueError(t)


def position(t, h, x):
    """'in' (interior), 'edge' (on a finite end of the support: a null set, convention open), 'out'"""
    lo, hi = support(t, h)
    if x < lo or x > hi:
        return "out"
    if x == lo or x == hi:
        return "edge"
    return "in"


def logpdf(t, h, x):
    """(log density on the support, sum of |terms| for tolerances)"""
    x = mp.mpf(x)
    if t == "G":
        m, s = mp.mpf(h[0]), mp.mpf(h[1])
        z = (x - m) / s
        q, ln = z * z / 2, mp.log(s)
        return -q - ln - _LOG2PI_2, q + abs(ln) + _LOG2PI_2
    if t == "E":
        b = mp.mpf(h[0])
        return -x / b - mp.log(b), abs(x) / b + abs(mp.log(b)) + 1
    if t == "U":
        a, b = mp.mpf(h[0]), mp.mpf(h[1])
        ln = mp.log(b - a)
        return -ln, abs(ln) + 1
    raise ValueError(t)


def dlogpdf(t, h, x):
    """(d log f / dx in the interior of the support, tolerance scale)"""
    x = mp.mpf(x)
    if t == "G":
        m, s = mp.mpf(h[0]), mp.mpf(h[1])
        g = (m - x) / (s * s)
        return g, abs(g)
    if t == "E":
        g = -1 / mp.mpf(h[0])
        return g, abs(g)
    if t == "U":
        return mp.mpf(0), mp.mpf(0)
    raise ValueError(t)


def cdf(t, h, x):
    x = mp.mpf(x)
    if t == "G":
        return mp.ncdf((x - mp.mpf(h[0])) / mp.mpf(h[1]))
    if t == "E":
        return -mp.expm1(-x / mp.mpf(h[0])) if x > 0 else mp.mpf(0)
    if t == "U":
        a, b = mp.mpf(h[0]), mp.mpf(h[1])
        return min(max((x - a) / (b - a), mp.mpf(0)), mp.mpf(1))
    raise ValueError(t)


def pdf(t, h, x):
    if position(t, h, float(x)) == "out":
        return mp.mpf(0)
    return mp.exp(logpdf(t, h, x)[0])


def cdf_tolerance(t, h, x, c=8.0):
    """a draw x = loc + scale * q(u) formed in double precision carries an absolute error of a few
    eps * (|x| + |loc| + |x - loc|); seen through F that is f(x) times it"""
    eps = float(np.finfo(float).eps)
    loc = {"G": h[0], "E": 0.0, "U": h[0]}[t]
    return c * eps * (float(pdf(t, h, x)) * (abs(x) + abs(loc) + abs(x - loc)) + 1.0)


# ------------------------------------------------------------------------------ scripted generator
_ZCACHE = {}


def std_normal_quantile(u):
    if u not in _ZCACHE:
        _ZCACHE[u] = float(mp.sqrt(2) * mp.erfinv(2 * mp.mpf(u) - 1))
    return _ZCACHE[u]


class QuantileRng:
    """Deterministic stand-in for numpy.random.Generator (the subset a prior may use).

    Every scalar variate that is produced consumes the next quantile u of `script` (cyclically) and is the
    quantile-u variate of the requested distribution, following numpy's documented parametrisation:
    normal(loc, scale) = loc + scale * Phi^-1(u); exponential(scale) = -scale * log(1 - u);
    uniform(low, high) = low + (high - low) * u; random() = u.  Calls are recorded in `.calls`."""

    def __init__(self, script):
        self.script = [float(u) for u in script]
        if not self.script or not all(0.0 < u < 1.0 for u in self.script):
            raise HarnessError("script must be quantiles in (0,1)")
        self.k = 0
        self.calls = []

    def _next(self):
        u = self.script[self.k % len(self.script)]
        self.k += 1
        return u

    def _draw(self, name, params, size, fn):
        arrs = [np.asarray(p, dtype=float) for p in params]
        shape = np.broadcast(*arrs).shape if arrs else ()
        if size is not None:
            sz = (int(size),) if isinstance(size, (int, np.integer)) else tuple(int(s) for s in size)
            shape = np.broadcast_shapes(shape, sz)
        us = [self._next() for _ in range(int(np.prod(shape, dtype=int)))]
        self.calls.append({"fn": name, "args": [a.tolist() for a in arrs], "shape": list(shape), "u": us})
        base = np.array([fn(u) for u in us], dtype=float).reshape(shape)
        return base

    def normal(self, loc=0.0, scale=1.0, size=None):
        z = self._draw("normal", (loc, scale), size, std_normal_quantile)
        out = np.asarray(loc, dtype=float) + np.asarray(scale, dtype=float) * z
        return out if out.ndim else float(out)

    def standard_normal(self, size=None):
        z = self._draw("standard_normal", (), size, std_normal_quantile)
        return z if z.ndim else float(z)

    def exponential(self, scale=1.0, size=None):
        e = self._draw("exponential", (scale,), size, lambda u: -float(np.log1p(-u)))
        out = np.asarray(scale, dtype=float) * e
        return out if out.ndim else float(out)

    def standard_exponential(self, size=None):
        e = self._draw("standard_exponential", (), size, lambda u: -float(np.log1p(-u)))
        return e if e.ndim else float(e)

    def uniform(self, low=0.0, high=1.0, size=None):
        q = self._draw("uniform", (low, high), size, lambda u: u)
        lo, hi = np.asarray(low, dtype=float), np.asarray(high, dtype=float)
        out = lo + (hi - lo) * q
        return out if out.ndim else float(out)

    def random(self, size=None):
        q = self._draw("random", (), size, lambda u: u)
        return q if q.ndim else float(q)

    def __getattr__(self, name):
        raise HarnessError(f"scripted generator: method {name!r} is not supported by the stand-in; extend mc/ref/c06_ref.QuantileRng")


class scripted_prior_rng:
    """context manager: replace the module-level generator of inference.priors"""

    def __init__(self, script):
        self.gen = QuantileRng(script)

    def __enter__(self):
        import inference.priors as P

        if not hasattr(P, "rng"):
            raise HarnessError("inference.priors has no module-level 'rng' to replace")
        self.P = P
        self.old = P.rng
        P.rng = self.gen
        return self.gen

    def __exit__(self, *a):
        self.P.rng = self.old
        return False
