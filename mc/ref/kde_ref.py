"""Reference models for C12 / C19 (independent of inference.pdf).

* exact Gaussian kernel-density estimate (pdf and cdf) with a given bandwidth: plain numpy (chunked) and
  mpmath at 50 digits (used to validate the numpy reference on small samples);
* deterministic samples (quantile samples of named distributions, small multisets) – never random;
* grid quadrature helpers for integrating an estimator's own density (C19).
"""
import math

import numpy as np

SQ2 = math.sqrt(2.0)
SQ2PI = math.sqrt(2.0 * math.pi)


# ------------------------------------------------------------------------------------ exact KDE
def exact_pdf(sample, h, x, chunk=262_144):
    """(1/(n h sqrt(2 pi))) sum_i exp(-(x-s_i)^2/(2 h^2)), no truncation."""
    s = np.asarray(sample, dtype=float).ravel()
    x = np.atleast_1d(np.asarray(x, dtype=float))
    out = np.empty(x.size)
    step = max(1, chunk // max(1, s.size))
    for i in range(0, x.size, step):
        z = (x[i : i + step, None] - s[None, :]) / h
        out[i : i + step] = np.exp(-0.5 * z * z).sum(axis=1)
    return out / (s.size * h * SQ2PI)


def exact_cdf(sample, h, x, chunk=262_144):
    """(1/n) sum_i Phi((x-s_i)/h), written with erfc on the lower side so the far tails keep relative accuracy."""
    from scipy.special import erfc

    s = np.asarray(sample, dtype=float).ravel()
    x = np.atleast_1d(np.asarray(x, dtype=float))
    out = np.empty(x.size)
    step = max(1, chunk // max(1, s.size))
    for i in range(0, x.size, step):
        z = (x[i : i + step, None] - s[None, :]) / (h * SQ2)
        out[i : i + step] = (0.5 * erfc(-z)).sum(axis=1)
    return out / s.size


def exact_pdf_mp(sample, h, x):
    import mpmath as mp

    mp.mp.dps = 50
    hh = mp.mpf(float(h))
    ss = [mp.mpf(float(v)) for v in sample]
    c = 1 / (len(ss) * hh * mp.sqrt(2 * mp.pi))
    return [c * mp.fsum(mp.exp(-((mp.mpf(float(xx)) - s) / hh) ** 2 / 2) for s in ss) for xx in x]


def exact_cdf_mp(sample, h, x):
    import mpmath as mp

    mp.mp.dps = 50
    hh = mp.mpf(float(h))
    ss = [mp.mpf(float(v)) for v in sample]
    return [mp.fsum(mp.ncdf((mp.mpf(float(xx)) - s) / hh) for s in ss) / len(ss) for xx in x]


# worst-case truncation bounds for a kernel sum that may drop every kernel further than `d` bandwidths away
def dropped_pdf_bound(d):
    """sup over x of the density (times h) carried by kernels centred >= d*h away"""
    return math.exp(-0.5 * d * d) / SQ2PI


def dropped_cdf_bound(d):
    """largest change of the cdf when kernels >= d*h to one side are counted as 0 / 1"""
    return 0.5 * math.erfc(d / SQ2)


# ------------------------------------------------------------------------------------ deterministic samples
def quantile_sample(family, n):
    """Deterministic 'sample': the (i+1/2)/n quantiles of a named distribution (ascending)."""
    from scipy import stats

    q = (np.arange(n) + 0.5) / n
    if family == "normal":
        return stats.norm.ppf(q)
    if family == "t2":
        return stats.t(2).ppf(q)
    if family == "t6":
        return stats.t(6).ppf(q)
    if family == "gamma3":
        return stats.gamma(3).ppf(q)
    if family == "gamma3-left":
        # mirror image of gamma(3): left-skewed
        return -stats.gamma(3).ppf(q)[::-1]
    if family == "logistic":
        return stats.logistic.ppf(q)
    if family == "gamma9":
        return stats.gamma(9).ppf(q)
    if family == "expgauss":
        # exponentially modified normal (K = 1.5): moderately skewed with an exponential right tail
        return stats.exponnorm(1.5).ppf(q)
    if family == "bimodal":
        # 60 % N(0,1) + 40 % N(5, 0.6^2): quantiles of each component, interleaved deterministically
        n1 = int(round(0.6 * n))
        n2 = n - n1
        a = stats.norm.ppf((np.arange(n1) + 0.5) / n1)
        b = 5.0 + 0.6 * stats.norm.ppf((np.arange(n2) + 0.5) / n2)
        return np.sort(np.concatenate([a, b]))
    if family == "bimodal-c19":
        # well separated dominant narrow mode: 65 % N(0,1) + 35 % N(4.5,1.5^2)
        n1 = int(round(0.65 * n))
        n2 = n - n1
        a = stats.norm.ppf((np.arange(n1) + 0.5) / n1)
        b = 4.5 + 1.5 * stats.norm.ppf((np.arange(n2) + 0.5) / n2)
        return np.sort(np.concatenate([a, b]))
    if family == "outliers":
        # a standard-normal bulk and two isolated far points: range / bandwidth of many thousands
        m = n - 2
        return np.sort(np.concatenate([stats.norm.ppf((np.arange(m) + 0.5) / m), [-2500.0, 3000.0]]))
    if family == "ties":
        # normal quantiles rounded to one decimal: many exact ties
        return np.round(stats.norm.ppf(q), 1)
    if family == "ties-skew":
        return np.round(stats.gamma(2).ppf(q) * 2.0) / 2.0
    raise ValueError(family)


def stride_permutation(n, k=None):
    """a fixed non-random permutation of range(n): i -> (i*k) mod n with k coprime to n"""
    if k is None:
        k = int(n * 0.381966) | 1
    while math.gcd(k, n) != 1:
        k += 2
    return (np.arange(n) * k) % n


# ------------------------------------------------------------------------------------ quadrature of an own density
def cumulative_simpson(y, dx):
    """Cumulative integral of equally spaced samples at every *even* node (composite Simpson), and at odd nodes by
    Simpson up to the previous even node plus the 3-point (5,8,-1)/12 end rule.  len(y) must be odd."""
    y = np.asarray(y, dtype=float)
    n = y.size
    if n % 2 == 0:
        raise ValueError("odd number of nodes required")
    out = np.zeros(n)
    seg = (dx / 3.0) * (y[0:-2:2] + 4.0 * y[1:-1:2] + y[2::2])
    out[2::2] = np.cumsum(seg)
    out[1::2] = out[0:-1:2] + (dx / 12.0) * (5.0 * y[0:-2:2] + 8.0 * y[1:-1:2] - y[2::2])
    return out


def simpson(y, dx):
    y = np.asarray(y, dtype=float)
    return (dx / 3.0) * (y[0] + y[-1] + 4.0 * y[1:-1:2].sum() + 2.0 * y[2:-1:2].sum())
