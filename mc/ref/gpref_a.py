"""gpref_a – reference model for the GP kernels, mean functions and GP algebra (C10, C02).

Everything here is written from the *documented* formulas (class docstrings of
inference/gp/covariance.py); none of it calls the library's ``__call__`` /
``build_covariance``.

Kernel specification (JSON-able):
    "SE" | "RQ" | "WN" | "HN"
    ["add",  s1, s2, ...]   library object built with the ``+`` operator (left fold)
    ["comp", s1, s2, ...]   library object built with CompositeCovariance([...]) (may nest)
    ["cp", axis, s1, ..., sk]   ChangePoint over k kernels along ``axis``

Documented formulas
    SE   K(u,v) = A^2 exp(-1/2 sum_i ((u_i-v_i)/l_i)^2)            theta = [ln A, ln l_1..l_d]
    RQ   K(u,v) = A^2 (1 + 1/(2 alpha) sum_i ((u_i-v_i)/l_i)^2)^-alpha   theta = [ln A, ln alpha, ln l_1..l_d]
    WN   K(x_i,x_j) = delta_ij sigma^2                              theta = [ln sigma]
    HN   K(x_i,x_j) = delta_ij sigma_i^2                            theta = [ln sigma_1..sigma_m]
    sum  K = sum_k K_k, theta = concatenation in order
    CP   K = K_1 a_1 + sum_{i=2}^{n-1} K_i a_i b_{i-1} + K_n b_{n-1},
         a_i(u,v) = (1-f_i(u))(1-f_i(v)), b_i(u,v) = f_i(u) f_i(v), f_i(x) = 1/(1+exp(-(x-c_i)/w_i)),
         theta = [theta_K1, ..., theta_Kn, c_1, w_1, ..., c_{n-1}, w_{n-1}]   (order given by the labels)
The Kronecker delta is on the *data index*: it is 1 only inside the data covariance (``same=True``)
on the diagonal; cross-covariances with new points get 0 from the noise kernels.

Two arithmetic back-ends evaluate the same code:
    CB  Python complex (float64) – values and complex-step derivatives d/dtheta_p = Im f(theta+ih)/h, h=1e-30
    MB  mpmath at 50 digits       – values for the GP algebra
"""
import cmath

import numpy as np
from mpmath import mp, mpf

mp.dps = 50

LEAVES = ("SE", "RQ", "WN", "HN")
NOISE = ("WN", "HN")


# ----------------------------------------------------------------------------- back-ends
class CB:
    name = "complex"
    exp = staticmethod(cmath.exp)

    @staticmethod
    def num(v):
        return complex(v)

    @staticmethod
    def re(v):
        return v.real

    zero = 0j
    one = 1 + 0j


class MB:
    name = "mp50"

    @staticmethod
    def exp(v):
        return mp.exp(v)

    @staticmethod
    def num(v):
        return mpf(float(v)) if not isinstance(v, (type(mpf(0)),)) else v

    @staticmethod
    def re(v):
        return v.real if hasattr(v, "real") else v

    zero = mpf(0)
    one = mpf(1)


class MCB(MB):
    """mpmath complex (for validating CB's complex-step against 50-digit arithmetic)."""

    name = "mpc50"

    @staticmethod
    def num(v):
        return v if isinstance(v, (type(mpf(0)), type(mp.mpc(0)))) else (mp.mpc(v.real, v.imag) if isinstance(v, complex) else mpf(float(v)))


# ----------------------------------------------------------------------------- spec helpers
def kind(spec):
    return spec if isinstance(spec, str) else spec[0]


def children(spec):
    if isinstance(spec, str):
        return []
    return list(spec[2:]) if spec[0] == "cp" else list(spec[1:])


def spec_name(spec):
    if isinstance(spec, str):
        return spec
    if spec[0] == "add":
        return "+".join(spec_name(s) for s in spec[1:])
    if spec[0] == "comp":
        return "[" + "+".join(spec_name(s) for s in spec[1:]) + "]"
    ax = "" if spec[1] == 0 else f"@ax{spec[1]}"
    return f"CP{ax}(" + ",".join(spec_name(s) for s in spec[2:]) + ")"


def contains(spec, leaf):
    if isinstance(spec, str):
        return spec == leaf
    return any(contains(c, leaf) for c in children(spec))


def max_cp_kernels(spec):
    if isinstance(spec, str):
        return 0
    m = max([max_cp_kernels(c) for c in children(spec)] + [0])
    return max(m, len(children(spec))) if spec[0] == "cp" else m


def family(spec):
    """coarse configuration class used in failure keys"""
    k = kind(spec)
    if k in LEAVES:
        return k
    if k == "cp":
        return f"ChangePoint[k={len(children(spec))}]" if len(children(spec)) < 3 else "ChangePoint[k>=3]"
    return "Sum[with-CP]" if max_cp_kernels(spec) else "Sum"


def n_params(spec, n, d):
    k = kind(spec)
    if k == "SE":
        return 1 + d
    if k == "RQ":
        return 2 + d
    if k == "WN":
        return 1
    if k == "HN":
        return n
    tot = sum(n_params(c, n, d) for c in children(spec))
    if k == "cp":
        tot += 2 * (len(children(spec)) - 1)
    return tot


def param_info(spec, n, d, path=""):
    """one record per hyper-parameter, in documented order: owner class, kind, path, position in its owner"""
    k = kind(spec)
    here = path + k
    if k == "SE":
        return [dict(owner="SE", kind="log-amplitude", path=here)] + [dict(owner="SE", kind="log-scale", path=here, dim=i) for i in range(d)]
    if k == "RQ":
        return [dict(owner="RQ", kind="log-amplitude", path=here), dict(owner="RQ", kind="log-alpha", path=here)] + [
            dict(owner="RQ", kind="log-scale", path=here, dim=i) for i in range(d)
        ]
    if k == "WN":
        return [dict(owner="WN", kind="log-sigma", path=here)]
    if k == "HN":
        return [dict(owner="HN", kind="log-sigma-i", path=here, point=i) for i in range(n)]
    out = []
    for j, c in enumerate(children(spec)):
        out += param_info(c, n, d, f"{here}{j}>")
    if k == "cp":
        kk = len(children(spec))
        own = "ChangePoint[k=2]" if kk == 2 else "ChangePoint[k>=3]"
        for j in range(kk - 1):
            out.append(dict(owner=own, kind="cp-location", path=here, cp=j, nk=kk))
            out.append(dict(owner=own, kind="cp-width", path=here, cp=j, nk=kk))
    return out


# ----------------------------------------------------------------------------- reference kernels
def _logistic(B, x, c, w):
    z = (x - c) / w
    if B.re(z) >= 0:
        return B.one / (B.one + B.exp(-z))
    e = B.exp(z)
    return e / (B.one + e)


def bind(B, spec, theta, n, d):
    """returns f(u, v, i, j, same) -> covariance of point u (index i) and point v (index j);
    u, v are tuples of back-end numbers; ``same`` = both points are members of the data set
    (Kronecker delta on the index is then active)."""
    k = kind(spec)
    if len(theta) != n_params(spec, n, d):
        raise ValueError("reference: wrong number of hyper-parameters for %s" % spec_name(spec))
    if k == "SE":
        A = B.exp(theta[0])
        ls = [B.exp(t) for t in theta[1:]]
        half = B.one / 2

        def f(u, v, i, j, same):
            s = B.zero
            for a, b, l in zip(u, v, ls):
                r = (a - b) / l
                s = s + r * r
            return A * A * B.exp(-half * s)

        return f
    if k == "RQ":
        A = B.exp(theta[0])
        al = B.exp(theta[1])
        ls = [B.exp(t) for t in theta[2:]]

        def f(u, v, i, j, same):
            s = B.zero
            for a, b, l in zip(u, v, ls):
                r = (a - b) / l
                s = s + r * r
            return A * A * (B.one + s / (2 * al)) ** (-al)

        return f
    if k == "WN":
        s2 = B.exp(theta[0]) ** 2

        def f(u, v, i, j, same):
            return s2 if (same and i == j) else B.zero

        return f
    if k == "HN":
        s2 = [B.exp(t) ** 2 for t in theta]

        def f(u, v, i, j, same):
            return s2[i] if (same and i == j) else B.zero

        return f
    kids = children(spec)
    fs, pos = [], 0
    for c in kids:
        m = n_params(c, n, d)
        fs.append(bind(B, c, theta[pos : pos + m], n, d))
        pos += m
    if k in ("add", "comp"):

        def f(u, v, i, j, same):
            s = B.zero
            for g in fs:
                s = s + g(u, v, i, j, same)
            return s

        return f
    # change-point
    axis = spec[1]
    cps = [(theta[pos + 2 * q], theta[pos + 2 * q + 1]) for q in range(len(kids) - 1)]
    nk = len(kids)

    def f(u, v, i, j, same):
        fu = [_logistic(B, u[axis], c, w) for c, w in cps]
        fv = [_logistic(B, v[axis], c, w) for c, w in cps]
        a = [(B.one - p) * (B.one - q) for p, q in zip(fu, fv)]
        b = [p * q for p, q in zip(fu, fv)]
        tot = fs[0](u, v, i, j, same) * a[0]
        for m in range(1, nk - 1):  # documented: K_i a_i b_{i-1}, i = 2..n-1 (1-based)
            tot = tot + fs[m](u, v, i, j, same) * a[m] * b[m - 1]
        tot = tot + fs[nk - 1](u, v, i, j, same) * b[nk - 2]
        return tot

    return f


def _pts(B, X):
    return [tuple(B.num(v) for v in row) for row in np.asarray(X, dtype=float)]


def data_cov(B, spec, theta, X):
    """n x n list-of-lists: documented covariance of the data points with themselves (noise on the diagonal)."""
    X = np.asarray(X, dtype=float)
    n, d = X.shape
    f = bind(B, spec, [t if not isinstance(t, (float, int, np.floating)) else B.num(t) for t in theta], n, d)
    P = _pts(B, X)
    K = [[None] * n for _ in range(n)]
    for i in range(n):
        for j in range(i, n):
            K[i][j] = f(P[i], P[j], i, j, True)
            K[j][i] = K[i][j] if i == j else f(P[j], P[i], j, i, True)
    return K


def cross_cov(B, spec, theta, U, V, n_data):
    """m x k list-of-lists of K(u_a, v_b) for generic points (noise kernels contribute 0)."""
    U = np.asarray(U, dtype=float)
    V = np.asarray(V, dtype=float)
    d = U.shape[1]
    f = bind(B, spec, [t if not isinstance(t, (float, int, np.floating)) else B.num(t) for t in theta], n_data, d)
    PU, PV = _pts(B, U), _pts(B, V)
    return [[f(u, v, a, b, False) for b, v in enumerate(PV)] for a, u in enumerate(PU)]


def to_float(K):
    return np.array([[float(CB.re(v)) if isinstance(v, complex) else float(v.real if hasattr(v, "real") else v) for v in row] for row in K], dtype=float)


def data_cov_float(spec, theta, X):
    return to_float(data_cov(CB, spec, theta, X))


def cross_cov_float(spec, theta, U, V, n_data):
    return to_float(cross_cov(CB, spec, theta, U, V, n_data))


H = 1e-30


def data_cov_gradients(spec, theta, X):
    """list of n x n float arrays: exact partial derivatives of the documented data covariance
    with respect to every hyper-parameter (complex step, no subtractive cancellation)."""
    out = []
    for p in range(len(theta)):
        th = [complex(t) for t in theta]
        th[p] = th[p] + 1j * H
        K = data_cov(CB, spec, th, X)
        out.append(np.array([[v.imag / H for v in row] for row in K], dtype=float))
    return out


def condition_factor(spec, theta, X):
    """kappa >= 1: documented-formula conditioning with respect to rounding of intermediate quantities.
    RQ: (1+Z/alpha)^-alpha has relative condition alpha with respect to the rounding of 1+Z/alpha.
    SE/RQ: exp(-Z) / Z has relative condition max(1, Z) w.r.t. the rounding of Z (Z = scaled squared distance)."""
    X = np.asarray(X, dtype=float)
    n, d = X.shape
    info = param_info(spec, n, d)
    kap = 1.0
    span = (X.max(axis=0) - X.min(axis=0)) if n > 1 else np.zeros(d)
    for inf, t in zip(info, theta):
        if inf["kind"] == "log-alpha":
            kap = max(kap, float(np.exp(t)))
        if inf["kind"] == "log-scale":
            kap = max(kap, 0.5 * float(span[inf["dim"]] / np.exp(t)) ** 2 * d)
    return kap


def cp_scales(spec, theta, X):
    """per-parameter magnification of rounding in the logistic weights: 1/w for a location, max|z|/w for a width"""
    X = np.asarray(X, dtype=float)
    n, d = X.shape
    info = param_info(spec, n, d)
    out = []
    for p, inf in enumerate(info):
        if inf["kind"] == "cp-location":
            out.append(1.0 / abs(theta[p + 1]))
        elif inf["kind"] == "cp-width":
            c, w = theta[p - 1], theta[p]
            out.append(max(1.0, float(np.abs(X - c).max() / abs(w))) / abs(w))
        else:
            out.append(1.0)
    return out


# ----------------------------------------------------------------------------- mean functions
MEANS = ("ConstantMean", "LinearMean", "QuadraticMean")


def mean_n_params(name, d):
    return {"ConstantMean": 1, "LinearMean": 1 + d, "QuadraticMean": 1 + 2 * d}[name]


def mean_eval(B, name, theta, pts, centre):
    """m(x) = t0                                   (constant)
              t0 + sum_i g_i (x_i - c_i)               (linear;  theta = [t0, g_1..g_d])
              t0 + sum_i g_i (x_i-c_i) + sum_i h_i (x_i-c_i)^2   (quadratic; theta = [t0, g.., h..])
    ``centre`` c is the expansion point (the library expands about the data centroid; c = 0 is the other
    natural convention – callers accept either as long as it is used consistently)."""
    pts = np.asarray(pts, dtype=float)
    d = pts.shape[1]
    th = [B.num(t) for t in theta]
    out = []
    for row in pts:
        v = th[0]
        if name != "ConstantMean":
            for i in range(d):
                dx = B.num(row[i]) - B.num(centre[i])
                v = v + th[1 + i] * dx
                if name == "QuadraticMean":
                    v = v + th[1 + d + i] * dx * dx
        out.append(v)
    return out


def mean_gradients(name, pts, centre, d):
    """exact partial derivatives of m(x_k) w.r.t. each parameter (the mean is linear in theta)."""
    pts = np.asarray(pts, dtype=float)
    dx = pts - np.asarray(centre, dtype=float)[None, :]
    g = [np.ones(pts.shape[0])]
    if name != "ConstantMean":
        g += [dx[:, i].copy() for i in range(d)]
    if name == "QuadraticMean":
        g += [dx[:, i] ** 2 for i in range(d)]
    return g


# ----------------------------------------------------------------------------- GP algebra (mpmath, 50 digits)
def gp_posterior_mp(A, Kqx, Kqq, resid, mq):
    """A = K_xx + S (n x n, list of lists of mpf), Kqx (m x n), Kqq (m x m), resid = y - m(x), mq = m(q).
    Returns mean (m), covariance (m x m), alpha = A^-1 resid, W = A^-1 K_xq (n x m) – all mp matrices/lists."""
    n = len(A)
    m = len(Kqx)
    Am = mp.matrix(A)
    Ainv = mp.inverse(Am)
    r = mp.matrix([[v] for v in resid])
    alpha = Ainv * r
    Kq = mp.matrix(Kqx) if n and m else mp.matrix(m, n)
    W = Ainv * Kq.T
    mu = Kq * alpha
    mean = [mu[a] + mq[a] for a in range(m)]
    cov = mp.matrix(Kqq) - Kq * W
    return mean, cov, alpha, W


def cond2(Afloat):
    s = np.linalg.svd(np.asarray(Afloat, dtype=float), compute_uv=False)
    return float(s[0] / s[-1]) if s[-1] > 0 else float("inf")


# ----------------------------------------------------------------------------- library object builders
def make_kernel(spec, use_classes=False):
    """build the library's covariance object for a spec (fresh instance every call)"""
    from inference.gp.covariance import (
        ChangePoint,
        CompositeCovariance,
        HeteroscedasticNoise,
        RationalQuadratic,
        SquaredExponential,
        WhiteNoise,
    )

    leaf = {"SE": SquaredExponential, "RQ": RationalQuadratic, "WN": WhiteNoise, "HN": HeteroscedasticNoise}
    k = kind(spec)
    if k in leaf:
        return leaf[k]()
    if k == "add":
        parts = [make_kernel(s) for s in spec[1:]]
        out = parts[0]
        for p in parts[1:]:
            out = out + p
        return out
    if k == "comp":
        return CompositeCovariance([make_kernel(s) for s in spec[1:]])
    kids = [(leaf[s] if (use_classes and isinstance(s, str)) else make_kernel(s)) for s in spec[2:]]
    return ChangePoint(kernels=kids, axis=spec[1])


def make_mean(name):
    import inference.gp.mean as M

    return getattr(M, name)()


# ----------------------------------------------------------------------------- deterministic designs
PHI = (0.6180339887498949, 0.7548776662466927, 0.5698402909980532)


def design(name, n, d, seed=0):
    """deterministic point sets (no RNG).  'regular': Kronecker lattice (d=1: evenly spaced);
    'clustered': pairs of near-duplicates 1e-3 apart; 'dups': exact duplicate points; 'permuted': the regular
    set in a fixed non-monotone order, shifted and stretched (x*3-2)."""
    off = 1 + 5 * seed
    if name in ("regular", "permuted", "dups"):
        if d == 1:
            X = (np.arange(n, dtype=float)[:, None] * (1.4 / max(n - 1, 1))) + 0.125 * (seed % 4)
        else:
            X = np.array([[((i + off) * PHI[k]) % 1.0 * (1.0 + 0.5 * k) for k in range(d)] for i in range(n)])
        if name == "permuted":
            order = sorted(range(n), key=lambda i: ((i * 3 + 1) % n, i)) if n % 3 else sorted(range(n), key=lambda i: ((i * 5 + 2) % n, i))
            X = X[order] * 3.0 - 2.0
        if name == "dups" and n >= 2:
            X = X.copy()
            X[n - 1] = X[0]
            if n >= 5:
                X[3] = X[1]
        return np.ascontiguousarray(X)
    if name == "clustered":
        base = design("regular", (n + 1) // 2, d, seed)
        X = np.zeros((n, d))
        for i in range(n):
            X[i] = base[i // 2]
            if i % 2:
                X[i, 0] += 1e-3
                if d > 1:
                    X[i, d - 1] -= 2e-3
        return X
    raise ValueError(name)


def y_values(X):
    X = np.asarray(X, dtype=float)
    i = np.arange(X.shape[0])
    return np.sin(2.1 * X[:, 0]) + 0.5 * X[:, -1] + 0.3 * (-1.0) ** i + 0.05 * i


AMP = (-3.0, 0.0, 1.5)
SCALE = (-1.2, 0.0, 1.3)
ALPHA = (-1.5, 0.7, 4.0)
WNS = (-4.0, -1.5, 0.4)
HNS = (-3.5, -1.2, 0.3)
CPSHIFT = (-0.13, 0.02, 0.21)
CPW = (0.03, 0.25, 1.1)


def theta_for(spec, X, pattern):
    """hyper-parameter vector for a spec on data X: level (low/mid/high) of block b is
    (pattern % 3 + b * (1 + pattern // 3)) % 3, pattern = 0..8 (offset x stride; stride 3 = all blocks at one level);
    change-point locations are listed in reverse order when pattern % 3 == 2"""
    X = np.asarray(X, dtype=float)
    n, d = X.shape
    counter = [0]

    def lvl():
        v = (pattern % 3 + counter[0] * (1 + (pattern // 3) % 3)) % 3
        counter[0] += 1
        return v

    def rec(s):
        k = kind(s)
        if k == "SE":
            L = lvl()
            return [AMP[L]] + [SCALE[(L + 1 + i) % 3] + 0.17 * i for i in range(d)]
        if k == "RQ":
            L = lvl()
            return [AMP[(L + 1) % 3] * 0.9 - 0.3, ALPHA[L]] + [SCALE[(L + 2 + i) % 3] - 0.11 * i for i in range(d)]
        if k == "WN":
            return [WNS[lvl()]]
        if k == "HN":
            L = lvl()
            return [HNS[L] + 0.2 * (((i * 7) % 5) - 2) for i in range(n)]
        out = []
        for c in children(s):
            out += rec(c)
        if k == "cp":
            L = lvl()
            ax = s[1]
            lo, hi = float(X[:, ax].min()), float(X[:, ax].max())
            rng = (hi - lo) if hi > lo else 1.0
            kk = len(children(s))
            locs = [lo + rng * (q + 1) / kk + CPSHIFT[(L + q) % 3] * rng / kk for q in range(kk - 1)]
            if pattern % 3 == 2:
                locs = locs[::-1]
            for q in range(kk - 1):
                out += [locs[q], CPW[(L + q) % 3] * rng]
        return out

    return np.array(rec(spec), dtype=float)


MEAN_T0 = (-1.5, 0.3, 20.0)
MEAN_G = (0.8, -2.5, 0.05)
MEAN_H = (-0.6, 0.3, 4.0)


def mean_theta_for(name, d, pattern):
    pattern = pattern % 3 + pattern // 3
    t = [MEAN_T0[pattern % 3]]
    if name != "ConstantMean":
        t += [MEAN_G[(pattern + 1 + i) % 3] * (1 + 0.25 * i) for i in range(d)]
    if name == "QuadraticMean":
        t += [MEAN_H[(pattern + 2 + i) % 3] * (1 - 0.2 * i) for i in range(d)]
    return np.array(t, dtype=float)
