"""Regenerates /verif/MANIFEST.json from the table below (python -m mc.manifest).
A property is claimed only when checks/cNN.py exists and its entry is in CLAIMED."""
import json
import os

VERIF = os.path.dirname(os.path.dirname(os.path.abspath(__file__)))

BASELINE = "cd /repo && /venv/bin/python -m pytest -ra -q -p no:cacheprovider --timeout=900 --continue-on-collection-errors"

# pid -> (category, engine, technique, text, note, design_ref)
CLAIMED = {}


def claim(pid, category, engine, technique, text, note, ref):
    CLAIMED[pid] = dict(category=category, engine=engine, technique=technique, text=text, note=note, ref=ref)


claim(
    "C13",
    "exploration",
    "D-lattice",
    "bounded-exhaustive input enumeration of the real function against a brute-force reference model",
    "Every sample in A^n (n<=7 quick / 8 thorough, 4-5 letter alphabets incl. ties) x 9 fractions is run through the real sample_hdi and "
    "compared with a brute-force search over all pairs of sample values; all permutations, 2-D column tuples, dtypes/containers, affine maps. "
    "Exhaustive over the stated finite space; unit tests sample two random arrays.",
    "value alphabets are finite; numpy sorting/arithmetic trusted; brute-force oracle (20 lines) trusted",
    "DESIGN.md section 5 / C13",
)

claim(
    "C01",
    "model_checking",
    "A-choice-tree",
    "exhaustive choice-tree exploration of the real samplers under a scripted random stream; exact transition matrices on lattice targets",
    "The random stream of the real MetropolisChain/GibbsChain/PcaChain/HamiltonianChain/EnsembleSampler objects is replaced by a scripted generator "
    "(finite symmetric normal alphabet, symbolic uniform that forks with exact probabilities). One take_step is explored from every state of "
    "lattice targets (1-D 6-8 states, 2-D 3x3/4x3; unimodal, bimodal, ties, holes, cliff; T in {1,2.5}; free/box/non-negative; axis and oblique PCA directions; "
    "fresh and non-initial chains), giving the exact per-attempt kernel (detailed balance, proposal symmetry, threshold = MH probability) and the exact law of the "
    "recorded step (all rejections up to R, loop invariance, closed-form tail) whose stationary distribution is compared with pi^(1/T). HMC/ensemble: every "
    "(configuration, draw) pair: threshold = exp(H0-H1) / z^(n-1) pi(Y)/pi(X), reverse move run by the code itself, stretch-factor law, partner uniformity. Attempt-level oracle again on a continuous target after real histories "
    "(0-60 seeded steps with adaptation intervals shrunk: adapted widths, try-count halvings, re-estimated PCA directions). The parallel-tempering exchange move through C08's exchange evaluator (sorted and unsorted ladders).",
    "finite draw alphabets and lattice targets; adaptation (diminishing) not decided; numpy linear algebra for the stationary solve; the step-law oracle applies where the recorded chain is irreducible on the support (otherwise counted as skipped)",
    "DESIGN.md section 5 / C01",
)

claim(
    "C03",
    "model_checking",
    "C-history + A-choice-tree",
    "explicit enumeration of API call histories on the real samplers with the random stream scripted; invariant checked in every reached state",
    "Every history of depth 3 (quick) / 4 (thorough) over {take_step, advance(1), advance(3)} for Metropolis/Gibbs/PCA/HMC/Ensemble x {free, box} x T in {1,2.5} x d in {1,2} "
    "is executed on fresh real objects under a scripted generator, over all random outcomes within a deviation bound (2/3) so accept, auto-accept and reject-then-accept paths are taken; "
    "after every call probs[k] == posterior(sample[k])/T for all k, lengths agree, mode() is a recorded row of maximal recorded probability, the caller's arrays are byte-identical. "
    "Ensemble also with integer-dtype starting positions and with max_attempts=1 (failed walker updates). Second harness: two samplers built from the same arrays, all 2^L interleavings of their steps; each must equal its solo run. "
    "Points installed by an exchange: C08's exchange evaluator (real swap()/tempering_process over fake pipes, all pairings and outcomes, consecutive rounds, mode() afterwards) is run here too.",
    "fixed smooth posterior; 2-letter normal alphabet and 2 quantiles; deviation bound stated in evidence",
    "DESIGN.md section 5 / C03",
)
claim(
    "C08",
    "model_checking",
    "B-schedule + A-choice-tree",
    "explicit-state search over all interleavings of the real parent/worker code over fake Process/Pipe/Event (model of local steps learned from and audited against real executions, cross-checked with the plain search); choice-tree over pairings and accept/reject; conformance runs on real multiprocessing",
    "inference.mcmc.parallel's Process/Pipe/Event are replaced by fakes run as threads under a controller that owns every send/recv/poll/set/join; all interleavings of parent + N workers "
    "(N<=4 quick, <=5 thorough; pipe capacity inf and 1) are explored for every command script up to length 2 (quick) / 3 (thorough, plus a fifth of the length-4 scripts) over {take_steps(1), take_steps(2), swap, advance(5,2), return_chains}: no deadlock, "
    "no worker death, every worker terminates after shutdown, exactly one final outcome per script, chains advanced by the requested steps; the same scripts are run on real multiprocessing and compared byte-for-byte. "
    "swap(): every pairing and accept/reject outcome under the scripted generator: threshold = min(1,exp((1/Ti-1/Tj)(Lj-Li))), hand-over of position and re-tempered probability, untouched chains, counters; "
    "consecutive exchange rounds without stepping, sorted and unsorted temperature ladders, mode() of the returned chains; tight_pairs/uniform_pairs for N=1..7 over all outcomes; advance(n, swap_interval) arithmetic on a grid. "
    "Quick tier: ~190k global states / 730k transitions; thorough: 2.3M / 10M.",
    "scheduling points at IPC operations only (separate address spaces); OS-level pipe behaviour below Connection.send/recv is multiprocessing's contract; fork copy emulated by deepcopy",
    "DESIGN.md section 5 / C08",
)

claim(
    "C04",
    "model_checking",
    "C-history + A-choice-tree + D-lattice",
    "exhaustive enumeration of limit-setting call sequences against a reference limit model; choice-tree exploration of bounded samplers; fold-map lattices",
    "(i) Bounds.reflect/reflect_momenta and the Gibbs boundary/abs proposals (driven through a real chain) on 801-point lattices around 8 boxes of different magnitude and sign, against an exact "
    "rational-arithmetic symmetric fold: inside, identity inside, symmetric, periodic, momentum sign = parity of folds. (ii) every call sequence of length 4 (quick) / 5 (thorough) over "
    "{set_boundaries x3, remove, set_non_negative(True/False)} replayed on fresh real GibbsChains; in every state 9 overshooting raw proposals must land in the intersection of the limits "
    "given by the reference model (last un-removed box, last flag). (iii) Gibbs/Metropolis/PCA(axis+oblique)/HMC(analytic and finite-difference gradient)/Ensemble with bounds: every argument of the "
    "user's posterior and gradient and every recorded sample, draws up to 50 widths, starts on walls/corner, boxes of several magnitudes incl. one narrower than 1e-5 of its own location, fresh and reloaded (save->load) samplers, "
    "all random outcomes within a deviation bound.",
    "finite lattices/alphabets; horizon of 8 posterior evaluations per step (60 with the finite-difference gradient) and max_attempts=3 in (iii)",
    "DESIGN.md section 5 / C04",
)

claim(
    "C05",
    "exploration",
    "D-lattice",
    "bounded-exhaustive input lattice evaluated by the real likelihood classes against 50-digit mpmath reference densities",
    "3 likelihood classes x sigma patterns 1e-6..1e3 (and mixed) x forward models {identity, linear, quadratic} with exact Jacobians x input forms x every residual vector in A^n (n<=3; windows for n=5) "
    "over A = {0, +-.5, +-3, +-30, +-300, +-1e4} sigma: value and gradient vs. mpmath closed forms on the same floats, cost/cost_gradient bit-for-bit negatives, normalisation over the data by mp.quad, "
    "second moment = sigma^2; call histories on one object with one theta array overwritten in place (all pairs of calls) vs a fresh object; 400-6000 data points with uncertainties 1e-4..1e4. "
    "Exhaustive over the stated lattice; the tests compare a handful of random points with scipy.",
    "forward-model output and Jacobian taken as exact inputs; n <= 5; mpmath trusted",
    "DESIGN.md section 5 / C05",
)
claim(
    "C06",
    "exploration",
    "D-lattice + A-choice-tree (scripted module rng)",
    "bounded-exhaustive enumeration of prior configurations/index layouts with the module generator scripted at known quantiles, against per-variable reference laws",
    "Per class: hyper-parameter lattice x theta inside/edge/outside (+-1 ulp) x input forms; every ordered selection of indices; joint priors: EVERY permutation of n<=4 (thorough 5) variables cut into <=3 blocks x "
    "3^k type assignments (2979 / +24120 configurations): value = sum of per-variable reference log-densities, gradient/bounds/sample routed by index, F_i(sample_i) = u for the scripted quantile u; "
    "posterior = likelihood + prior (value, gradient, cost, cost-gradient; <=2 ulp); generate_initial_guesses over all orderings of <=5 scripted draws and all n_guesses.",
    "numpy's own mapping from variates to distributions is trusted (the scripted generator returns the quantile-u variate of the requested law and records the arguments)",
    "DESIGN.md section 5 / C06",
)

claim(
    "C09",
    "model_checking",
    "C-history",
    "exhaustive enumeration of save points of a step history on the real samplers; differential oracle original vs reloaded and byte-identical continuation",
    "For every sampler (Metropolis, Gibbs, PCA, HMC, Ensemble) x configuration (free, bounds, Gibbs limits, T=2.5, scalar/vector/matrix mass, finite-difference gradient, alpha=3) a history of L=12 (quick) / 30 (thorough) "
    "steps with adaptation intervals shrunk so that width, epsilon and direction updates fall inside it; at EVERY save point k=0..L: save, load, save, load; read-outs (samples, probabilities, lengths, bounds, mode, "
    "interval, tuning) must be equal, plot calls must succeed whenever they succeed on the original, and with the original's generator state copied in, the continuation by take_step (compared after every step) and "
    "by advance must be byte-identical to the sampler that was never saved; the take_step continuation starts from the first round trip and the advance continuation from the second; 3-parameter PCA chains and "
    "histories with estimate_mass() before the save are included.",
    "one fixed posterior; generator state copied from the original (the statement's premise); numpy savez/load trusted",
    "DESIGN.md section 5 / C09",
)
claim(
    "C14",
    "model_checking",
    "C-history + A-choice-tree (scripted permutation)",
    "exhaustive enumeration of (chain length, burn, thin) and of interval requests on real chains, with numpy's permutation scripted over all outcomes",
    "Chains of every length N=1..12 (ensemble 1..4 iterations) are produced by real stepping (and again through save/load) for each sampler and d in {1,2,3}; for every burn in 0..N+1 and thin in 1..N+1 "
    "get_parameter/get_sample/get_probabilities must equal rows burn::thin of the full chain, with first dimension = number retained (0 and 1 included) and row-aligned; get_marginal must be built from exactly "
    "those values (estimator constructors intercepted); get_interval for 5 fractions x samples in {None,1..N+2} x every outcome of the scripted permutation: 2-D rows with their own probabilities from the top fraction, "
    "all of it when no count is given, at most the count otherwise. Read-out histories over {read, replace_last, take_step} (no stale cached read-out).",
    "chain lengths <= 12; both the documented thin override and the user's thin are accepted when a sample count is requested; cut index floor(n(1-f)) exact or in floating point",
    "DESIGN.md section 5 / C14",
)

claim(
    "C15",
    "model_checking",
    "C-history + B-schedule (fake Pool)",
    "exhaustive enumeration of advance/take_step call sequences, of Pool task orders, and of (step cost, budget) pairs under a virtual clock, on the real samplers",
    "advance(m) for every m in [0,260] (quick: [0,130] plus 199..260 edge values) on fresh and already-advanced chains, all pairs (m1,m2) in [0,12]^2 / [0,30]^2, interleaved take_step, with and without progress display, "
    "ensemble with 3-5 walkers, one-parameter chains across the first adaptation: reported length = stored samples = stored probabilities and delta = m (x walkers). ChainPool through a fake Pool that pickles each task in and out "
    "and executes the tasks in EVERY order, compared with the same chains (same generator states) advanced serially, plus real multiprocessing Pool runs. run_for under a virtual clock (module-global time() replaced) for "
    "per-evaluation costs 1e-6 s .. 600 s (constant and alternating) x budgets 1 s / 1 min / 1 h: terminates, no idle spin (10^4 clock readings without a step), returns only after the budget, no step after the deadline was seen, counters consistent, "
    "and with a constant cost per step a chain with a long history takes exactly as many steps as a fresh one. ParallelTempering.advance(n, swap_interval) arithmetic (shared with C08).",
    "virtual clock advanced by the user's posterior; Pool tasks run one at a time (workers are separate processes)",
    "DESIGN.md section 5 / C15",
)

claim(
    "C07",
    "exploration",
    "D-lattice",
    "bounded-exhaustive configuration lattice over the real trajectory map; oracles are properties of the map (reversibility, volume, energy order, momentum law)",
    "The chain's own run_leapfrog is driven on a lattice of (t0, r0) for potentials {diagonal/correlated quadratic, quartic, sharp log-concave} x d<=3 x eps x n x T in {1,2.5} x mass {scalar, vector, diagonal and "
    "off-diagonal matrix} x bounds {none, wide, tight}: forward-flip-forward returns to the start, |det J| = 1 by central differences, energy error ratio 4 when eps is halved on wall-free trajectories (derived first-order bound "
    "on folded ones), L^T M^-1 L = I with a basis-vector generator and accept/reject with the uniform placed on either side of the threshold; finite-difference gradient vs analytic on a lattice including zero coordinates, bounded starts and T>1.",
    "finite lattices; eps^2 clause asserted on wall-free trajectories only; volume stencils straddling a fold are moved",
    "DESIGN.md section 5 / C07",
)
claim(
    "C20",
    "exploration",
    "D-lattice + A-choice-tree (scripted module rng)",
    "bounded-exhaustive enumeration of grids/tables/cells/quantiles with the module generator scripted, against the exact piecewise-linear CDF; posterior catalogue for get_conditionals",
    "piecewise_linear_sample: all ascending grids of 2-5 (thorough 6) nodes over spacings {.5,1,2,7} x all tables over {0,1,3,10}; the p handed to choice() is captured and compared with the exact cell masses, then every "
    "positive-probability cell x u in {0,.01,.25,.5,.75,.99} is compared with the inverse CDF of the linear density on the cell. get_conditionals / conditional_sample over 3 posterior families x scales 1e-3..1e3 x 5 bound shapes x "
    "4 conditioning points x grid sizes, then scales 1e-9..1e9 (thorough 1e-12..1e12) x locations up to 1e3 (1e6) widths from the origin: normalised, inside bounds, covering where the conditional exceeds 1e-3 of its peak, proportional to the true conditional.",
    "assumes cells are drawn with rng.choice(p=...) and within-cell uniforms with rng.random/uniform (another sampling scheme would be a harness error, not an alarm); 'small fraction of the peak' taken as 1e-3",
    "DESIGN.md section 5 / C20",
)

claim(
    "C02",
    "exploration",
    "D-lattice",
    "bounded-exhaustive configuration/input lattice evaluated by the real GpRegressor against an independent 50-digit reference GP",
    "Kernels {SE, RQ, SE+WN, RQ+WN, SE+HN, SE+RQ, ChangePoint 2-3 kernels, nested} x means {Constant, Linear, Quadratic} x noise {none, y_err, diagonal y_cov, full y_cov} x (n,d) in {2,3,5,8}x{1,2,3} x deterministic designs x "
    "hyper-parameter level patterns x query forms: __call__, build_posterior and mean_only vs a reference whose kernels are re-implemented from the documented formulas and whose algebra runs in mpmath; mutual agreement of the three calls, "
    "0 <= var <= prior var, all n! orders of the training set (n<=4), y_err == diag y_cov. Designs with cond > 1e10 are skipped and counted.",
    "n <= 8, d <= 3; jitter accepted in [0, 1e-10 K_ii]; y_cov as ndarray; mpmath trusted",
    "DESIGN.md section 5 / C02",
)
claim(
    "C10",
    "exploration",
    "D-lattice",
    "bounded-exhaustive lattice over kernel/mean compositions, point sets and hyper-parameter patterns against formulas re-implemented in complex/50-digit arithmetic",
    "Every kernel and composition (sums, ChangePoint with 2,3,4 kernels, nested) x point sets n<=8, d<=3 incl. duplicates x hyper-parameter patterns: symmetric, PSD, builder = pairwise + documented diagonal terms, rectangular blocks, "
    "hyper-parameter gradients vs exact complex-step derivatives of the reference, composite value/gradients/labels/bounds = concatenation of components (also when a component was given its own bounds), mean functions likewise. "
    "Composition histories: every sequence of <= 3 (thorough 4) construction/use operations on a pool of live kernels; after each, every object must equal a fresh one-shot build of its expression.",
    "finite designs; diagonal additions in [0,1e-10 K_ii] accepted as jitter; mean-function origin convention left open",
    "DESIGN.md section 5 / C10",
)
claim(
    "C12",
    "exploration",
    "D-lattice",
    "bounded-exhaustive enumeration of small multisets and deterministic quantile samples against the exact Gaussian KDE",
    "All multisets of size 3..5 over 4-letter alphabets with >= 2 distinct values plus deterministic quantile samples (normal, t2, bimodal, ties; n up to 5000) x bandwidth modes {user, rule of thumb, cross-validated with the "
    "sub-sampling draws scripted} x evaluation points at every look-up region edge +-1 ulp, every sample point, a fine grid and far outside x affine maps: pdf >= 0, |pdf - exact| <= 1e-3/h, |cdf - exact| <= 5e-4, cdf monotone 0 -> 1 and equal to the "
    "integral of the pdf, order independence, scalar = array = integer-typed points, covariance under shift/scale for every bandwidth mode.",
    "thresholds are the stated conventions of DESIGN.md (worst slack reported); 1-D evaluation points",
    "DESIGN.md section 5 / C12",
)
claim(
    "C16",
    "exploration",
    "D-lattice",
    "bounded-exhaustive configuration lattice; Richardson-extrapolated derivatives of the real prediction and a 50-digit reference for the gradient covariance",
    "d in {1,2,3} x n in {3,6} x means {C,L,Q} x kernels x hyper-parameter patterns x single/batched queries: gradient() and spatial_derivatives() means = Richardson derivative of the real __call__ mean and = reference; variance "
    "derivative = derivative of __call__ variance; gradient covariance symmetric, PSD, = prior d d'k minus explained part (mpmath), explained part PSD; shapes; kernels without gradient_terms may raise NotImplementedError. "
    "Call histories on one regressor (queries and set_hyperparameters, depth 3/4) vs a fresh regressor.",
    "finite designs; SE kernel for values; mpmath trusted",
    "DESIGN.md section 5 / C16",
)
claim(
    "C18",
    "exploration",
    "D-lattice + C-history",
    "bounded-exhaustive lattice over improvement z-scores and configurations against mpmath definitions; BFS over propose/add call histories on fresh real objects",
    "EI / UCB / MaxVariance for GPs (d in {1,2}, n in {3,6}) steered to z in {-40,...,-3-1e-9,-3,-3+1e-9,...,8}: EI = sigma(z Phi + phi) = E max(f - y_max, 0) by quadrature, continuity across the branch switch, opt_func = -log EI, "
    "opt_func_gradient = same objective + Richardson spatial gradient. History search: all sequences of length <= 3 over {propose(bfgs), propose(diffev), add(x,y[,err])} with the random starts scripted on {0,1/2,1-}: proposals inside the "
    "box, added point becomes a row of the data, incumbent = max(y), every caller array byte- and shape-identical; in every reached state the held acquisition is probed (incl. points probed before and the point just added) and must equal a fresh optimiser built from the same data.",
    "differential_evolution consumes its own stream (seeded; only bounds membership claimed); d <= 2; histories <= 3",
    "DESIGN.md section 5 / C18",
)
claim(
    "C19",
    "exploration",
    "D-lattice",
    "bounded-exhaustive catalogue of deterministic samples x scales x locations x fractions; every oracle is against the estimator's own density integrated by the harness",
    "Quantile samples {normal, gamma(3), mirrored gamma(3), t6; bimodal for KDE} x n x scale 1e-6..1e6 x location up to 1e6 sd x fractions: normalisation, cdf = integral of pdf (points handed over in scrambled order), interval mass under own cdf and equal end densities, mode maximal, "
    "moments of the own density (with the declared-range tail allowance), and covariance of every normalised output under shift/scale, for GaussianKDE and UnimodalPdf.",
    "thresholds are the stated conventions of DESIGN.md C19 (>= 2.5x worst in-domain slack); 'reasonable sample' = the catalogue",
    "DESIGN.md section 5 / C19",
)

claim(
    "C11",
    "exploration",
    "D-lattice + A-choice-tree (scripted multi-start)",
    "bounded-exhaustive lattice over designs/kernels/means/hyper-parameters against a 50-digit reference (LOO by actual refits); exhaustive placement of the scripted random starts",
    "Designs n in {3,5,8}, d in {1,2} x noise x kernels {SE, RQ, SE+WN, ChangePoint} x means {C,L,Q} x hyper-parameter lattice: marginal likelihood = reference log N(y; m, K+S) (either constant convention), LOO score and "
    "loo_predictions = actual deletion of each datum in the reference, value-and-gradient variants = same value + Richardson gradient of the 50-digit score. Automatic selection: result inside the bounds for both criteria and both "
    "optimisers; with bfgs the module-global `random` is scripted so that the starts are placed on {0,1/2,1-}^p exhaustively (multisets and orders as stated in the evidence) and score(result) >= score(centre), also on near-noise-free / near-duplicate / "
    "clustered designs with wide bounds on which L-BFGS-B terminates abnormally.",
    "differential_evolution seeded (only bounds membership claimed); n <= 8; ChangePoint with two kernels; points with cond > 1e10 skipped and counted",
    "DESIGN.md section 5 / C11",
)
claim(
    "C17",
    "exploration",
    "D-lattice",
    "bounded-exhaustive lattice over model matrices/errors/kernels/means/hyper-parameters against the closed-form linear-Gaussian posterior in 50 digits",
    "Model matrices (under-, over-, exactly determined; dense, rank-deficient, zero row) x y_err patterns x positions d in {1,2} x kernels x means x hyper-parameter lattice: posterior mean and covariance = closed form, "
    "mean-only path = full path, covariance symmetric PSD and prior - posterior PSD, evidence = log N(y; Am, AKA^T+S) up to the constant, gradient = Richardson derivative of the reference evidence; a user-defined mean non-linear in its hyper-parameters; "
    "call histories (all sequences <= 3 of the four methods x 3 thetas, theta array overwritten in place) vs a fresh inverter.",
    "at most 5 parameters / 5 data, d <= 2; first-order perturbation tolerances derived in the reference (class Pert)",
    "DESIGN.md section 5 / C17",
)

# additions made while strengthening against the seeded changes (DESIGN.md section 11.3)
ADDENDA = {
    "C01": " Also: the second trajectory of an HMC take_step (retry) with its own energies; a whole ensemble iteration walker after walker against CURRENT positions; lattice kernels from states "
           "installed by replace_last; a half-integer lattice whose whole-number states are passed with an integer dtype; the attempt-level oracle after save -> load.",
    "C03": " Also: burned/thinned read-outs; limits set mid-run; integer-dtype starts; a hand-made in-process exchange through get_last/replace_last after every interleaving; fault enumeration "
           "(the user's posterior raises at its k-th evaluation, the exception is caught, invariant and usability afterwards); an ensemble on a density with hard limits of its own (-inf outside) with a walker starting outside.",
    "C04": " The limit state machine includes a refused set_boundaries call (lower >= upper), which must leave the limits in force unchanged; starting points just outside the limits "
           "(1e-6..1e-1 widths, limits far from zero included) must be refused or never lead to an evaluation or record outside.",
    "C07": " Also: mass histories (estimate_mass, reload) against a fresh chain, and steep Gaussians of width 1e-4..1e-8 (energy error must shrink with the step).",
    "C08": " Also: chains of unequal initial length, ladders with equal temperatures (a certain exchange must be performed), exact one-step kernels from installed lattice states.",
    "C09": " Also: compressed saves, and a second save of the original after replace_last.",
    "C14": " Fractions 0 and 1 included, interval read-outs that retain nothing (an empty (0, n) sample), and get_marginal as an action of the read-out histories.",
    "C15": " Also: ParallelTempering.run_for under the virtual clock, budgets with days and fractions of a second, steps that cannot be completed within max_attempts (exactly m samples or a loud failure), identically seeded chains in a pool.",
    "C02": " Also: noise terms in every position of a sum, kernel-level cross-covariance oracle, hyper-parameter regimes outside the default bounds, data far from the origin, call histories on one regressor with in-place theta, exact observations (zero entries of y_err / diagonal y_cov in five patterns), the caller overwriting the hyper-parameter array it handed over.",
    "C05": " Also: unusual container forms under a 'reject or be right' oracle; ownership histories (the caller overwrites the constructor's arrays in place afterwards); non-uniform uncertainties at scales 1e-9..1e6 and nearly equal ones (relative spread 1e-6, 1e-9).",
    "C06": " Also: object-reuse histories (components reused across several JointPriors and Posteriors), 200/1000-draw initial guesses, priors over 30/60/200 variables at scales 1e-6..1e6 (sum of one-variable terms, five JointPrior constructions).",
    "C10": " Also: extreme hyper-parameter regimes, every given/not-given mask of user bounds, histories with data changes, coordinate units 1e-9..1e9.",
    "C11": " Also: selection through a real Pool (n_processes 1..3), two-model interleavings, container forms of data and hyper-parameters ('reject or be right'), large-n (100..600 points) value vs gradient path against a float64 reference, x units 1e-6..1e6 and y/error units 1e-9..1e6.",
    "C12": " Also: bulk-plus-outlier samples (range/bandwidth in the thousands), call histories with in-place changes of the evaluation array, ownership of the sample (caller overwrites its container afterwards; four container forms, three orders).",
    "C13": " Also: call histories with in-place modification between calls, 49 container/dtype/layout forms, full-range integer dtypes, samples of 1e5..1e6 values against a vectorised exact reference, int64/uint64 spreads beyond 2^63.",
    "C16": " Also: in-place histories for query and hyper-parameter arrays, composite kernels ('may raise NotImplementedError, but if it returns it must be right').",
    "C17": " Also: interleavings of two/three inverters of every construction style, data/error units 1e-9..1e9, user-written means with 0, 1, 2, 3 hyper-parameters and non-uniform profiles.",
    "C18": " Also: repeated measurements at existing locations, bounds in every container form, dtype/container forms of initial and added data, acquisition optimum on the boundary at an evaluated point, objective units 1e-9..1e6, an unsteered ladder of queries covering every band of the standardised improvement from below -6 to above 6.",
    "C19": " Also: arrays of 1..1000 points in three orders vs point-wise evaluation; interval() independent of the order of earlier requests on the same estimator.",
    "C20": " Also: narrow conditionals (1e-2..1e-8 of the bounds) at 14 positions with a resolution oracle.",
}

ALL = [f"C{i:02d}" for i in range(1, 21)]
PENDING_REASON = "check under construction in this session (design in DESIGN.md section 5); not yet claimed"


def build():
    checks = []
    for pid in ALL:
        if pid not in CLAIMED or not os.path.exists(os.path.join(VERIF, "checks", pid.lower() + ".py")):
            continue
        c = CLAIMED[pid]
        checks.append(
            {
                "property_id": pid,
                "quick_cmd": f"cd /verif && /venv/bin/python -m mc.run {pid} --tier quick",
                "thorough_cmd": f"cd /verif && /venv/bin/python -m mc.run {pid} --tier thorough",
                "evidence_file": f"/verif/evidence/{pid}.json",
                "replay_cmd_template": "cd /verif && /venv/bin/python -m mc.replay {path}",
                "engine": c["engine"],
                "level_claimed": {"category": c["category"], "text": c["text"] + ADDENDA.get(pid, ""), "design_ref": c["ref"] + " and 11"},
                "level_note": c["note"],
                "technique": c["technique"],
            }
        )
    claimed = {c["property_id"] for c in checks}
    man = {
        "version": 1,
        "setup_cmd": "cd /verif && /venv/bin/python -m mc.setup",
        "hooks": {
            "guard": "INFERENCE_TOOLS_VERIF",
            "enable": "no source hooks are needed: every nondeterminism seam (rng attributes, module-level time/Process/Pipe/Event/Pool/choice/permutation) "
            "is replaced from the harness at run time; the guard name is reserved and unused",
            "baseline_off_cmd": BASELINE,
            "source_commits": [],
            "add_only": True,
        },
        "engines": [
            {"name": "A-choice-tree", "path": "/verif/mc/explore.py", "serves_properties": ["C01", "C03", "C04", "C06", "C08", "C14", "C20"],
             "kind_free_text": "stateless deviation-bounded exploration of the real code under a scripted random generator (symbolic uniform, finite normal alphabet)"},
            {"name": "B-schedule", "path": "/verif/mc/sched.py", "serves_properties": ["C08", "C15", "C03"],
             "kind_free_text": "stateful BFS over all interleavings of IPC operations of the real parallel-tempering / pool code run over fake Process/Pipe/Event/Pool under a controlled scheduler"},
            {"name": "C-history", "path": "/verif/mc/core.py", "serves_properties": ["C03", "C04", "C09", "C14", "C15", "C18"],
             "kind_free_text": "explicit-state BFS over public-API call histories on fresh real objects, invariant in every state"},
            {"name": "D-lattice", "path": "/verif/mc/core.py", "serves_properties": ["C02", "C05", "C06", "C07", "C10", "C11", "C12", "C13", "C16", "C17", "C18", "C19", "C20"],
             "kind_free_text": "bounded-exhaustive input/configuration lattices evaluated by the real code against independent reference models (mpmath / brute force)"},
        ],
        "checks": checks,
        "notes": "Model checking of the implementation itself (no separate model). See DESIGN.md. known_findings.json lists genuine defects (known / fixed).",
        "not_applicable": [{"property_id": p, "reason": PENDING_REASON} for p in ALL if p not in claimed],
    }
    return man


def main():
    man = build()
    with open(os.path.join(VERIF, "MANIFEST.json"), "w") as fh:
        json.dump(man, fh, indent=1)
    print("claimed:", [c["property_id"] for c in man["checks"]])


if __name__ == "__main__":
    main()
