"""Engine B – schedule explorer for the process protocol of inference.mcmc.parallel.

Process/Pipe/Event/Pool are replaced by fakes.  Every fake process is a Python thread running the REAL
target on a (fork-like) private copy of its arguments; exactly one thread runs at a time and the
controller is entered before every send / recv / poll / Event.set / join.  Search is stateful BFS over
consistent cuts: a global state is, per thread, (IPC operations completed, SHA-1 of bytes sent/received,
started/finished, idle-poll flag) plus the event flag and queue contents (implied by the histories).
States are reached by replaying the schedule prefix on fresh objects.
"""
import copy
import hashlib
import io
import contextlib
import pickle
import random
import threading
from collections import deque

import numpy as np

from mc.core import HarnessError


class _Abort(BaseException):
    pass


class Sched:
    def __init__(self, capacity=None):
        self.ctl = threading.Semaphore(0)
        self.T = {}
        self.order = []
        self.abort = False
        self.cur = None
        self.capacity = capacity
        self.event_flag = False
        self.on_switch = None

    # ---- threads
    def spawn(self, name, fn):
        t = dict(name=name, go=threading.Semaphore(0), finished=False, enabled=(lambda: True), exc=None, n=0,
                 h=hashlib.sha1(), started=False, idle=0, what="start")
        self.T[name] = t
        self.order.append(name)

        def body():
            t["go"].acquire()
            try:
                if self.abort:
                    raise _Abort()
                t["started"] = True
                fn()
            except _Abort:
                pass
            except BaseException as e:  # noqa
                t["exc"] = e
            t["finished"] = True
            self.ctl.release()

        th = threading.Thread(target=body, daemon=True)
        t["th"] = th
        th.start()

    def point(self, what, enabled=None, ready=None):
        """called by the running thread before an IPC operation; returns when the controller schedules it again"""
        t = self.T[self.cur]
        t["enabled"] = enabled or (lambda: True)
        t["ready"] = ready or t["enabled"]
        t["what"] = what
        self.ctl.release()
        t["go"].acquire()
        if self.abort:
            raise _Abort()
        t["enabled"] = lambda: True
        t["ready"] = t["enabled"]

    def note(self, kind, payload=b""):
        t = self.T[self.cur]
        t["n"] += 1
        t["idle"] = 0
        t["h"].update(kind.encode() + b"|" + payload)

    def note_idle(self):
        self.T[self.cur]["idle"] = 1

    def enabled(self):
        return [n for n in self.order if not self.T[n]["finished"] and self.T[n]["enabled"]()]

    def key(self):
        return tuple((n, t["n"], t["h"].hexdigest()[:16], t["finished"], t["started"], t["idle"], t["exc"] is not None)
                     for n, t in sorted(self.T.items())) + (self.event_flag,)

    def _switch_to(self, name):
        if self.on_switch is not None and self.cur != name:
            self.on_switch(self.cur, name)
        self.cur = name
        self.T[name]["go"].release()
        self.ctl.acquire()

    def run(self, prefix, first="parent"):
        """Replays ``prefix`` (indices into the enabled list at each step).  Returns
        ('frontier', enabled names) | ('done',) | ('deadlock', unfinished names)."""
        self._switch_to(first)
        i = 0
        while True:
            en = self.enabled()
            if not en:
                res = ("done",) if all(t["finished"] for t in self.T.values()) else (
                    "deadlock", [(n, self.T[n]["what"]) for n in self.order if not self.T[n]["finished"]])
                break
            if i >= len(prefix):
                res = ("frontier", [(n, self.T[n]["what"]) for n in en])
                break
            k = prefix[i]
            if k >= len(en):
                self._cleanup()
                raise HarnessError(f"schedule replay divergence at {i}: choice {k} of {len(en)} enabled")
            i += 1
            self._switch_to(en[k])
        self._cleanup()
        return res

    def _cleanup(self):
        self.abort = True
        for t in self.T.values():
            if not t["finished"]:
                t["go"].release()
        for t in self.T.values():
            t["th"].join()


# --------------------------------------------------------------------------- fakes
class World:
    """One instance per execution; holds the scheduler and builds fakes bound to it."""

    def __init__(self, capacity=None):
        self.S = Sched(capacity)
        self.nproc = 0
        w = self
        # fork semantics for module-level state: every fake process owns a private copy of the mutable module
        # globals of inference.* (and of the `random` / legacy numpy.random global streams), taken at start()
        self.inventory = module_state_inventory()
        self.private = {}
        self.S.on_switch = self._swap_module_state

        class FConn:
            def __init__(self):
                self.inbox = deque()
                self.peer = None
                self.closed = False

            def __deepcopy__(self, memo):
                return self

            def send(self, obj):
                S = w.S
                cap = S.capacity
                S.point("send", (lambda: True) if cap is None else (lambda: len(self.peer.inbox) < cap))
                b = pickle.dumps(obj)
                S.note("send", b)
                self.peer.inbox.append(b)

            def recv(self):
                S = w.S
                S.point("recv", lambda: bool(self.inbox) or self.peer.owner_finished())
                if not self.inbox:
                    S.note("recv-eof")
                    raise EOFError("peer process ended")
                b = self.inbox.popleft()
                S.note("recv", b)
                return pickle.loads(b)

            def poll(self, timeout=0.0):
                S = w.S
                S.point("poll", ready=lambda: bool(self.inbox) or S.event_flag)
                r = bool(self.inbox)
                if r or S.event_flag:
                    S.note("poll", bytes([r, S.event_flag]))
                else:
                    S.note_idle()  # a timeout: the caller is expected to come back
                return r

            def owner_finished(self):
                o = getattr(self, "owner", None)
                return o is not None and w.S.T.get(o, {}).get("finished", False)

            def close(self):
                self.closed = True

        class FEvent:
            def __deepcopy__(self, memo):
                return self

            def is_set(self):
                return w.S.event_flag

            def set(self):
                w.S.point("event.set")
                w.S.note("event.set")
                w.S.event_flag = True

        class FProcess:
            def __init__(self, target=None, args=(), kwargs=None, **_):
                w.nproc += 1
                self.name = f"w{w.nproc}"
                self.target = target
                self.args = args
                self.kwargs = kwargs or {}
                self._started = False

            def start(self):
                # fork semantics: the child gets a private copy of everything reachable from its arguments
                args = copy.deepcopy(self.args)
                for a in self.args:
                    if isinstance(a, FConn):
                        a.owner = self.name
                self._started = True
                w.fork_state(self.name)
                w.S.spawn(self.name, lambda: self.target(*args, **self.kwargs))

            def join(self, timeout=None):
                w.S.point("join", lambda: w.S.T[self.name]["finished"])
                w.S.note("join")

            def is_alive(self):
                return self._started and not w.S.T[self.name]["finished"]

        def FPipe(duplex=True):
            a, b = FConn(), FConn()
            a.peer, b.peer = b, a
            return a, b

        def fake_wait(object_list, timeout=None):
            """multiprocessing.connection.wait over fake connections: returns every connection that is readable at
            the moment the caller is scheduled (which ones are is decided by the explored schedule)"""
            objs = list(object_list)
            if not all(isinstance(c, FConn) for c in objs):
                return w._real_wait(objs, timeout)
            S = w.S

            def readable(c):
                return bool(c.inbox) or c.peer.owner_finished()

            S.point("wait", enabled=(lambda: True) if timeout is not None else (lambda: any(readable(c) for c in objs)),
                    ready=lambda: any(readable(c) for c in objs))
            ready = [c for c in objs if readable(c)]
            if ready:
                S.note("wait", bytes([i for i, c in enumerate(objs) if c in ready]))
            else:
                S.note_idle()
            return ready

        import multiprocessing.connection as _mpc

        self._real_wait = _mpc.wait
        self.wait = fake_wait
        self.Conn, self.Event, self.Process, self.Pipe = FConn, FEvent, FProcess, FPipe

    def fork_state(self, child):
        """called at start(): the child inherits a deep copy of the module-level state as it is now"""
        self.private[child] = _capture(self.inventory, deep=True)

    def _swap_module_state(self, prev, nxt):
        if prev is not None:
            self.private[prev] = _capture(self.inventory, deep=False)
        if nxt in self.private:
            _install(self.inventory, self.private[nxt])


def _mutable(v):
    """module-level values that carry state a forked child would own privately: builtin containers, numpy arrays and
    generators, and instances of classes defined by the library itself (callables and foreign registries are skipped)"""
    if isinstance(v, (list, dict, set, bytearray, np.ndarray, np.random.Generator, np.random.RandomState, random.Random)):
        return True
    if callable(v) or isinstance(v, type):
        return False
    return type(v).__module__.split(".")[0] == "inference"


def module_state_inventory():
    import sys

    inv = []
    for modname, mod in list(sys.modules.items()):
        if mod is None or not (modname == "inference" or modname.startswith("inference.")):
            continue
        for name, val in list(vars(mod).items()):
            if name.startswith("__") or name in ("Process", "Pipe", "Event", "Pool", "choice"):
                continue
            if _mutable(val) and not isinstance(val, type):
                inv.append((mod, name))
    return inv


def _capture(inventory, deep):
    st = {"random": random.getstate(), "nprandom": np.random.get_state(), "vals": {}}
    for mod, name in inventory:
        v = getattr(mod, name, None)
        st["vals"][(mod.__name__, name)] = copy.deepcopy(v) if deep else v
    return st


def _install(inventory, st):
    random.setstate(st["random"])
    np.random.set_state(st["nprandom"])
    for mod, name in inventory:
        k = (mod.__name__, name)
        if k in st["vals"]:
            setattr(mod, name, st["vals"][k])


@contextlib.contextmanager
def patched_parallel(world, seed=1):
    """Install the fakes (and a seeded `choice`) as module globals of inference.mcmc.parallel."""
    import inference.mcmc.parallel as PAR

    import multiprocessing.connection as mpc

    saved = {k: getattr(PAR, k) for k in ("Process", "Pipe", "Event", "choice")}
    had_wait = hasattr(PAR, "wait")
    saved_wait = getattr(PAR, "wait", None)
    PAR.Process, PAR.Pipe, PAR.Event = world.Process, world.Pipe, world.Event
    PAR.choice = random.Random(seed).choice
    # `wait` is not used by the library today; it is owned anyway (as a module global of parallel.py, if present, and
    # in multiprocessing.connection) so that code selecting on several pipes is explored instead of crashing on fakes
    real_wait = mpc.wait
    mpc.wait = world.wait
    if had_wait:
        PAR.wait = world.wait
    try:
        yield PAR
    finally:
        for k, v in saved.items():
            setattr(PAR, k, v)
        mpc.wait = real_wait
        if had_wait:
            PAR.wait = saved_wait


def explore_schedules(parent_fn, capacity=None, max_states=200000, seed=1):
    """parent_fn(PAR, out) runs in the 'parent' thread; it records results in the dict ``out``.
    Returns dict(states, transitions, finals={outcome: schedule}, deadlocks=[...], worker_errors=[...], max_depth)."""
    seen = {}
    q = deque([[]])
    trans = 0
    finals = {}
    deadlocks = []
    errors = []
    maxd = 0
    runs = 0
    stuck = []
    succ = {}
    while q:
        p = q.popleft()
        world = World(capacity)
        out = {}
        with patched_parallel(world, seed) as PAR:
            world.S.spawn("parent", lambda: parent_fn(PAR, out))
            with contextlib.redirect_stdout(io.StringIO()):
                res = world.S.run(p, "parent")
        runs += 1
        key = world.S.key()
        if p:
            succ.setdefault(tuple(p[:-1]), set()).add(key)
        excs = {n: t["exc"] for n, t in world.S.T.items() if t["exc"] is not None}
        if key in seen:
            continue
        seen[key] = p
        maxd = max(maxd, len(p))
        if excs:
            errors.append((p, {n: f"{type(e).__name__}: {e}" for n, e in excs.items()}))
        if res[0] == "done":
            finals.setdefault(out.get("outcome"), p)
            continue
        if res[0] == "deadlock":
            deadlocks.append((p, res[1]))
            continue
        for k in range(len(res[1])):
            q.append(p + [k])
            trans += 1
        if len(seen) > max_states:
            raise HarnessError(f"state cap {max_states} exceeded")
    # states all of whose successors are themselves (only idle polling possible) and that are not final: stuck
    for key, p in seen.items():
        s = succ.get(tuple(p))
        if s is not None and s == {key}:
            stuck.append(p)
    return dict(states=len(seen), transitions=trans, finals=finals, deadlocks=deadlocks, worker_errors=errors,
                max_depth=maxd, runs=runs, stuck=stuck)


def run_serial_schedule(parent_fn, capacity=None, seed=1, policy="parent-first"):
    """One complete execution under a fixed deterministic schedule (always the first enabled thread, or the last)."""
    world = World(capacity)
    out = {}
    with patched_parallel(world, seed) as PAR:
        world.S.spawn("parent", lambda: parent_fn(PAR, out))
        S = world.S
        with contextlib.redirect_stdout(io.StringIO()):
            S._switch_to("parent")
            n = 0
            while True:
                en = S.enabled()
                if not en:
                    break
                # avoid spinning on idle polls: prefer threads that are not idle-polling
                busy = [e for e in en if S.T[e].get("ready", lambda: True)()]
                if not busy:
                    break  # only idle pollers are left: nothing can make progress any more
                S._switch_to(busy[0] if policy == "parent-first" else busy[-1])
                n += 1
                if n > 100000:
                    S._cleanup()
                    raise HarnessError("serial schedule does not terminate")
            done = all(t["finished"] for t in S.T.values())
            excs = {k: t["exc"] for k, t in S.T.items() if t["exc"] is not None}
            S._cleanup()
    return out, done, excs
