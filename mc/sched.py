"""Engine B – schedule explorer for the process protocol of inference.mcmc.parallel.

Process/Pipe/Event/Pool are replaced by fakes.  Every fake process is a Python thread running the REAL
target on a (fork-like) private copy of its arguments; exactly one thread runs at a time and the
controller is entered before every send / recv / poll / Event.set / join.  Search is stateful BFS over
consistent cuts: a global state is, per thread, (IPC operations completed, SHA-1 of bytes sent/received,
started/finished, idle-poll flag) plus the event flag and queue contents (implied by the histories).
States are reached by replaying the schedule prefix on fresh objects.
"""
import copy
import hashlib
import io
import contextlib
import pickle
import random
import threading
import _thread
from collections import deque

import numpy as np

from mc.core import HarnessError


class _Abort(BaseException):
    pass


def _sem():
    """binary semaphore, initially taken (raw lock: an order of magnitude cheaper than threading.Semaphore)"""
    lk = _thread.allocate_lock()
    lk.acquire()
    return lk


class Sched:
    def __init__(self, capacity=None):
        self.ctl = _sem()
        self.T = {}
        self.order = []
        self.abort = False
        self.cur = None
        self.capacity = capacity
        self.event_flag = False
        self.on_switch = None

    # ---- threads
    def spawn(self, name, fn):
        t = dict(name=name, go=_sem(), finished=False, enabled=(lambda: True), exc=None, n=0,
                 h=hashlib.sha1(), started=False, idle=0, what="start")
        self.T[name] = t
        self.order.append(name)

        def body():
            t["go"].acquire()
            try:
                if self.abort:
                    raise _Abort()
                t["started"] = True
                fn()
            except _Abort:
                pass
            except BaseException as e:  # noqa
                t["exc"] = e
            t["finished"] = True
            if not self.abort:
                self.ctl.release()

        th = threading.Thread(target=body, daemon=True)
        t["th"] = th
        th.start()

    def point(self, what, enabled=None, ready=None, info=()):
        """called by the running thread before an IPC operation; returns when the controller schedules it again"""
        t = self.T[self.cur]
        t["enabled"] = enabled or (lambda: True)
        t["ready"] = ready or t["enabled"]
        t["what"] = what
        t["info"] = info
        self.ctl.release()
        t["go"].acquire()
        if self.abort:
            raise _Abort()
        t["enabled"] = lambda: True
        t["ready"] = t["enabled"]

    def note(self, kind, payload=b""):
        t = self.T[self.cur]
        t["n"] += 1
        t["idle"] = 0
        t["h"].update(kind.encode() + b"|" + payload)

    def note_idle(self):
        self.T[self.cur]["idle"] = 1

    def enabled(self):
        return [n for n in self.order if not self.T[n]["finished"] and self.T[n]["enabled"]()]

    def local_id(self, name):
        """everything the future of one thread depends on besides its inputs: its IPC history and its pending operation"""
        t = self.T[name]
        pend = None if t["finished"] else ((t["what"], t.get("info", ())) if t["started"] else ("start", ()))
        return (name, t["n"], t["h"].hexdigest()[:16], t["finished"], t["started"], t["idle"], t["exc"] is not None, pend)

    def key(self):
        return tuple((n, t["n"], t["h"].hexdigest()[:16], t["finished"], t["started"], t["idle"], t["exc"] is not None)
                     for n, t in sorted(self.T.items())) + (self.event_flag,)

    def _switch_to(self, name):
        if self.on_switch is not None and self.cur != name:
            self.on_switch(self.cur, name)
        self.cur = name
        self.T[name]["go"].release()
        self.ctl.acquire()

    def run(self, prefix, first="parent"):
        """Replays ``prefix`` (indices into the enabled list at each step).  Returns
        ('frontier', enabled names) | ('done',) | ('deadlock', unfinished names)."""
        self._switch_to(first)
        i = 0
        while True:
            en = self.enabled()
            if not en:
                res = ("done",) if all(t["finished"] for t in self.T.values()) else (
                    "deadlock", [(n, self.T[n]["what"]) for n in self.order if not self.T[n]["finished"]])
                break
            if i >= len(prefix):
                res = ("frontier", [(n, self.T[n]["what"]) for n in en])
                break
            k = prefix[i]
            if k >= len(en):
                self._cleanup()
                raise HarnessError(f"schedule replay divergence at {i}: choice {k} of {len(en)} enabled")
            i += 1
            self._switch_to(en[k])
        self._cleanup()
        return res

    def _cleanup(self):
        self.abort = True
        for t in self.T.values():
            if not t["finished"]:
                t["go"].release()
        for t in self.T.values():
            t["th"].join()


# --------------------------------------------------------------------------- fakes
class World:
    """One instance per execution; holds the scheduler and builds fakes bound to it."""

    def __init__(self, capacity=None):
        self.S = Sched(capacity)
        self.nproc = 0
        w = self
        # fork semantics for module-level state: every fake process owns a private copy of the mutable module
        # globals of inference.* (and of the `random` / legacy numpy.random global streams), taken at start()
        self.inventory = module_state_inventory()
        self.private = {}
        self.S.on_switch = self._swap_module_state

        self.conns = []
        self.effects = []

        class FConn:
            def __init__(self):
                self.inbox = deque()
                self.peer = None
                self.closed = False
                self.cid = len(w.conns)
                w.conns.append(self)

            def __deepcopy__(self, memo):
                return self

            def send(self, obj):
                S = w.S
                cap = S.capacity
                S.point("send", (lambda: True) if cap is None else (lambda: len(self.peer.inbox) < cap), info=(self.peer.cid,))
                b = pickle.dumps(obj)
                S.note("send", b)
                self.peer.inbox.append(b)
                w.effects.append(("send", self.peer.cid, b))

            def recv(self):
                S = w.S
                S.point("recv", lambda: bool(self.inbox) or self.peer.owner_finished(), info=(self.cid, getattr(self.peer, "owner", None)))
                if not self.inbox:
                    S.note("recv-eof")
                    raise EOFError("peer process ended")
                b = self.inbox.popleft()
                S.note("recv", b)
                w.effects.append(("recv", self.cid))
                return pickle.loads(b)

            def poll(self, timeout=0.0):
                S = w.S
                S.point("poll", ready=lambda: bool(self.inbox) or S.event_flag, info=(self.cid,))
                r = bool(self.inbox)
                if r or S.event_flag:
                    S.note("poll", bytes([r, S.event_flag]))
                else:
                    S.note_idle()  # a timeout: the caller is expected to come back
                return r

            def owner_finished(self):
                o = getattr(self, "owner", None)
                return o is not None and w.S.T.get(o, {}).get("finished", False)

            def close(self):
                self.closed = True

        class FEvent:
            def __deepcopy__(self, memo):
                return self

            def is_set(self):
                return w.S.event_flag

            def set(self):
                w.S.point("event.set")
                w.S.note("event.set")
                w.S.event_flag = True
                w.effects.append(("set",))

        class FProcess:
            def __init__(self, target=None, args=(), kwargs=None, **_):
                w.nproc += 1
                self.name = f"w{w.nproc}"
                self.target = target
                self.args = args
                self.kwargs = kwargs or {}
                self._started = False

            def start(self):
                # fork semantics: the child gets a private copy of everything reachable from its arguments
                args = copy.deepcopy(self.args)
                for a in self.args:
                    if isinstance(a, FConn):
                        a.owner = self.name
                self._started = True
                w.fork_state(self.name)
                w.S.spawn(self.name, lambda: self.target(*args, **self.kwargs))
                w.effects.append(("spawn", self.name))

            def join(self, timeout=None):
                w.S.point("join", lambda: w.S.T[self.name]["finished"], info=(self.name,))
                w.S.note("join")

            def is_alive(self):
                return self._started and not w.S.T[self.name]["finished"]

        def FPipe(duplex=True):
            a, b = FConn(), FConn()
            a.peer, b.peer = b, a
            return a, b

        def fake_wait(object_list, timeout=None):
            """multiprocessing.connection.wait over fake connections: returns every connection that is readable at
            the moment the caller is scheduled (which ones are is decided by the explored schedule)"""
            objs = list(object_list)
            if not all(isinstance(c, FConn) for c in objs):
                return w._real_wait(objs, timeout)
            S = w.S

            def readable(c):
                return bool(c.inbox) or c.peer.owner_finished()

            S.point("wait", enabled=(lambda: True) if timeout is not None else (lambda: any(readable(c) for c in objs)),
                    ready=lambda: any(readable(c) for c in objs),
                    info=(tuple((c.cid, getattr(c.peer, "owner", None)) for c in objs), timeout is None))
            ready = [c for c in objs if readable(c)]
            if ready:
                S.note("wait", bytes([i for i, c in enumerate(objs) if c in ready]))
            else:
                S.note_idle()
            return ready

        import multiprocessing.connection as _mpc

        self._real_wait = _mpc.wait
        self.wait = fake_wait
        self.Conn, self.Event, self.Process, self.Pipe = FConn, FEvent, FProcess, FPipe

    def fork_state(self, child):
        """called at start(): the child inherits a deep copy of the module-level state as it is now"""
        self.private[child] = _capture(self.inventory, deep=True)

    def _swap_module_state(self, prev, nxt):
        if prev is not None:
            self.private[prev] = _capture(self.inventory, deep=False)
        if nxt in self.private:
            _install(self.inventory, self.private[nxt])


def _mutable(v):
    """module-level values that carry state a forked child would own privately: builtin containers, numpy arrays and
    generators, and instances of classes defined by the library itself (callables and foreign registries are skipped)"""
    if isinstance(v, (list, dict, set, bytearray, np.ndarray, np.random.Generator, np.random.RandomState, random.Random)):
        return True
    if callable(v) or isinstance(v, type):
        return False
    return type(v).__module__.split(".")[0] == "inference"


def module_state_inventory():
    import sys

    inv = []
    for modname, mod in list(sys.modules.items()):
        if mod is None or not (modname == "inference" or modname.startswith("inference.")):
            continue
        for name, val in list(vars(mod).items()):
            if name.startswith("__") or name in ("Process", "Pipe", "Event", "Pool", "choice"):
                continue
            if _mutable(val) and not isinstance(val, type):
                inv.append((mod, name))
    return inv


def _capture(inventory, deep):
    st = {"random": random.getstate(), "nprandom": np.random.get_state(), "vals": {}}
    for mod, name in inventory:
        v = getattr(mod, name, None)
        st["vals"][(mod.__name__, name)] = copy.deepcopy(v) if deep else v
    return st


def _install(inventory, st):
    random.setstate(st["random"])
    np.random.set_state(st["nprandom"])
    for mod, name in inventory:
        k = (mod.__name__, name)
        if k in st["vals"]:
            setattr(mod, name, st["vals"][k])


@contextlib.contextmanager
def patched_parallel(world, seed=1):
    """Install the fakes (and a seeded `choice`) as module globals of inference.mcmc.parallel."""
    import inference.mcmc.parallel as PAR

    import multiprocessing.connection as mpc

    saved = {k: getattr(PAR, k) for k in ("Process", "Pipe", "Event", "choice")}
    had_wait = hasattr(PAR, "wait")
    saved_wait = getattr(PAR, "wait", None)
    PAR.Process, PAR.Pipe, PAR.Event = world.Process, world.Pipe, world.Event
    PAR.choice = random.Random(seed).choice
    # `wait` is not used by the library today; it is owned anyway (as a module global of parallel.py, if present, and
    # in multiprocessing.connection) so that code selecting on several pipes is explored instead of crashing on fakes
    real_wait = mpc.wait
    mpc.wait = world.wait
    if had_wait:
        PAR.wait = world.wait
    try:
        yield PAR
    finally:
        for k, v in saved.items():
            setattr(PAR, k, v)
        mpc.wait = real_wait
        if had_wait:
            PAR.wait = saved_wait


def explore_schedules(parent_fn, capacity=None, max_states=400000, seed=1):
    """parent_fn(PAR, out) runs in the 'parent' thread; it records results in the dict ``out``.
    Stateful depth-first search with replay: one execution replays a schedule prefix and then keeps going along the first
    enabled thread, registering every new global state on the way and queueing the untaken alternatives; it stops at a
    state that was seen before.  Every transition of every reachable state is taken exactly once.
    Returns dict(states, transitions, finals={outcome: schedule}, deadlocks, worker_errors, stuck, max_depth, runs)."""
    seen = {}
    stack = [[]]
    trans = 0
    finals = {}
    deadlocks = []
    errors = []
    maxd = 0
    runs = 0
    succ = {}
    unfinished_keys = {}
    while stack:
        prefix = stack.pop()
        world = World(capacity)
        out = {}
        S = world.S
        with patched_parallel(world, seed) as PAR:
            S.spawn("parent", lambda: parent_fn(PAR, out))
            with contextlib.redirect_stdout(io.StringIO()):
                S._switch_to("parent")
                i = 0
                path = []
                prev_key = None
                while True:
                    en = S.enabled()
                    if i < len(prefix):
                        k = prefix[i]
                        if k >= len(en):
                            S._cleanup()
                            raise HarnessError(f"schedule replay divergence at {i}: choice {k} of {len(en)} enabled")
                        if i == len(prefix) - 1:
                            prev_key = S.key()
                        i += 1
                        path.append(k)
                        S._switch_to(en[k])
                        continue
                    key = S.key()
                    if prev_key is not None:
                        succ.setdefault(prev_key, set()).add(key)
                        trans += 1
                    if key in seen:
                        break
                    seen[key] = list(path)
                    maxd = max(maxd, len(path))
                    excs = {n: t["exc"] for n, t in S.T.items() if t["exc"] is not None}
                    if excs and not any(e[0] == "exc" and e[1] == tuple(sorted(excs)) for e in errors):
                        errors.append(("exc", tuple(sorted(excs)), list(path), {n: f"{type(e).__name__}: {e}" for n, e in excs.items()}))
                    if not en:
                        if all(t["finished"] for t in S.T.values()):
                            finals.setdefault(out.get("outcome"), list(path))
                        else:
                            deadlocks.append((list(path), [(n, S.T[n]["what"]) for n in S.order if not S.T[n]["finished"]]))
                        break
                    unfinished_keys[key] = list(path)
                    for k in range(len(en) - 1, 0, -1):
                        stack.append(path + [k])
                    prev_key = key
                    path.append(0)
                    S._switch_to(en[0])
                S._cleanup()
        runs += 1
        if len(seen) > max_states:
            raise HarnessError(f"state cap {max_states} exceeded")
    # states all of whose successors are themselves (only idle polling possible) and that are not final: stuck
    stuck = [p for key, p in unfinished_keys.items() if succ.get(key) == {key}]
    return dict(states=len(seen), transitions=trans, finals=finals, deadlocks=deadlocks,
                worker_errors=[(p, e) for _, _, p, e in errors], max_depth=maxd, runs=runs, stuck=stuck)


def run_serial_schedule(parent_fn, capacity=None, seed=1, policy="parent-first"):
    """One complete execution under a fixed deterministic schedule (always the first enabled thread, or the last)."""
    world = World(capacity)
    out = {}
    with patched_parallel(world, seed) as PAR:
        world.S.spawn("parent", lambda: parent_fn(PAR, out))
        S = world.S
        with contextlib.redirect_stdout(io.StringIO()):
            S._switch_to("parent")
            n = 0
            while True:
                en = S.enabled()
                if not en:
                    break
                # avoid spinning on idle polls: prefer threads that are not idle-polling
                busy = [e for e in en if S.T[e].get("ready", lambda: True)()]
                if not busy:
                    break  # only idle pollers are left: nothing can make progress any more
                S._switch_to(busy[0] if policy == "parent-first" else busy[-1])
                n += 1
                if n > 100000:
                    S._cleanup()
                    raise HarnessError("serial schedule does not terminate")
            done = all(t["finished"] for t in S.T.values())
            excs = {k: t["exc"] for k, t in S.T.items() if t["exc"] is not None}
            S._cleanup()
    return out, done, excs


# --------------------------------------------------------------------------- learned local-step search
class _Sym:
    """symbolic global state: per-thread local ids, channel contents (message ids), event flag"""

    __slots__ = ("locals", "chans", "flag", "path")

    def __init__(self, locals_, chans, flag, path):
        self.locals, self.chans, self.flag, self.path = locals_, chans, flag, path

    def key(self):
        return (tuple(sorted(self.locals.items())), tuple(sorted(self.chans.items())), self.flag)

    def plain_key(self):
        # the key of the plain search (channels are implied by the histories)
        return (tuple(v[:7] for _, v in sorted(self.locals.items())), self.flag)


def _sym_enabled(G, name, capacity):
    L = G.locals[name]
    if L[3]:
        return False
    what, info = L[7]
    if what == "send":
        return capacity is None or len(G.chans.get(info[0], ())) < capacity
    if what == "recv":
        return bool(G.chans.get(info[0], ())) or (info[1] is not None and G.locals[info[1]][3])
    if what == "join":
        return G.locals[info[0]][3]
    if what == "wait":
        conns, blocking = info
        if not blocking:
            return True
        return any(G.chans.get(c, ()) or (o is not None and G.locals[o][3]) for c, o in conns)
    return True  # start, poll, event.set


def _sym_input(G, name):
    L = G.locals[name]
    what, info = L[7]
    if what == "recv":
        q = G.chans.get(info[0], ())
        return ("recv", q[0] if q else "EOF")
    if what == "poll":
        return ("poll", bool(G.chans.get(info[0], ())))
    if what == "wait":
        return ("wait", tuple(bool(G.chans.get(c, ())) or (o is not None and G.locals[o][3]) for c, o in info[0]))
    if what == "send":
        return ("send",)
    return (what,)


def explore_schedules_learned(parent_fn, capacity=None, seed=1, max_states=2000000, audit_every=97):
    """All interleavings by exploring a *learned* model of the real code: the effect of one thread's step from its local
    state (IPC history + pending operation) on a given input (message at the head of its pipe, poll result, event flag)
    is observed ONCE by a real execution and memoised; global states are then composed symbolically.  Every real
    execution first checks that the real world reached by the symbolic state's schedule carries exactly the local states
    and channel contents the model predicts (conformance), and every final state is executed for real to obtain the
    returned chains.  Sound under the assumption the plain search already makes: a process is a deterministic function
    of what it has received (plus the shutdown flag, which is part of every memo key)."""
    msg_ids = {}

    def mid(b):
        return msg_ids.setdefault(b, len(msg_ids))

    stats = dict(real_runs=0, conformance_checks=0)

    def real_run(path, step=None, want_outcome=False, G=None):
        """execute path (thread names) for real; optionally one more step by `step`; returns observations"""
        world = World(capacity)
        out = {}
        S = world.S
        with patched_parallel(world, seed) as PAR:
            S.spawn("parent", lambda: parent_fn(PAR, out))
            with contextlib.redirect_stdout(io.StringIO()):
                for nm in path:
                    if nm not in S.T or nm not in S.enabled():
                        S._cleanup()
                        raise HarnessError(f"learned model diverges from the real code: {nm} not enabled after {len(path)} steps")
                    S._switch_to(nm)
                stats["real_runs"] += 1
                res = {}
                if G is not None:
                    # conformance: the real world must be in the state the model predicts
                    real_locals = {n: S.local_id(n) for n in S.T}
                    real_chans = {c.cid: tuple(mid(b) for b in c.inbox) for c in world.conns if c.inbox}
                    if real_locals != G.locals or real_chans != {k: v for k, v in G.chans.items() if v} or S.event_flag != G.flag:
                        S._cleanup()
                        raise HarnessError("learned model diverges from the real code: predicted state differs from the state reached by the same schedule")
                    stats["conformance_checks"] += 1
                if step is not None:
                    del world.effects[:]
                    before = set(S.T)
                    S._switch_to(step)
                    res["local"] = S.local_id(step)
                    res["effects"] = [(e[0], e[1], mid(e[2])) if e[0] == "send" else e for e in world.effects]
                    res["spawned"] = {n: S.local_id(n) for n in S.T if n not in before}
                    t = S.T[step]
                    res["exc"] = None if t["exc"] is None else f"{type(t['exc']).__name__}: {t['exc']}"
                    if isinstance(t["exc"], HarnessError):
                        S._cleanup()
                        raise t["exc"]
                if want_outcome:
                    res["finished"] = all(t["finished"] for t in S.T.values())
                    res["outcome"] = out.get("outcome")
                S._cleanup()
        return res

    memo = {}
    G0 = _Sym({"parent": ("parent", 0, hashlib.sha1().hexdigest()[:16], False, False, 0, False, ("start", ()))}, {}, False, [])
    seen = {G0.key(): G0}
    queue = deque([G0])
    trans = 0
    finals = {}
    deadlocks = []
    errors = {}
    stuck = []
    maxd = 0
    it = 0
    while queue:
        # breadth-first (short schedules first), with periodic depth-first dives so that final states - and with them a
        # dependence of the outcome on the schedule - are met early instead of after the whole graph
        it += 1
        G = queue.pop() if it % 400 < 100 else queue.popleft()
        names = [n for n in sorted(G.locals, key=lambda n: (n != "parent", n)) if _sym_enabled(G, n, capacity)]
        if not names:
            if all(L[3] for L in G.locals.values()):
                r = real_run(G.path, want_outcome=True, G=G)
                if not r["finished"]:
                    raise HarnessError("learned model: final state is not final in the real execution")
                finals.setdefault(r["outcome"], list(G.path))
                if len(finals) > 1:
                    break  # two different outcomes for one script: established, no need to enumerate the rest
            else:
                deadlocks.append((list(G.path), [(n, L[7][0]) for n, L in G.locals.items() if not L[3]]))
                if len(deadlocks) >= 3:
                    break
            continue
        succ_keys = set()
        for nm in names:
            mk = (G.locals[nm], _sym_input(G, nm), G.flag)
            if mk not in memo:
                memo[mk] = real_run(G.path, step=nm, G=G)
            m = memo[mk]
            locals_ = dict(G.locals)
            locals_[nm] = m["local"]
            locals_.update(m["spawned"])
            chans = dict(G.chans)
            flag = G.flag
            for e in m["effects"]:
                if e[0] == "send":
                    chans[e[1]] = chans.get(e[1], ()) + (e[2],)
                elif e[0] == "recv":
                    chans[e[1]] = chans[e[1]][1:]
                    if not chans[e[1]]:
                        del chans[e[1]]
                elif e[0] == "set":
                    flag = True
            if m["exc"] is not None:
                errors.setdefault(m["exc"], (list(G.path) + [nm], {nm: m["exc"]}))
            H = _Sym(locals_, chans, flag, G.path + [nm])
            k = H.key()
            trans += 1
            succ_keys.add(k)
            if k not in seen:
                seen[k] = H
                maxd = max(maxd, len(H.path))
                queue.append(H)
                if audit_every and len(seen) % audit_every == 0:
                    real_run(H.path, G=H)  # audit: a composed state must be what the real code reaches by the same schedule
                if len(seen) > max_states:
                    raise HarnessError(f"state cap {max_states} exceeded")
        if succ_keys == {G.key()}:
            stuck.append(list(G.path))
    return dict(states=len(seen), transitions=trans, finals=finals, deadlocks=deadlocks, worker_errors=list(errors.values()),
                max_depth=maxd, runs=stats["real_runs"], stuck=stuck, learned_steps=len(memo), conformance_checks=stats["conformance_checks"],
                plain_keys=len({G.plain_key() for G in seen.values()}))
