"""C11 - GP model-selection scores and their gradients are what they claim to be.

Engine D (bounded-exhaustive lattices) + scripted module-global ``random`` for the multi-start clause.

scores   : data designs x noise x kernel x mean x hyper-parameter lattice; 50-digit reference
           (mc.ref.gpref_b): log N(y; m, K+S), leave-one-out by actually deleting each point and
           predicting it from the rest, Richardson gradients of the 50-digit scores.
select   : automatic selection with optimizer="bfgs": the module global ``random`` of
           inference.gp.regression is replaced by a script which places the random starts on every
           element of ({0, 1/2, 1-}^p)^(starts-1); result in hp_bounds and score >= score(centre).
select_nnf: the same evaluator and oracle on near-noise-free smooth data (tiny y_err, near-duplicate / clustered inputs,
           estimated and wide user-supplied bounds), where L-BFGS-B legitimately ends some runs abnormally (ill-conditioned
           K + S, numerically noisy score); the termination flags are observed (pass-through) for the tags only.
diffev   : optimizer="diffev" under numpy.random.seed(VERIF_SEED): result in hp_bounds only.
input_forms: "reject or be right" - y_err / y_cov / y / x handed to the constructor in other container forms ((N,1), (1,N), lists,
           tuples, scalars / 0-d / length-1 for a common error, Fortran order, strided views, extra axes): a form the constructor
           ACCEPTS must give all scores, gradients, predictions and leave-one-out predictions of the canonical flat-array form
           (forms/<argument>/<form>/accepted-but-<operation>-<part>-differs-from-canonical-form, ../accepted-but-<operation>-raises:<Type>);
           a form refused with ValueError / TypeError is fine and counted as rejected in the tags.
theta_forms: "reject or be right" for the hyper-parameter VECTOR: every score / gradient / leave-one-out method (and set_hyperparameters followed by
           predictions) given theta as integer-dtype arrays with integer values, float32, lists, tuples, non-contiguous / read-only views must return
           what it returns for the equivalent float64 array (theta-forms/<form>/<operation>-<part>-differs-from-float64-array) and leave it unchanged.
           scaled/..: the same evaluator and oracles on the data in other units (y, y_err x 1e-9, 1e-6, 1e6; x x 1e-6, 1e6 and combinations), hyper-parameters in the same units.
large_n  : n in {100, 300, 600} accurately measured points (errors 1e-6..1e-2 of the signal, 1-D): value path and value-and-gradient path of both
           scores finite, equal to each other and to a float64 numpy reference within n eps cond bounds (large-n/<score>/<path>/not-finite,
           large-n/<score>/value-path-differs-from-gradient-path, large-n/<score>/<path>-vs-reference).
"""
import itertools
import math

import numpy as np

from mc.core import HarnessError, LibFailure, fail, lib

LEVEL = "exploration"

PHI = 0.6180339887498949
ONE_MINUS = float(np.nextafter(1.0, 0.0))
ALPHABET = (0.0, 0.5, ONE_MINUS)
COND_MAX = 1e10
RHO_MAX = 1e-10


# ----------------------------------------------------------------------- designs
def frac(v):
    return v - math.floor(v)


def halton(i, b):
    f, r = 1.0, 0.0
    while i > 0:
        f /= b
        r += f * (i % b)
        i //= b
    return r


AFFINE = [(1.0, 0.0), (3.5, -2.0), (0.2, 5.0), (10.0, 100.0)]


def make_design(n, d, kind, seed, noise):
    """deterministic design; returns a JSON-able dict"""
    sc, sh = AFFINE[seed % len(AFFINE)]
    off = 1 + (seed % 5)
    if d == 1:
        if kind == "regular":
            u = [[i / (n - 1)] for i in range(n)]
        elif kind == "irregular":
            u = [[v] for v in sorted(frac((i + off) * PHI) for i in range(n))]
        elif kind == "permuted":
            u = [[frac((i + off) * PHI)] for i in range(n)]
        elif kind == "clustered":
            base = sorted(frac((i + off) * PHI) for i in range((n + 1) // 2))
            u = []
            for b in base:
                u.append([b])
                if len(u) < n:
                    u.append([b + 0.013])
        else:
            raise HarnessError(kind)
    else:
        if kind == "regular":
            k = 2 if n <= 5 else 3
            u = [[(i % k) / (k - 1) + 0.07 * (i // k), (i // k) / max(1, (n - 1) // k)] for i in range(n)]
        elif kind in ("irregular", "permuted"):
            u = [[halton(i + off, 2), halton(i + off, 3)] for i in range(n)]
            if kind == "irregular":
                u.sort()
        elif kind == "clustered":
            u = []
            for i in range((n + 1) // 2):
                b = [halton(i + off, 2), halton(i + off, 3)]
                u.append(b)
                if len(u) < n:
                    u.append([b[0] + 0.011, b[1] - 0.017])
        else:
            raise HarnessError(kind)
    X = [[sh + sc * (0.5 ** k) * p[k] for k in range(d)] for p in u]
    y = [0.8 + math.sin(2.5 * p[0]) + 0.4 * p[-1] ** 2 + 0.3 * math.cos(7.0 * (i + off)) for i, p in enumerate(u)]
    des = {"X": X, "y": y, "n": n, "d": d, "kind": kind, "noise": noise}
    if noise in ("y_err", "y_cov"):
        e = [0.05 + 0.25 * frac((i + 2 + off) * PHI * PHI) for i in range(n)]
        des["y_err"] = e
        if noise == "y_cov":
            des["y_cov"] = [[e[i] * e[j] * (0.4 ** abs(i - j)) for j in range(n)] for i in range(n)]
    return des


SMOOTH_KINDS = ("regular", "irregular", "neardup", "clustered")


def make_smooth_design(n, d, kind, seed, level):
    """near-noise-free smooth data: y is a smooth function of the position, perturbed by a bounded wiggle of the size `level`
    of the stated errors (level 1e-2 .. 1e-6 of the data range).  At the best hyper-parameters K + S is then ill-conditioned
    (cond ~ level^-2), the score is numerically noisy there and L-BFGS-B legitimately ends some runs with an abnormal
    line-search termination.  "neardup": pairs of inputs 1e-3 of the range apart, "clustered": pairs 0.013 apart."""
    sc, sh = AFFINE[seed % len(AFFINE)]
    off = 1 + (seed % 5)
    if kind not in SMOOTH_KINDS:
        raise HarnessError(kind)
    gap = {"neardup": 1e-3, "clustered": 0.013}.get(kind)
    if d == 1:
        if kind == "regular":
            u = [[i / (n - 1)] for i in range(n)]
        elif kind == "irregular":
            u = [[v] for v in sorted(frac((i + off) * PHI) for i in range(n))]
        else:
            u = []
            for b in sorted(frac((i + off) * PHI) for i in range((n + 1) // 2)):
                u.append([b])
                if len(u) < n:
                    u.append([b + gap])
    else:
        if kind == "regular":
            k = 3 if n <= 9 else 4
            u = [[(i % k) / (k - 1) + 0.07 * (i // k), (i // k) / max(1, (n - 1) // k)] for i in range(n)]
        elif kind == "irregular":
            u = sorted([halton(i + off, 2), halton(i + off, 3)] for i in range(n))
        else:
            u = []
            for i in range((n + 1) // 2):
                b = [halton(i + off, 2), halton(i + off, 3)]
                u.append(b)
                if len(u) < n:
                    u.append([b[0] + gap, b[1] - gap])
    X = [[sh + sc * (0.5**k) * p[k] for k in range(d)] for p in u]
    y = [0.8 + math.sin(6.0 * p[0]) + p[-1] + level * math.cos(7.0 * (i + off)) for i, p in enumerate(u)]
    e = [level * (1.0 + 0.5 * frac((i + 2 + off) * PHI * PHI)) for i in range(n)]
    return {"X": X, "y": y, "n": n, "d": d, "kind": kind, "noise": "y_err", "y_err": e, "label": "smooth,x=%s,yerr=%g" % (kind, level)}


# data scales (units of y and of x) far from 1: (xs, ys), single axes first, nearest to 1 first, then combinations
DATA_SCALES = [(1.0, 1e-6), (1.0, 1e6), (1e-6, 1.0), (1e6, 1.0), (1.0, 1e-9), (1e-6, 1e-6), (1e6, 1e6), (1e6, 1e-9), (1e-6, 1e6)]


def scale_design(des, xs, ys):
    """the same data in other units: x -> xs x, y -> ys y, y_err -> ys y_err, y_cov -> ys^2 y_cov (the hyper-parameter lattice is
    built from the ranges and the spread of the design it is given, so it is expressed in the new units too)"""
    out = dict(des)
    out["X"] = [[float(xs) * v for v in row] for row in des["X"]]
    out["y"] = [float(ys) * v for v in des["y"]]
    if "y_err" in des:
        out["y_err"] = [float(ys) * v for v in des["y_err"]]
    if "y_cov" in des:
        out["y_cov"] = [[float(ys) * float(ys) * v for v in row] for row in des["y_cov"]]
    out["scaled"] = [float(xs), float(ys)]
    return out


def design_scales(des):
    X = np.array(des["X"], dtype=float)
    y = np.array(des["y"], dtype=float)
    return {"sy": float(y.std()), "ybar": float(y.mean()), "rng": (X.max(axis=0) - X.min(axis=0)).tolist(), "xmin": X.min(axis=0).tolist()}


# ------------------------------------------------------- hyper-parameter lattice
LS_MULT = {"none": (0.08, 0.25, 0.7), "y_err": (0.1, 0.3, 0.9), "y_cov": (0.1, 0.3, 0.9), "inv": (0.15, 0.5, 1.5)}  # "inv": used by checks/c17.py
AMP_OFF = (-1.0, 0.0, 1.2)
RQ_ALPHA = (-1.0, 1.0, 3.0)
WN_OFF = (-4.0, -2.0, -0.5)
CP_PAT = ((0.25, 0.15), (0.5, 0.02), (0.8, 0.5))
MEAN_C = (-0.7, 0.1, 1.3)
MEAN_L = (-0.8, 0.0, 0.6)
MEAN_Q = (0.5, 0.0, -0.9)


def kernel_theta(spec, pat, s, noise, rot=0):
    """pat = (amp index, length-scale index, extra index)"""
    ia, il, ie = pat
    d = len(s["rng"])
    if spec == "SE" or spec == "RQ":
        th = [math.log(s["sy"]) + AMP_OFF[(ia + rot) % 3]]
        if spec == "RQ":
            th.append(RQ_ALPHA[(ie + rot) % 3])
        for k in range(d):
            th.append(math.log(s["rng"][k] * LS_MULT[noise][(il + rot) % 3]) + 0.1 * k)
        return th
    if spec == "WN":
        return [math.log(s["sy"]) + WN_OFF[(ie + rot) % 3]]
    if spec[0] == "+":
        th = []
        for j, sub in enumerate(spec[1:]):
            th += kernel_theta(sub, pat, s, noise, rot + j)
        return th
    if spec[0] == "CP":
        axis = spec[1]
        th = []
        for j, sub in enumerate(spec[2:]):
            th += kernel_theta(sub, pat, s, noise, rot + j)
        for j in range(len(spec) - 3):
            c, w = CP_PAT[(ie + j) % 3]
            th += [s["xmin"][axis] + c * s["rng"][axis], w * s["rng"][axis]]
        return th
    raise HarnessError(str(spec))


def has_extra(spec):
    if spec in ("RQ", "WN"):
        return True
    if spec == "SE":
        return False
    if spec[0] == "CP":
        return True
    return any(has_extra(s) for s in spec[1:])


def mean_theta(mspec, im, s):
    d = len(s["rng"])
    th = [s["ybar"] + MEAN_C[im] * s["sy"]]
    if mspec in ("L", "Q"):
        th += [MEAN_L[(im + k) % 3] * s["sy"] / s["rng"][k] for k in range(d)]
    if mspec == "Q":
        th += [MEAN_Q[(im + k) % 3] * s["sy"] / s["rng"][k] ** 2 for k in range(d)]
    return th


def hp_lattice(kspec, mspec, des, sub=None):
    """cartesian product of {low, mid, high} per block (mean, amplitude, length-scale, extra);
    sub=(3, r): the sub-lattice with (sum of indices) % 3 == r (a third);
    sub=(9, r): the Latin sub-lattice (im + 3 ia) == (r - 2 (il + 3 ie)) % 9 (a ninth: every (mean, amplitude)
    pair and every (length-scale, extra) pair exactly once)"""
    s = design_scales(des)
    ext = range(3) if has_extra(kspec) else range(1)
    out = []
    for im, ia, il, ie in itertools.product(range(3), range(3), range(3), ext):
        if sub is not None:
            if sub[0] == 3 and (im + ia + il + ie) % 3 != sub[1] % 3:
                continue
            if sub[0] == 9 and (im + 3 * ia) != (sub[1] - 2 * (il + 3 * ie)) % 9:
                continue
        out.append(mean_theta(mspec, im, s) + kernel_theta(kspec, (ia, il, ie), s, des["noise"]))
    return out


# ----------------------------------------------------------------- library objects
def kname(spec):
    if isinstance(spec, str):
        return spec
    if spec[0] == "+":
        return "+".join(kname(s) for s in spec[1:])
    return "CP(" + ",".join(kname(s) for s in spec[2:]) + ")"


def lib_kernel(spec):
    from inference.gp import ChangePoint, RationalQuadratic, SquaredExponential, WhiteNoise

    if spec == "SE":
        return SquaredExponential()
    if spec == "RQ":
        return RationalQuadratic()
    if spec == "WN":
        return WhiteNoise()
    if spec[0] == "+":
        k = lib_kernel(spec[1])
        for s in spec[2:]:
            k = k + lib_kernel(s)
        return k
    if spec[0] == "CP":
        return ChangePoint(kernels=[lib_kernel(s) for s in spec[2:]], axis=spec[1])
    raise HarnessError(str(spec))


def lib_mean(mspec):
    from inference.gp.mean import ConstantMean, LinearMean, QuadraticMean

    return {"C": ConstantMean, "L": LinearMean, "Q": QuadraticMean}[mspec]()


def param_classes(kspec, mspec, d):
    """a class label for every hyper-parameter (used in failure keys)"""
    from mc.ref import gpref_b as G

    def kc(spec, pre):
        if isinstance(spec, str):
            return [pre + spec] * G.kernel_n_params(spec, d)
        if spec[0] == "+":
            out = []
            for s in spec[1:]:
                out += kc(s, pre)
            return out
        out = []
        for s in spec[2:]:
            out += kc(s, pre + "CP.")
        out += [pre + "CP.changepoint"] * (2 * (len(spec) - 3))
        return out

    return ["mean-" + mspec] * G.mean_n_params(mspec, d) + kc(kspec, "")


def noise_kwargs(des):
    if des["noise"] == "y_err":
        return {"y_err": np.array(des["y_err"], dtype=float)}
    if des["noise"] == "y_cov":
        return {"y_cov": np.array(des["y_cov"], dtype=float)}
    return {}


def noise_matrix(des):
    n = des["n"]
    if des["noise"] == "y_err":
        from mc.ref import gpref_b as G

        return [[(G.M(des["y_err"][i]) ** 2 if i == j else G.ZERO) for j in range(n)] for i in range(n)]
    if des["noise"] == "y_cov":
        return des["y_cov"]
    return None


def measure_rho(gp, kspec, thc, X, fails, ctx):
    """relative diagonal stabiliser of the model's data covariance: (K_ii - k(x_i,x_i)) / k_smooth(x_i,x_i)"""
    from mc.ref import gpref_b as G

    Xm = G.mmat(X)
    d = len(X[0])
    k = G.compile_kernel(kspec, G.mvec(thc), d)
    with lib("build_covariance"):
        Kc = np.asarray(gp.cov.build_covariance(np.array(thc, dtype=float)), dtype=float)
    rho = []
    worst = 0.0
    for i, x in enumerate(Xm):
        ks, kd = k(x, x, True)
        r = (G.M(Kc[i, i]) - ks - kd) / ks
        floor = -8 * G.EPS * float((ks + kd) / ks)
        rf = float(r)
        if rf < floor or rf > RHO_MAX:
            worst = max(worst, abs(rf))
        rho.append(max(rf, 0.0))
    if worst > 0:
        fails.append(fail("jitter/%s/outside-documented-range" % kname(kspec), "relative diagonal stabiliser %.3g not in [0, %g]" % (worst, RHO_MAX), **ctx))
        rho = [min(max(r, 0.0), RHO_MAX) for r in rho]
    return rho


def either_constant(value, ref, const, tol):
    """the additive -k/2 log 2pi constant may be kept or dropped; nothing else"""
    e0 = abs(value - ref)
    e1 = abs(value - (ref - const))
    return min(e0, e1), (0 if e0 <= e1 else 1)


# ------------------------------------------------------------------ evaluator: scores
def ev_scores(case):
    from inference.gp import GpRegressor
    from mc.ref import gpref_b as G

    des = case["design"]
    kspec, mspec = case["kernel"], case["mean"]
    n, d = des["n"], des["d"]
    X = np.array(des["X"], dtype=float)
    y = np.array(des["y"], dtype=float)
    S = noise_matrix(des)
    pcls = param_classes(kspec, mspec, d)
    kn = kname(kspec)
    cfg = "k=%s,m=%s,d=%d,n=%d,noise=%s,x=%s" % (kn, mspec, d, n, des["noise"], des["kind"])
    scaled = des.get("scaled")
    if scaled:
        cfg = "scaled:x*%g,y*%g," % tuple(scaled) + cfg
    fails, tags, slack, skipped = [], set(), {}, {}
    nev = 0
    do_grad = case.get("grad", True)
    pm = G.mean_n_params(mspec, d)
    const = 0.5 * n * math.log(2 * math.pi)

    def upd(name, err, tol):
        r = float(err) / float(tol) if tol > 0 else (0.0 if err == 0 else float("inf"))
        if r > slack.get(name, -1.0):
            slack[name] = r
        return r

    gp = None
    conventions = set()
    sample = None
    for theta in case["thetas"]:
        ctx = {"config": cfg, "theta": list(theta)}
        th = np.array(theta, dtype=float)
        if gp is None:
            with lib("construct"):
                gp = GpRegressor(X.copy(), y.copy(), kernel=lib_kernel(kspec), mean=lib_mean(mspec), hyperpars=th.copy(), **noise_kwargs(des))
            if gp.n_hyperpars != len(theta):
                raise HarnessError("hyper-parameter layout: model has %d, reference %d" % (gp.n_hyperpars, len(theta)))
        rho = measure_rho(gp, kspec, theta[pm:], des["X"], fails, ctx)
        ref = G.LinGauss(des["X"], des["y"], kspec, mspec, S=S, rho=rho)
        try:
            sc = ref.scores(theta, loo=True)
        except G.NotPD:
            skipped["reference covariance not positive definite"] = skipped.get("reference covariance not positive definite", 0) + 1
            continue
        alpha = ref.alpha(sc)
        P = G.Pert(G.tofloat(sc["C"]), G.tofloat(sc["r"]), G.tofloat(alpha), rabs=ref.residual_rounding_scale(theta))
        if not P.ok or P.cond > COND_MAX:
            skipped["cond(K+S) > 1e10"] = skipped.get("cond(K+S) > 1e10", 0) + 1
            continue
        tags.add(cfg + ",cond=1e%d" % int(math.log10(P.cond)))
        lml_ref, loo_ref = float(sc["lml"]), float(sc["loo"])

        # ---- values
        with lib("marginal_likelihood"):
            v1 = float(gp.marginal_likelihood(th.copy()))
        with lib("marginal_likelihood_gradient"):
            v2, g2 = gp.marginal_likelihood_gradient(th.copy())
        with lib("loo_likelihood"):
            l1 = float(gp.loo_likelihood(th.copy()))
        with lib("loo_likelihood_gradient"):
            l2, gl2 = gp.loo_likelihood_gradient(th.copy())
        with lib("loo_predictions"):
            gp.set_hyperparameters(th.copy())
            pmu, psd = gp.loo_predictions()
        nev += 5
        v2, l2 = float(v2), float(l2)
        g2 = np.asarray(g2, dtype=float)
        gl2 = np.asarray(gl2, dtype=float)
        pmu = np.asarray(pmu, dtype=float)
        psd = np.asarray(psd, dtype=float)

        tol = P.tol_lml(lml_ref)
        e, cv = either_constant(v1, lml_ref, const, tol)
        conventions.add(("lml", cv))
        if upd("lml_value", e, tol) > 1 or not np.isfinite(v1):
            fails.append(fail("lml/noise=%s/value" % des["noise"], "marginal_likelihood=%r, log N(y;m,K+S)+n/2 log2pi=%r (tol %.3g)" % (v1, lml_ref, tol), observed=v1, expected=lml_ref, tol=tol, **ctx))
        e = abs(v2 - v1)
        if upd("lml_gradvariant_value", e, 2 * tol) > 1 or not np.isfinite(v2):
            fails.append(fail("lml/noise=%s/grad-variant-value" % des["noise"], "marginal_likelihood_gradient value %r != marginal_likelihood %r (tol %.3g)" % (v2, v1, 2 * tol), observed=v2, expected=v1, **ctx))
        e, _ = either_constant(v2, lml_ref, const, tol)
        if upd("lml_gradvariant_value_ref", e, tol) > 1:
            fails.append(fail("lml/noise=%s/grad-variant-value-vs-reference" % des["noise"], "value %r, reference %r (tol %.3g)" % (v2, lml_ref, tol), observed=v2, expected=lml_ref, **ctx))

        tol = P.tol_loo(loo_ref)
        e, cv = either_constant(l1, loo_ref, const, tol)
        conventions.add(("loo", cv))
        if upd("loo_value", e, tol) > 1 or not np.isfinite(l1):
            fails.append(fail("loo/noise=%s/value" % des["noise"], "loo_likelihood=%r, sum of refit log-densities=%r (tol %.3g)" % (l1, loo_ref, tol), observed=l1, expected=loo_ref, tol=tol, **ctx))
        e = abs(l2 - l1)
        if upd("loo_gradvariant_value", e, 2 * tol) > 1 or not np.isfinite(l2):
            fails.append(fail("loo/noise=%s/grad-variant-value" % des["noise"], "loo_likelihood_gradient value %r != loo_likelihood %r (tol %.3g)" % (l2, l1, 2 * tol), observed=l2, expected=l1, **ctx))
        e, _ = either_constant(l2, loo_ref, const, tol)
        if upd("loo_gradvariant_value_ref", e, tol) > 1:
            fails.append(fail("loo/noise=%s/grad-variant-value-vs-reference" % des["noise"], "value %r, reference %r (tol %.3g)" % (l2, loo_ref, tol), observed=l2, expected=loo_ref, **ctx))

        # ---- leave-one-out predictions = refits
        rmu = G.tofloat(sc["loo_mu"])
        rsd = np.sqrt(G.tofloat(sc["loo_var"]))
        tmu, tsd = P.tol_loo_pred(y)
        if pmu.shape != (n,) or psd.shape != (n,):
            fails.append(fail("loo/noise=%s/pred-shape" % des["noise"], "shapes %s %s" % (pmu.shape, psd.shape), **ctx))
        else:
            r = max(upd("loo_pred_mean", abs(pmu[i] - rmu[i]), tmu[i]) for i in range(n))
            if r > 1 or not np.all(np.isfinite(pmu)):
                fails.append(fail("loo/noise=%s/pred-mean" % des["noise"], "loo_predictions mean %s, refit %s" % (pmu.tolist(), rmu.tolist()), observed=pmu.tolist(), expected=rmu.tolist(), **ctx))
            r = max(upd("loo_pred_sigma", abs(psd[i] - rsd[i]), tsd[i]) for i in range(n))
            if r > 1 or not np.all(np.isfinite(psd)):
                fails.append(fail("loo/noise=%s/pred-sigma" % des["noise"], "loo_predictions sigma %s, refit %s" % (psd.tolist(), rsd.tolist()), observed=psd.tolist(), expected=rsd.tolist(), **ctx))

        # ---- gradients
        if do_grad:
            units = [None] * pm + G.kernel_param_units(kspec, list(theta[pm:]), d)
            # scaled data: the difference step of the reference is 1e-10 natural units of the parameter (the change-point width for a location / width)
            gr = ref.gradients(theta, loo=True, h=[1e-10 * (u_ or 1.0) for u_ in units]) if scaled else ref.gradients(theta, loo=True)
            if g2.shape != (len(theta),) or gl2.shape != (len(theta),):
                fails.append(fail("grad/%s/shape" % kn, "gradient shapes %s %s for %d hyper-parameters" % (g2.shape, gl2.shape, len(theta)), **ctx))
            else:
                for j in range(len(theta)):
                    gl, go = float(gr["lml"][j]), float(gr["loo"][j])
                    t1 = P.tol_grad_lml(gr["dC"][j], gr["dmu"][j], gr["djit"][j]) + 1e-6 * gr["err"][j]
                    t2 = P.tol_grad_loo(gr["dC"][j], gr["dmu"][j], gr["djit"][j]) + 1e-6 * gr["err"][j]
                    if units[j] is not None:
                        t1 += P.grad_floor("lml", units[j])
                        t2 += P.grad_floor("loo", units[j])
                    if gr["err"][j] > 1e-12 * (abs(gl) + abs(go) + 1e-300) and gr["err"][j] > 1e-14:
                        raise HarnessError("Richardson extrapolation not converged: %r" % gr["err"][j])
                    if upd("lml_gradient", abs(g2[j] - gl), t1) > 1 or not np.isfinite(g2[j]):
                        fails.append(fail("lml/%s/gradient" % pcls[j], "d LML / d theta[%d] = %r, true %r (tol %.3g)" % (j, g2[j], gl, t1), observed=float(g2[j]), expected=gl, index=j, tol=t1, **ctx))
                    if upd("loo_gradient", abs(gl2[j] - go), t2) > 1 or not np.isfinite(gl2[j]):
                        fails.append(fail("loo/%s/gradient" % pcls[j], "d LOO / d theta[%d] = %r, true %r (tol %.3g)" % (j, gl2[j], go, t2), observed=float(gl2[j]), expected=go, index=j, tol=t2, **ctx))
        if not np.array_equal(th, np.array(theta, dtype=float)):
            fails.append(fail("scores/theta-modified", "hyper-parameter vector changed by the call", **ctx))
        sample = {"config": cfg, "theta": list(theta), "lml": v1, "lml_ref": lml_ref, "loo": l1, "loo_ref": loo_ref, "cond": P.cond}
    if len({c for c in conventions if c[0] == "lml"}) > 1 or len({c for c in conventions if c[0] == "loo"}) > 1:
        fails.append(fail("scores/constant-convention-not-fixed", "the additive constant differs between hyper-parameter vectors", config=cfg))
    seen = {}
    out = []
    for f in fails:  # one representative per key (the first = simplest)
        if f["key"] not in seen:
            seen[f["key"]] = 1
            out.append(f)
    if scaled:
        for f in out:
            f["key"] = "scaled/" + f["key"]
        slack = {"scaled/" + k_: v_ for k_, v_ in slack.items()}
        skipped = {"scaled: " + k_: v_ for k_, v_ in skipped.items()}
    return {"fails": out, "n": nev, "tags": tags, "slack": slack, "skipped": skipped, "sample": sample}


# ------------------------------------------------------------------ evaluator: selection
class Script:
    """stand-in for numpy.random.random: hands out the scripted placements sequentially"""

    def __init__(self, values):
        self.values = list(values)
        self.pos = 0
        self.overrun = False

    def __call__(self, size=None):
        k = 1 if size is None else int(np.prod(size))
        out = []
        for _ in range(k):
            if self.pos >= len(self.values):
                self.overrun = True
                out.append(self.values[self.pos % len(self.values)])
            else:
                out.append(self.values[self.pos])
            self.pos += 1
        a = np.array(out, dtype=float)
        return float(a[0]) if size is None else a.reshape(size)


def build_for_selection(case, **kw):
    from inference.gp import GpRegressor

    des = case["design"]
    X = np.array(des["X"], dtype=float)
    y = np.array(des["y"], dtype=float)
    kern = lib_kernel(case["kernel"])
    mean = lib_mean(case["mean"])
    if case.get("user_bounds"):
        # bounds advertised by the user instead of estimated from the data (SE kernel + constant mean only)
        from inference.gp import SquaredExponential
        from inference.gp.mean import ConstantMean

        if case["kernel"] != "SE" or case["mean"] != "C":
            raise HarnessError("user bounds are only scripted for SE + constant mean")
        s = design_scales(des)
        if case["user_bounds"] == "wide":  # several e-foldings either side of every natural scale
            kb = [(math.log(s["sy"]) - 3.0, math.log(s["sy"]) + 3.0)] + [(math.log(0.01 * r), math.log(10.0 * r)) for r in s["rng"]]
            mb = [(s["ybar"] - 5 * s["sy"], s["ybar"] + 5 * s["sy"])]
        else:
            kb = [(math.log(s["sy"]) - 1.0, math.log(s["sy"]) + 1.5)] + [(math.log(0.05 * r), math.log(2.0 * r)) for r in s["rng"]]
            mb = [(s["ybar"] - s["sy"], s["ybar"] + 2 * s["sy"])]
        kern = SquaredExponential(hyperpar_bounds=kb)
        mean = ConstantMean(hyperpar_bounds=mb)
    return GpRegressor(X, y, kernel=kern, mean=mean, cross_val=bool(case["cross_val"]), **noise_kwargs(des), **kw)


def score_margin_tolerance(case, gp, theta, centre):
    """derived tolerance for comparing the scores at two points (sum of the value tolerances)"""
    from mc.ref import gpref_b as G

    des = case["design"]
    d = des["d"]
    pm = G.mean_n_params(case["mean"], d)
    tot = 0.0
    refs = []
    for th in (theta, centre):
        junk = []
        rho = measure_rho(gp, case["kernel"], list(th[pm:]), des["X"], junk, {})
        ref = G.LinGauss(des["X"], des["y"], case["kernel"], case["mean"], S=noise_matrix(des), rho=rho)
        try:
            sc = ref.scores(list(th), loo=bool(case["cross_val"]))
        except G.NotPD:
            return float("inf"), None
        P = G.Pert(G.tofloat(sc["C"]), G.tofloat(sc["r"]), G.tofloat(ref.alpha(sc)), rabs=ref.residual_rounding_scale(list(th)))
        if not P.ok:
            return float("inf"), None
        if case["cross_val"]:
            tot += P.tol_loo(float(sc["loo"]))
            refs.append(float(sc["loo"]))
        else:
            tot += P.tol_lml(float(sc["lml"]))
            refs.append(float(sc["lml"]))
    return tot, refs


class Spy:
    """pass-through observer of the optimiser the model calls: records (termination flag, final cost) of every run.
    Observation only - it is used for the tags / the sample, never by the oracle."""

    def __init__(self, fn):
        self.fn = fn
        self.runs = []

    def __call__(self, *a, **k):
        r = self.fn(*a, **k)
        try:
            self.runs.append((int(r[2]["warnflag"]), float(r[1])))
        except Exception:
            self.runs.append((None, None))
        return r


def ev_select(case):
    import inference.gp.regression as R
    from mc.ref import gpref_b as G

    des = case["design"]
    d = des["d"]
    p = G.mean_n_params(case["mean"], d) + G.kernel_n_params(case["kernel"], d)
    starts = case["n_starts"] if case["n_starts"] is not None else int(2 * math.sqrt(p)) + 1
    nrand = starts - 1
    placements = list(itertools.product(ALPHABET, repeat=p))
    prefix = case.get("prefix", [])
    crit = "loo" if case["cross_val"] else "lml"
    cfg = "k=%s,m=%s,d=%d,n=%d,noise=%s,crit=%s,starts=%s" % (kname(case["kernel"]), case["mean"], d, des["n"], des["noise"], crit, "default" if case["n_starts"] is None else case["n_starts"])
    cfg += ",bounds=%s" % (("user-wide" if case["user_bounds"] == "wide" else "user") if case.get("user_bounds") else "estimated")
    regime = ""
    if des.get("label"):
        cfg += "," + des["label"]
        regime = ",near-noise-free"
    if case.get("tuples") is not None:
        tuples = [tuple(t) for t in case["tuples"]]
    else:
        tuples = [tuple(prefix) + rest for rest in itertools.product(range(len(placements)), repeat=nrand - len(prefix))]
    fails, tags, slack = [], set(), {}
    nev = 0
    worst = None
    distinct = set()
    orig = R.random
    orig_opt = getattr(R, "fmin_l_bfgs_b", None)
    n_abnormal = n_abnormal_best = 0
    try:
        for tup in tuples:
            script = Script([v for i in tup for v in placements[i]])
            R.random = script
            spy = Spy(orig_opt) if orig_opt is not None else None
            if spy is not None:
                R.fmin_l_bfgs_b = spy
            try:
                with lib("GpRegressor-bfgs"):
                    gp = build_for_selection(case, optimizer="bfgs", n_starts=case["n_starts"])
            finally:
                R.random = orig
                if spy is not None:
                    R.fmin_l_bfgs_b = orig_opt
            nev += 1
            if spy is not None and spy.runs and all(f is not None for f, _ in spy.runs):
                if any(f != 0 for f, _ in spy.runs):
                    n_abnormal += 1
                    if any(f == 0 for f, _ in spy.runs) and min(spy.runs, key=lambda r: r[1])[0] != 0:
                        n_abnormal_best += 1
            if script.pos < len(script.values) or script.pos == 0:
                raise HarnessError("seam: the model drew %d uniform numbers, the script holds %d - the random starts are not drawn from the scripted module global" % (script.pos, len(script.values)))
            if script.overrun:
                tags.add("script-overrun")
            theta = np.asarray(gp.hyperpars, dtype=float)
            lo = np.array([b[0] for b in gp.hp_bounds], dtype=float)
            hi = np.array([b[1] for b in gp.hp_bounds], dtype=float)
            ctx = {"config": cfg, "starts": [list(placements[i]) for i in tup], "theta": theta.tolist(), "bounds": [lo.tolist(), hi.tolist()]}
            if spy is not None:
                ctx["optimiser_runs_flag_cost"] = [list(r) for r in spy.runs]
            if theta.shape != lo.shape or not np.all(np.isfinite(theta)) or np.any(theta < lo) or np.any(theta > hi):
                fails.append(fail("select/bfgs-%s%s/outside-bounds" % (crit, regime), "selected %s not within %s..%s" % (theta.tolist(), lo.tolist(), hi.tolist()), **ctx))
                continue
            centre = 0.5 * (lo + hi)
            with lib("model_selector"):
                s_res = float(gp.model_selector(theta.copy()))
                s_cen = float(gp.model_selector(centre.copy()))
            margin = s_res - s_cen
            distinct.add(tuple(np.round(theta, 4)))
            if not np.isfinite(s_res) or margin < 0:
                tol, refs = score_margin_tolerance(case, gp, theta, centre)
                r = (-margin / tol) if tol > 0 else float("inf")
                slack["select_margin"] = max(slack.get("select_margin", 0.0), r if np.isfinite(r) else 0.0)
                if not np.isfinite(s_res) or -margin > tol:
                    fails.append(fail("select/bfgs-%s%s/worse-than-centre" % (crit, regime), "score(selected)=%r < score(centre of bounds)=%r (tol %.3g)" % (s_res, s_cen, tol), observed=s_res, expected_at_least=s_cen, **ctx))
            if worst is None or margin < worst[0]:
                worst = (margin, theta, centre, ctx)
    finally:
        R.random = orig
        if orig_opt is not None:
            R.fmin_l_bfgs_b = orig_opt
    # the smallest margin of the block is re-scored with the 50-digit reference
    if worst is not None and not fails:
        margin, theta, centre, ctx = worst
        tol, refs = score_margin_tolerance(case, gp, theta, centre)
        if refs is not None and refs[0] < refs[1] - tol:
            fails.append(fail("select/bfgs-%s%s/worse-than-centre-by-reference" % (crit, regime), "reference score(selected)=%r < reference score(centre)=%r" % (refs[0], refs[1]), **ctx))
    tags.add(cfg)
    tags.add(cfg + ",distinct-optima=%d" % min(len(distinct), 3))
    if n_abnormal:
        tags.add(cfg + ",some-run-terminated-abnormally")
    if n_abnormal_best:
        tags.add(cfg + ",best-run-terminated-abnormally-while-another-terminated-normally")
    seen, out = set(), []
    for f in fails:
        if f["key"] not in seen:
            seen.add(f["key"])
            out.append(f)
    return {"fails": out, "n": nev, "tags": tags, "slack": slack, "sample": {"config": cfg, "tuples": len(tuples), "min_margin": None if worst is None else worst[0], "distinct_results": len(distinct), "tuples_with_abnormal_termination": n_abnormal, "of_which_best_run_abnormal": n_abnormal_best}}


def ev_select_nnf(case):
    """the same evaluator on the near-noise-free designs (kept apart in the per-evaluator statistics and in the keys of escaping exceptions)"""
    return ev_select(case)


def ev_diffev(case):
    des = case["design"]
    crit = "loo" if case["cross_val"] else "lml"
    cfg = "k=%s,m=%s,d=%d,n=%d,noise=%s,crit=%s" % (kname(case["kernel"]), case["mean"], des["d"], des["n"], des["noise"], crit)
    state = np.random.get_state()
    try:
        np.random.seed(int(case["seed"]))
        with lib("GpRegressor-diffev"):
            gp = build_for_selection(case, optimizer="diffev")
    finally:
        np.random.set_state(state)
    theta = np.asarray(gp.hyperpars, dtype=float)
    lo = np.array([b[0] for b in gp.hp_bounds], dtype=float)
    hi = np.array([b[1] for b in gp.hp_bounds], dtype=float)
    fails = []
    if theta.shape != lo.shape or not np.all(np.isfinite(theta)) or np.any(theta < lo) or np.any(theta > hi):
        fails.append(fail("select/diffev-%s/outside-bounds" % crit, "selected %s not within %s..%s" % (theta.tolist(), lo.tolist(), hi.tolist()), config=cfg, theta=theta.tolist()))
    return {"fails": fails, "n": 1, "tags": {"diffev," + cfg}, "sample": {"config": cfg, "theta": theta.tolist()}}


# ------------------------------------------------------------------ evaluator: selection with a process pool
def ev_select_mp(case):
    """Automatic selection (bfgs) with n_processes in {1, 2, 3}: the start placements are scripted in the calling process (the model
    draws them there, before the pool is used).  The model opens a real multiprocessing pool: this evaluator must run in the main
    process (pool workers are daemonic and cannot have children).  Oracle: the statement's (inside the bounds, scores no worse than
    the centre of the box) for every n_processes, and the selection with a pool scores the same as the one without, from the same starts."""
    import gc
    import multiprocessing as mp

    import inference.gp.regression as R
    from mc.ref import gpref_b as G

    if mp.current_process().daemon:
        raise HarnessError("ev_select_mp has to run in the main process (run_cases(..., parallel=False))")
    des = case["design"]
    d = des["d"]
    p = G.mean_n_params(case["mean"], d) + G.kernel_n_params(case["kernel"], d)
    n_starts = int(case["n_starts"])
    nrand = n_starts - 1
    placements = list(itertools.product(ALPHABET, repeat=p))
    crit = "loo" if case["cross_val"] else "lml"
    cfg0 = "k=%s,m=%s,d=%d,n=%d,noise=%s,crit=%s,starts=%d" % (kname(case["kernel"]), case["mean"], d, des["n"], des["noise"], crit, n_starts)
    if des.get("label"):
        cfg0 += "," + des["label"]
    fails, tags, slack = [], set(), {}
    nev = 0
    orig = R.random
    sample = None
    for tup in case["tuples"]:
        if len(tup) != nrand:
            raise HarnessError("tuple of %d placements for %d scripted starts" % (len(tup), nrand))
        single = None
        for nproc in case["n_processes"]:
            cfg = cfg0 + ",n_processes=%d" % nproc
            # (a script for zero starts still holds one value so that an unexpected draw is seen)
            script = Script([v for i in tup for v in placements[i]] or [0.5])
            R.random = script
            try:
                with lib("GpRegressor-bfgs-n_processes=%d" % nproc):
                    gp = build_for_selection(case, optimizer="bfgs", n_starts=n_starts, n_processes=nproc)
            finally:
                R.random = orig
                gc.collect()  # the model leaves its pool to the garbage collector
            nev += 1
            if script.pos != nrand * p:
                raise HarnessError("seam: the model drew %d uniform numbers in the calling process, %d were scripted" % (script.pos, nrand * p))
            theta = np.asarray(gp.hyperpars, dtype=float)
            lo = np.array([b[0] for b in gp.hp_bounds], dtype=float)
            hi = np.array([b[1] for b in gp.hp_bounds], dtype=float)
            ctx = {"config": cfg, "starts": [list(placements[i]) for i in tup], "theta": theta.tolist(), "bounds": [lo.tolist(), hi.tolist()]}
            kind = "bfgs-%s-%s" % (crit, "single-process" if nproc == 1 else "pool")
            if theta.shape != lo.shape or not np.all(np.isfinite(theta)) or np.any(theta < lo) or np.any(theta > hi):
                fails.append(fail("select-mp/%s/outside-bounds" % kind, "%s: selected %s not within %s..%s" % (cfg, theta.tolist(), lo.tolist(), hi.tolist()), **ctx))
                continue
            centre = 0.5 * (lo + hi)
            with lib("model_selector"):
                s_res = float(gp.model_selector(theta.copy()))
                s_cen = float(gp.model_selector(centre.copy()))
            margin = s_res - s_cen
            if not np.isfinite(s_res) or margin < 0:
                tol, _ = score_margin_tolerance(case, gp, theta, centre)
                r = (-margin / tol) if tol > 0 else float("inf")
                slack["select_mp_margin"] = max(slack.get("select_mp_margin", 0.0), r if np.isfinite(r) else 0.0)
                if not np.isfinite(s_res) or -margin > tol:
                    fails.append(fail("select-mp/%s/worse-than-centre" % kind, "%s: score(selected)=%r < score(centre of bounds)=%r (tol %.3g)" % (cfg, s_res, s_cen, tol), observed=s_res, expected_at_least=s_cen, **ctx))
            if nproc == 1:
                single = (theta, s_res)
            elif single is not None:
                if np.array_equal(theta, single[0]):
                    tags.add(cfg0 + ",pool-selection-identical")
                else:
                    # a different point is acceptable only if it scores the same (ties between starts)
                    tol, _ = score_margin_tolerance(case, gp, theta, single[0])
                    diff = abs(s_res - single[1])
                    r = (diff / tol) if tol > 0 else float("inf")
                    slack["select_mp_vs_single"] = max(slack.get("select_mp_vs_single", 0.0), r if np.isfinite(r) else 0.0)
                    if not diff <= tol:
                        fails.append(fail("select-mp/bfgs-%s-pool/differs-from-single-process" % crit, "%s: selected %s (score %r); with n_processes=1 and the same starts %s (score %r)" % (cfg, theta.tolist(), s_res, single[0].tolist(), single[1]),
                                          single_process_theta=single[0].tolist(), single_process_score=single[1], score=s_res, **ctx))
                    else:
                        tags.add(cfg0 + ",pool-selection-differs-with-equal-score")
            tags.add("select-mp,starts=%d,n_processes=%d,remainder=%d" % (n_starts, nproc, n_starts % nproc))
            sample = {"config": cfg, "theta": theta.tolist(), "margin": margin}
    R.random = orig
    seen, out = set(), []
    for f in fails:
        if f["key"] not in seen:
            seen.add(f["key"])
            out.append(f)
    return {"fails": out, "n": nev, "tags": tags, "slack": slack, "sample": sample}


# ------------------------------------------------------------------ evaluator: several regressor objects, interleaved
GP_STYLES = ["default", "classes", "instances", "cp-classes"]
GP_STYLE_SPEC = {"default": ("SE", "C"), "classes": ("SE", "C"), "cp-classes": (["CP", 0, "SE", "SE"], "L")}
GP_OPS = ["marginal_likelihood", "loo_likelihood", "marginal_likelihood_gradient", "loo_likelihood_gradient", "predict", "loo_predictions"]
TWO_RTOL = 1e-12


def gp_style_spec(obj):
    return GP_STYLE_SPEC.get(obj["style"]) or (obj["kernel"], obj["mean"])


def build_styled_gp(obj):
    """a GpRegressor with given hyper-parameters (no optimisation), kernel / mean passed in the given style; the caller never hands the same
    instance to two objects"""
    from inference.gp import ChangePoint, GpRegressor, SquaredExponential
    from inference.gp.mean import ConstantMean, LinearMean

    des = obj["design"]
    kw = dict(noise_kwargs(des), hyperpars=np.array(obj["hyperpars"], dtype=float))
    st = obj["style"]
    if st == "classes":
        kw.update(kernel=SquaredExponential, mean=ConstantMean)
    elif st == "instances":
        kw.update(kernel=lib_kernel(obj["kernel"]), mean=lib_mean(obj["mean"]))
    elif st == "cp-classes":
        kw.update(kernel=ChangePoint(kernels=[SquaredExponential, SquaredExponential], axis=0), mean=LinearMean)
    elif st != "default":
        raise HarnessError(st)
    with lib("construct-" + st):
        return GpRegressor(np.array(des["X"], dtype=float), np.array(des["y"], dtype=float), **kw)


def gp_op(gp, op, theta, points):
    """-> list of (component name, float array)"""
    with lib(op):
        if op == "predict":
            mu, sg = gp(points.copy())
            return [("mean", np.array(mu, dtype=float)), ("sigma", np.array(sg, dtype=float))]
        if op == "loo_predictions":
            mu, sg = gp.loo_predictions()
            return [("mean", np.array(mu, dtype=float)), ("sigma", np.array(sg, dtype=float))]
        res = getattr(gp, op)(theta.copy())
    if op.endswith("_gradient"):
        return [("value", np.array(float(res[0]))), ("gradient", np.array(res[1], dtype=float))]
    return [("value", np.array(float(res)))]


def _rel(a, b):
    if a.shape != b.shape:
        return float("inf")
    if a.tobytes() == b.tobytes():
        return 0.0
    if not (np.all(np.isfinite(a)) and np.all(np.isfinite(b))):
        return float("inf")
    sc = float(np.abs(b).max()) if b.size else 0.0
    df = float(np.abs(a - b).max()) if b.size else 0.0
    return 0.0 if df == 0 else (df / sc if sc > 0 else float("inf"))


def ev_two_models(case):
    """Two or three GpRegressor objects built from different data; every sequence of <= max_len operations (object, operation), objects
    built all first or each at its first use.  Every result must be what that object gives ALONE."""
    objs = case["objects"]
    nob = len(objs)
    fails, tags, slack = [], set(), {}
    seen = set()
    nev = 0
    desc = " | ".join("%s:n=%d,d=%d,noise=%s" % (o["style"], o["design"]["n"], o["design"]["d"], o["design"]["noise"]) for o in objs)

    def add(key, what, **ctx):
        if key not in seen:
            seen.add(key)
            fails.append(fail(key, what, **ctx))

    thetas = [[np.array(t, dtype=float) for t in o["thetas"]] for o in objs]
    points = [np.array(o["points"], dtype=float) for o in objs]
    alone = {}
    for oi, o in enumerate(objs):
        for op in GP_OPS:
            for ti in range(len(thetas[oi])):
                gp = build_styled_gp(o)
                if gp.n_hyperpars != len(thetas[oi][ti]):
                    raise HarnessError("hyper-parameter layout: model has %d, reference %d" % (gp.n_hyperpars, len(thetas[oi][ti])))
                alone[(oi, op, ti)] = gp_op(gp, op, thetas[oi][ti], points[oi])
                nev += 1
        if o["style"] in ("default", "classes"):
            twin = dict(o, style="instances", kernel="SE", mean="C")
            for op in GP_OPS:
                got = alone[(oi, op, 0)]
                want = gp_op(build_styled_gp(twin), op, thetas[oi][0], points[oi])
                nev += 1
                for (nm, g), (_, w) in zip(got, want):
                    if _rel(g, w) > TWO_RTOL:
                        add("two-models/%s/%s/differs-from-explicit-SquaredExponential-ConstantMean" % (o["style"], op),
                            "a GpRegressor built with style '%s' gives a %s that differs from one given SquaredExponential() and ConstantMean() instances" % (o["style"], nm), objects=desc, observed=g.tolist(), expected=w.tolist())
    for a, b in itertools.combinations(range(nob), 2):
        if all(x[1].shape == y[1].shape and np.allclose(x[1], y[1], rtol=1e-6, atol=0) for op in GP_OPS for x, y in zip(alone[(a, op, 0)], alone[(b, op, 0)])):
            raise HarnessError("objects %d and %d of this block give the same results" % (a, b))
    ops = [(oi, op) for oi in range(nob) for op in GP_OPS]
    nseq = 0
    for order in case["build_orders"]:
        for length in range(1, int(case["max_len"]) + 1):
            for seq in itertools.product(ops, repeat=length):
                if order == "at-first-use" and len({oi for oi, _ in seq}) < 2:
                    continue
                nseq += 1
                built = [build_styled_gp(o) for o in objs] if order == "all-first" else [None] * nob
                for pos, (oi, op) in enumerate(seq):
                    if built[oi] is None:
                        built[oi] = build_styled_gp(objs[oi])
                    ti = pos % len(thetas[oi])
                    got = gp_op(built[oi], op, thetas[oi][ti], points[oi])
                    nev += 1
                    for (nm, g), (_, w) in zip(got, alone[(oi, op, ti)]):
                        r = _rel(g, w)
                        if r == 0.0:
                            continue
                        slack["two_models_rel_difference"] = max(slack.get("two_models_rel_difference", 0.0), (r / TWO_RTOL) if np.isfinite(r) else 0.0)
                        if r > TWO_RTOL:
                            add("two-models/%s/%s/%s/differs-from-the-object-alone" % (objs[oi]["style"], op, nm),
                                "objects [%s] built %s; operation %d of %s: %s on object %d gives a %s that differs from what the same object gives when nothing else is built or used: relative difference %.3g (allowed %g)"
                                % (desc, order, pos + 1, [list(s) for s in seq], op, oi, nm, r, TWO_RTOL), objects=desc, order=order, calls=[list(s) for s in seq], observed=g.tolist(), expected=w.tolist())
                if fails and len(seen) >= 6:
                    break
            if fails:
                break
        if fails:
            break
    tags.add("two-models,objects=[%s]" % desc)
    for order in case["build_orders"]:
        tags.add("two-models,n=%d,styles=%s,%s,len<=%d" % (nob, "+".join(o["style"] for o in objs), order, case["max_len"]))
    return {"fails": fails, "n": nev, "tags": tags, "slack": slack, "sample": {"objects": desc, "histories": nseq, "operations": nev}}


# ------------------------------------------------------------------ evaluator: input forms ("reject or be right")
# The data may reach the constructor in other container forms than the documented flat arrays.  The property does not say which
# forms are accepted - a constructor that refuses one with ValueError / TypeError is fine - but a form that IS accepted must
# give exactly the scores of the canonical form holding the same numbers (flat float arrays; (N,d) x; (N,N) y_cov).
FORM_ARGS = ["y_err", "y_cov", "y", "x"]


def _strided(a):
    """the same values as a non-contiguous view of a larger array"""
    a = np.asarray(a, dtype=float)
    big = np.zeros((2 * a.shape[0],) + a.shape[1:], dtype=float)
    big[::2] = a
    return big[::2]


def input_forms(arg, des):
    """[(form name, object to pass, canonical replacement or None = the design's own canonical value)]"""
    n, d = des["n"], des["d"]
    if arg == "y_err":
        e = np.array(des["y_err"], dtype=float)
        e0 = float(e[0])
        uni = np.full(n, e0)
        return [
            ("(N,1)-array", e.reshape(n, 1).copy(), None), ("(1,N)-array", e.reshape(1, n).copy(), None), ("list", e.tolist(), None), ("tuple", tuple(e.tolist()), None),
            ("list-of-1-lists", [[v] for v in e.tolist()], None), ("(1,N)-list", [e.tolist()], None), ("strided-view", _strided(e), None), ("(N,1)-strided-view", _strided(e.reshape(n, 1)), None),
            ("(N,1,1)-array", e.reshape(n, 1, 1).copy(), None),
            ("python-float:same-error-for-all", e0, uni), ("0-d-array:same-error-for-all", np.array(e0), uni), ("length-1-array:same-error-for-all", np.array([e0]), uni),
            ("(1,1)-array:same-error-for-all", np.array([[e0]]), uni), ("length-1-list:same-error-for-all", [e0], uni),
        ]
    if arg == "y_cov":
        C = np.array(des["y_cov"], dtype=float)
        return [
            ("list-of-lists", C.tolist(), None), ("tuple-of-tuples", tuple(tuple(r) for r in C.tolist()), None), ("list-of-row-arrays", [r.copy() for r in C], None),
            ("fortran-order-array", np.asfortranarray(C), None), ("strided-view", _strided(C), None), ("(1,N,N)-array", C.reshape(1, n, n).copy(), None), ("(N,N,1)-array", C.reshape(n, n, 1).copy(), None),
        ]
    if arg == "y":
        y = np.array(des["y"], dtype=float)
        return [
            ("(N,1)-array", y.reshape(n, 1).copy(), None), ("(1,N)-array", y.reshape(1, n).copy(), None), ("list", y.tolist(), None), ("tuple", tuple(y.tolist()), None),
            ("list-of-1-lists", [[v] for v in y.tolist()], None), ("strided-view", _strided(y), None), ("(N,1)-strided-view", _strided(y.reshape(n, 1)), None), ("(N,1,1)-array", y.reshape(n, 1, 1).copy(), None),
        ]
    X = np.array(des["X"], dtype=float)
    if d == 1:
        return [
            ("flat-(N,)-array", X[:, 0].copy(), None), ("list-of-floats", X[:, 0].tolist(), None), ("tuple-of-floats", tuple(X[:, 0].tolist()), None), ("list-of-1-lists", X.tolist(), None),
            ("(N,1)-strided-view", _strided(X), None), ("flat-strided-view", _strided(X[:, 0]), None), ("(1,N)-array", X.reshape(1, n).copy(), None), ("(N,1,1)-array", X.reshape(n, 1, 1).copy(), None),
        ]
    return [
        ("list-of-lists", X.tolist(), None), ("tuple-of-tuples", tuple(tuple(r) for r in X.tolist()), None), ("list-of-row-arrays", [r.copy() for r in X], None),
        ("fortran-order-array", np.asfortranarray(X), None), ("strided-view", _strided(X), None), ("(N,d,1)-array", X.reshape(n, d, 1).copy(), None), ("(d,N)-transposed-array", np.ascontiguousarray(X.T), None),
    ]


def ev_input_forms(case):
    from inference.gp import GpRegressor

    des, kspec, mspec, arg = case["design"], case["kernel"], case["mean"], case["arg"]
    n, d = des["n"], des["d"]
    th = np.array(case["theta"], dtype=float)
    X, y = np.array(des["X"], dtype=float), np.array(des["y"], dtype=float)
    points = np.vstack([X[:-1] + 0.37 * (X[1:] - X[:-1]), X.min(axis=0) - 0.2 * (X.max(axis=0) - X.min(axis=0))])
    cfg = "k=%s,m=%s,d=%d,n=%d,noise=%s" % (kname(kspec), mspec, d, n, des["noise"])
    fails, tags, slack, seen, skipped = [], set(), {}, set(), {}
    nev = 0

    def add(key, what, **ctx):
        if key not in seen:
            seen.add(key)
            fails.append(fail(key, what, config=cfg, theta=th.tolist(), **ctx))

    def build(**over):
        kw = dict(x=X.copy(), y=y.copy(), **noise_kwargs(des))
        kw.update(over)
        return GpRegressor(kw.pop("x"), kw.pop("y"), kernel=lib_kernel(kspec), mean=lib_mean(mspec), hyperpars=th.copy(), **kw)

    def all_ops(gp):
        out = {}
        for op in GP_OPS:
            out[op] = gp_op(gp, op, th, points)
        return out

    canon = {}

    def canonical(repl):
        key = None if repl is None else np.asarray(repl, dtype=float).tobytes()
        if key not in canon:
            with lib("construct-canonical"):
                g = build(**({} if repl is None else {arg: np.asarray(repl, dtype=float).copy()}))
            if g.n_hyperpars != len(th):
                raise HarnessError("hyper-parameter layout: model has %d, case %d" % (g.n_hyperpars, len(th)))
            pm = g.n_hyperpars - g.cov.n_params
            with lib("build_covariance"):
                A = np.asarray(g.cov.build_covariance(th[pm:].copy()), dtype=float) + np.asarray(g.sig, dtype=float)
            sv = np.linalg.svd(A, compute_uv=False)
            cond = float(sv[0] / sv[-1]) if sv[-1] > 0 else float("inf")
            canon[key] = (all_ops(g), cond)
        return canon[key]

    for fname, obj, repl in input_forms(arg, des):
        want, cond = canonical(repl)
        if not cond <= COND_MAX:
            skipped["cond(K+S) > 1e10"] = skipped.get("cond(K+S) > 1e10", 0) + 1
            continue
        rtol = max(TWO_RTOL, 64 * 2.220446049250313e-16 * cond)
        try:
            with lib("construct-form", allow=(ValueError, TypeError)):
                gp = build(**{arg: obj})
        except (ValueError, TypeError) as e:
            tags.add("form %s=%s d=%d: rejected by the constructor (%s)" % (arg, fname, d, type(e).__name__))
            continue
        except LibFailure as e:
            # the constructor broke on the form (e.g. AttributeError on a list): no model exists, nothing wrong can be computed from it -
            # the property (scores of a model are right) is not contradicted; counted separately from the deliberate refusals
            tags.add("form %s=%s d=%d: not accepted, the constructor raised %s (not a deliberate refusal)" % (arg, fname, d, e.exc_type))
            continue
        nev += 1
        okform = True
        for op in GP_OPS:
            try:
                got = gp_op(gp, op, th, points)
            except LibFailure as e:
                add("forms/%s/%s/accepted-but-%s-raises:%s" % (arg, fname.split(":")[0], op, e.exc_type),
                    "GpRegressor accepted %s given as %s, then %s" % (arg, fname, e), form=fname, op=op, traceback=e.tb[-1500:])
                okform = False
                continue
            nev += 1
            for (nm, g), (_, w) in zip(got, want[op]):
                if g.shape != w.shape:
                    r = float("inf")
                elif g.tobytes() == w.tobytes():
                    r = 0.0
                elif not (np.all(np.isfinite(g)) and np.all(np.isfinite(w))):
                    r = float("inf")
                else:
                    r = float(np.abs(g - w).max()) / max(float(np.abs(w).max()), 1.0 if nm == "value" else 0.0, 1e-300)
                slack["forms/%s/%s" % (arg, op)] = max(slack.get("forms/%s/%s" % (arg, op), 0.0), (r / rtol) if np.isfinite(r) else 0.0)
                if not r <= rtol:
                    okform = False
                    add("forms/%s/%s/accepted-but-%s-%s-differs-from-canonical-form" % (arg, fname.split(":")[0], op, nm),
                        "GpRegressor accepted %s given as %s (%s), but %s %s = %s whereas the same numbers given in the canonical flat-array form give %s (relative difference %.3g, allowed %.3g)"
                        % (arg, fname, type(obj).__name__ + str(np.shape(obj)), op, nm, g.tolist(), w.tolist(), r, rtol), form=fname, op=op, observed=g.tolist(), expected=w.tolist())
        tags.add("form %s=%s d=%d: accepted%s" % (arg, fname, d, "" if okform else " (wrong)"))
    tags.add("forms-config %s,arg=%s" % (cfg, arg))
    return {"fails": fails, "n": nev, "tags": tags, "slack": slack, "skipped": skipped, "sample": {"config": cfg, "arg": arg, "forms": [f[0] for f in input_forms(arg, des)]}}



# ------------------------------------------------------------------ evaluator: hyper-parameter vector forms
THETA_OPS = ["marginal_likelihood", "marginal_likelihood_gradient", "loo_likelihood", "loo_likelihood_gradient", "set_hyperparameters+predict", "set_hyperparameters+loo_predictions"]
EPS64 = float(np.finfo(np.float64).eps)
EPS32 = float(np.finfo(np.float32).eps)


def integer_theta(kspec, mspec, theta, des):
    """the lattice point moved to integer values (all hyper-parameters are unconstrained reals except change-point widths, which stay >= 1)"""
    from mc.ref import gpref_b as G

    d = des["d"]
    out = [float(round(t)) for t in theta]
    pcl = param_classes(kspec, mspec, d)
    for j, c in enumerate(pcl):
        if c.endswith("CP.changepoint"):
            first = next(i for i, cc in enumerate(pcl) if cc.endswith("CP.changepoint"))
            if (j - first) % 2 == 1:  # (location, width) pairs
                out[j] = max(1.0, out[j])
    return out


def theta_forms(vals, integer):
    """[(form name, object handed to the library, the equivalent float64 array)] for one hyper-parameter vector"""
    a = np.array(vals, dtype=np.float64)
    ro = a.copy()
    ro.setflags(write=False)
    big = np.zeros(3 * a.size + 1)
    big[1::3] = a
    rev = np.ascontiguousarray(a[::-1])
    f32 = a.astype(np.float32)
    forms = [
        ("list-of-floats", [float(v) for v in a], a), ("tuple-of-floats", tuple(float(v) for v in a), a), ("list-of-numpy-floats", [np.float64(v) for v in a], a),
        ("strided-view", big[1::3], a), ("reversed-view", rev[::-1], a), ("read-only-array", ro, a),
        ("float32-array", f32, f32.astype(np.float64)), ("float32-strided-view", np.repeat(f32, 2)[::2], f32.astype(np.float64)),
        ("longdouble-array", a.astype(np.longdouble), a),
    ]
    if integer:
        i64 = a.astype(np.int64)
        forms = [
            ("int64-array", i64, a), ("int32-array", a.astype(np.int32), a), ("list-of-ints", [int(v) for v in a], a), ("tuple-of-ints", tuple(int(v) for v in a), a),
            ("int64-strided-view", np.repeat(i64, 2)[::2], a), ("int64-read-only-array", (lambda z: (z.setflags(write=False), z)[1])(i64.copy()), a),
            ("list-mixing-ints-and-floats", [int(v) if j % 2 else float(v) for j, v in enumerate(a)], a),
        ] + forms
    return forms


def _snapshot(obj):
    if isinstance(obj, np.ndarray):
        return (obj.dtype.str, obj.shape, obj.tobytes())
    return (type(obj).__name__, tuple((type(v).__name__, float(v)) for v in obj))


def theta_op(gp, op, theta, points):
    """one operation with the hyper-parameter vector handed over AS IS -> list of (component, float64 array)"""
    with lib(op):
        if op.startswith("set_hyperparameters+"):
            gp.set_hyperparameters(theta)
            mu, sg = gp(points.copy()) if op.endswith("predict") else gp.loo_predictions()
            return [("mean", np.array(mu, dtype=float)), ("sigma", np.array(sg, dtype=float))]
        res = getattr(gp, op)(theta)
        if op.endswith("_gradient"):
            return [("value", np.array(float(res[0]))), ("gradient", np.array(res[1], dtype=float))]
        return [("value", np.array(float(res)))]


def ev_theta_forms(case):
    """reject or be right: every score / gradient / leave-one-out method given the hyper-parameter vector in another numeric container form
    must return what it returns for the equivalent float64 array (or refuse the form)"""
    from inference.gp import GpRegressor

    des, kspec, mspec = case["design"], case["kernel"], case["mean"]
    n, d = des["n"], des["d"]
    integer = case["integer"]
    vals = integer_theta(kspec, mspec, case["theta"], des) if integer else [float(t) for t in case["theta"]]
    X, y = np.array(des["X"], dtype=float), np.array(des["y"], dtype=float)
    points = np.vstack([X[:-1] + 0.37 * (X[1:] - X[:-1]), X.min(axis=0) - 0.2 * (X.max(axis=0) - X.min(axis=0))])
    cfg = "k=%s,m=%s,d=%d,n=%d,noise=%s" % (kname(kspec), mspec, d, n, des["noise"])
    fails, tags, slack, seen, skipped = [], set(), {}, set(), {}
    nev = 0

    def add(key, what, **ctx):
        if key not in seen:
            seen.add(key)
            fails.append(fail(key, what, config=cfg, theta=list(vals), **ctx))

    def build(th0):
        with lib("construct"):
            g = GpRegressor(X.copy(), y.copy(), kernel=lib_kernel(kspec), mean=lib_mean(mspec), hyperpars=np.array(th0, dtype=float), **noise_kwargs(des))
        if g.n_hyperpars != len(vals):
            raise HarnessError("hyper-parameter layout: model has %d, case %d" % (g.n_hyperpars, len(vals)))
        return g

    canon = {}

    def canonical(a64):
        key = a64.tobytes()
        if key not in canon:
            g = build(case["theta"])
            pm = g.n_hyperpars - g.cov.n_params
            with lib("build_covariance"):
                A = np.asarray(g.cov.build_covariance(a64[pm:].copy()), dtype=float) + np.asarray(g.sig, dtype=float)
            sv = np.linalg.svd(A, compute_uv=False)
            cond = float(sv[0] / sv[-1]) if sv[-1] > 0 else float("inf")
            want = {}
            if cond <= COND_MAX:
                for op in THETA_OPS:
                    want[op] = theta_op(build(case["theta"]), op, a64.copy(), points)
            canon[key] = (want, cond)
        return canon[key]

    for fname, obj, a64 in theta_forms(vals, integer):
        want, cond = canonical(a64)
        if not cond <= COND_MAX:
            skipped["cond(K+S) > 1e10"] = skipped.get("cond(K+S) > 1e10", 0) + 1
            continue
        # numpy computes in single precision where only float32 operands meet (exp of the float32 hyper-parameters): its own rounding is allowed for
        eps = EPS32 if fname.startswith("float32") else EPS64
        rtol = max(TWO_RTOL, 64 * eps * cond)
        outcome = set()
        for op in THETA_OPS:
            before = _snapshot(obj)
            try:
                got = theta_op(build(case["theta"]), op, obj, points)
            except LibFailure as e:
                outcome.add("refused(%s)" % e.exc_type)
                continue
            nev += 1
            outcome.add("accepted")
            if _snapshot(obj) != before:
                add("theta-forms/%s/%s/hyper-parameter-vector-modified" % (fname, op), "%s changed the hyper-parameter vector it was given (%s)" % (op, fname), form=fname, op=op)
            for (nm, g), (_, w) in zip(got, want[op]):
                if g.shape != w.shape:
                    r = float("inf")
                elif g.tobytes() == w.tobytes():
                    r = 0.0
                elif not (np.all(np.isfinite(g)) and np.all(np.isfinite(w))):
                    r = float("inf")
                else:
                    r = float(np.abs(g - w).max()) / max(float(np.abs(w).max()), 1.0 if nm == "value" else 0.0, 1e-300)
                sk = "theta-forms/%s/%s" % ("float32" if eps == EPS32 else "exact-forms", op)
                slack[sk] = max(slack.get(sk, 0.0), (r / rtol) if np.isfinite(r) else 0.0)
                if not r <= rtol:
                    add("theta-forms/%s/%s-%s-differs-from-float64-array" % (fname, op, nm),
                        "%s given the hyper-parameters as %s %r returns %s = %s, whereas the equivalent float64 array gives %s (relative difference %.3g, allowed %.3g)"
                        % (op, fname, obj if not isinstance(obj, np.ndarray) else obj.tolist(), nm, g.tolist(), w.tolist(), r, rtol), form=fname, op=op, observed=g.tolist(), expected=w.tolist())
        tags.add("theta form %s%s: %s" % (fname, ",integer-valued" if integer else "", "+".join(sorted(outcome))))
    tags.add("theta-forms-config %s,integer=%s" % (cfg, integer))
    return {"fails": fails, "n": nev, "tags": tags, "slack": slack, "skipped": skipped, "sample": {"config": cfg, "theta": list(vals), "forms": [f[0] for f in theta_forms(vals, integer)]}}



# ------------------------------------------------------------------ evaluator: many accurately measured points
LARGE_U_MAX = 1.0  # n eps cond(K+S) beyond which double precision says nothing about the scores (skipped and counted)


def numpy_kernel_1d(kspec, thc, x):
    """(smooth part, index-delta part) of the documented covariance formula on 1-D points, in float64 numpy"""
    dx2 = (x[:, None] - x[None, :]) ** 2
    n = x.size
    if kspec == "SE":
        return math.exp(2 * thc[0]) * np.exp(-0.5 * dx2 / math.exp(2 * thc[1])), np.zeros((n, n)), 2
    if kspec == "RQ":
        al = math.exp(thc[1])
        return math.exp(2 * thc[0]) * (1.0 + 0.5 * dx2 / (al * math.exp(2 * thc[2]))) ** (-al), np.zeros((n, n)), 3
    if kspec == "WN":
        return np.zeros((n, n)), math.exp(2 * thc[0]) * np.eye(n), 1
    if kspec[0] == "+":
        Ks, Kd, used = np.zeros((n, n)), np.zeros((n, n)), 0
        for sub in kspec[1:]:
            a, b, u = numpy_kernel_1d(sub, thc[used:], x)
            Ks, Kd, used = Ks + a, Kd + b, used + u
        return Ks, Kd, used
    raise HarnessError("large-n reference: kernel %r" % (kspec,))


def ev_large_n(case):
    """hundreds of accurately measured points (1-D): marginal_likelihood / loo_likelihood by the value path and by the value-and-gradient
    path must be finite, agree with each other and with a float64 numpy reference (slogdet / solve / inv of the documented covariance)"""
    import warnings

    from inference.gp import GpRegressor

    des, kspec, mspec = case["design"], case["kernel"], case["mean"]
    n = des["n"]
    X, y = np.array(des["X"], dtype=float), np.array(des["y"], dtype=float)
    x = X[:, 0]
    err = np.array(des["y_err"], dtype=float)
    cfg = "k=%s,m=%s,n=%d,x=%s,yerr/range=%g" % (kname(kspec), mspec, n, des["kind"], case["level"])
    fails, tags, slack, skipped, seen = [], set(), {}, {}, set()
    nev = 0
    sample = None

    def add(key, what, **ctx):
        if key not in seen:
            seen.add(key)
            fails.append(fail(key, what, config=cfg, **ctx))

    def upd(name, e, tol):
        r = float(e) / float(tol) if np.isfinite(e) else float("inf")
        slack[name] = max(slack.get(name, 0.0), r)
        return r

    pm = {"C": 1, "L": 2}[mspec]
    gp = None
    for theta in case["thetas"]:
        th = np.array(theta, dtype=float)
        ctx = {"theta": list(theta)}
        if gp is None:
            with lib("construct"):
                gp = GpRegressor(X.copy(), y.copy(), y_err=err.copy(), kernel=lib_kernel(kspec), mean=lib_mean(mspec), hyperpars=th.copy())
            if gp.n_hyperpars != len(theta):
                raise HarnessError("hyper-parameter layout: model has %d, reference %d" % (gp.n_hyperpars, len(theta)))
        # ---- reference covariance: documented formula + stated error variances + the model's own diagonal stabiliser (measured, must be in range)
        Ks, Kd, used = numpy_kernel_1d(kspec, list(th[pm:]), x)
        if used != len(theta) - pm:
            raise HarnessError("kernel hyper-parameter count")
        with lib("build_covariance"):
            Kc = np.asarray(gp.cov.build_covariance(th[pm:].copy()), dtype=float)
        rho = (np.diag(Kc) - np.diag(Ks) - np.diag(Kd)) / np.diag(Ks)
        if (rho < -64 * EPS64 * (1 + np.diag(Kd) / np.diag(Ks))).any() or (rho > RHO_MAX).any():
            add("jitter/%s/outside-documented-range" % kname(kspec), "relative diagonal stabiliser in [%.3g, %.3g], not in [0, %g]" % (rho.min(), rho.max(), RHO_MAX), **ctx)
        rho = np.clip(rho, 0.0, RHO_MAX)
        K = Ks + Kd + np.diag(rho * np.diag(Ks)) + np.diag(err**2)
        mu = np.full(n, th[0]) if mspec == "C" else th[0] + (x - x.mean()) * th[1]
        r = y - mu
        w = np.linalg.eigvalsh(K)
        if w[0] <= 0:
            skipped["reference covariance not positive definite in float64"] = skipped.get("reference covariance not positive definite in float64", 0) + 1
            continue
        cond = float(w[-1] / w[0])
        u = n * EPS64 * cond
        if u > LARGE_U_MAX:
            skipped["n eps cond(K+S) > 1"] = skipped.get("n eps cond(K+S) > 1", 0) + 1
            continue
        sign, ld = np.linalg.slogdet(K)
        alpha = np.linalg.solve(K, r)
        iK = np.linalg.inv(K)
        quad = float(r @ alpha)
        lml_ref = -0.5 * quad - 0.5 * float(ld)
        dK = np.diag(iK)
        var = 1.0 / dK
        loo_ref = float(-0.5 * (var * alpha**2 + np.log(var)).sum())
        # first-order rounding of any backward-stable evaluation (reference and library alike): relative n eps cond on the quadratic form,
        # tr(K^-1 E) <= n (n eps cond) on the log-determinant; leave-one-out: entries of K^-1 to n eps cond ||K^-1||, alpha to n eps cond ||alpha||
        tol_lml = 4 * u * 0.5 * abs(quad) + 2 * n * u + 64 * EPS64 * (abs(lml_ref) + n)
        d_ik = 4 * u * float(np.abs(np.linalg.eigvalsh(iK)).max())
        d_al = 4 * u * float(np.linalg.norm(alpha))
        tol_loo = float((0.5 * (2 * np.abs(alpha) * d_al / dK + alpha**2 * d_ik / dK**2) + 0.5 * d_ik / dK).sum()) + 64 * EPS64 * (abs(loo_ref) + n)
        const = 0.5 * n * math.log(2 * math.pi)

        with warnings.catch_warnings(record=True) as wlist:
            warnings.simplefilter("always")
            with lib("marginal_likelihood"):
                v1 = float(gp.marginal_likelihood(th.copy()))
            with lib("marginal_likelihood_gradient"):
                v2, g2 = gp.marginal_likelihood_gradient(th.copy())
            with lib("loo_likelihood"):
                l1 = float(gp.loo_likelihood(th.copy()))
            with lib("loo_likelihood_gradient"):
                l2, gl2 = gp.loo_likelihood_gradient(th.copy())
        nev += 4
        v2, l2 = float(v2), float(l2)
        g2, gl2 = np.asarray(g2, dtype=float), np.asarray(gl2, dtype=float)
        obs = dict(marginal_likelihood=v1, marginal_likelihood_gradient_value=v2, loo_likelihood=l1, loo_likelihood_gradient_value=l2, cond=cond, warnings=[str(w_.message)[:80] for w_ in wlist][:3], **ctx)
        for nm, v in (("lml/value-path", v1), ("lml/gradient-path-value", v2), ("loo/value-path", l1), ("loo/gradient-path-value", l2)):
            if not np.isfinite(v):
                add("large-n/%s/not-finite" % nm, "%s = %r for %d points measured to %g of the data range (cond(K+S) = %.3g, reference %s = %r)" % (nm, v, n, case["level"], cond, nm[:3], lml_ref if nm.startswith("lml") else loo_ref), **obs)
        for nm, g in (("lml", g2), ("loo", gl2)):
            if g.shape != (len(theta),) or not np.all(np.isfinite(g)):
                add("large-n/%s/gradient-not-finite" % nm, "gradient %s" % g.tolist(), **obs)
        for nm, a, b, ref, tol in (("lml", v1, v2, lml_ref, tol_lml), ("loo", l1, l2, loo_ref, tol_loo)):
            if not (np.isfinite(a) and np.isfinite(b)):
                continue
            if upd("large-n/%s-paths-agree" % nm, abs(a - b), 2 * tol) > 1:
                add("large-n/%s/value-path-differs-from-gradient-path" % nm, "value path %r, value-and-gradient path %r (tol %.3g, cond %.3g)" % (a, b, 2 * tol, cond), **obs)
            for pn, v in (("value-path", a), ("gradient-path-value", b)):
                e, _ = either_constant(v, ref, const, tol)
                if upd("large-n/%s-%s-vs-numpy" % (nm, pn), e, tol) > 1:
                    add("large-n/%s/%s-vs-reference" % (nm, pn), "%s %s = %r, float64 numpy reference %r (tol %.3g, cond %.3g)" % (nm, pn, v, ref, tol, cond), **obs)
        tags.add(cfg + ",cond=1e%d" % int(math.log10(cond)))
        sample = {"config": cfg, "theta": list(theta), "lml": v1, "lml_ref": lml_ref, "loo": l1, "loo_ref": loo_ref, "cond": cond, "tol_lml": tol_lml, "tol_loo": tol_loo}
    return {"fails": fails, "n": nev, "tags": tags, "slack": slack, "skipped": skipped, "sample": sample}


EVALUATORS = {"large_n": ev_large_n, "theta_forms": ev_theta_forms, "input_forms": ev_input_forms, "scores": ev_scores, "select": ev_select, "select_nnf": ev_select_nnf, "diffev": ev_diffev, "select_mp": ev_select_mp, "two_models": ev_two_models}


# --------------------------------------------------------------------------- run
KERNELS = ["SE", "RQ", ["+", "SE", "WN"], ["CP", 0, "SE", "SE"]]
MEANS = ["C", "L", "Q"]


def chunks(lst, k):
    return [lst[i : i + k] for i in range(0, len(lst), k)]


def run(ck):
    from mc.ref import gpref_b as G

    seed, quick = ck.seed, ck.quick
    # ---------------------------------------------------------------- scores
    kinds = ["regular", "irregular", "permuted", "clustered"]
    noises = ["none", "y_err", "y_cov"]
    cases = []
    npoints = 0
    for n in (3, 5, 8):
        for d in (1, 2):
            for ni, noise in enumerate(noises):
                for ki, kspec in enumerate(KERNELS):
                    for mi, mspec in enumerate(MEANS):
                        rot = seed + ki + mi + n + d + ni
                        if quick:
                            kk = [kinds[rot % 4]]
                            if n == 3:
                                if noise == "y_cov":
                                    continue
                                sub = (3, rot)
                            elif n == 5:
                                sub = (3, rot) if d == 1 else (9, rot)
                            else:
                                # n = 8: each kernel x mean once, (d, noise) rotating
                                if (ki + 2 * mi + seed) % 6 != (d - 1) * 3 + ni:
                                    continue
                                sub = (9, rot)
                        else:
                            kk = [kinds[rot % 4], kinds[(rot + 2) % 4]]
                            sub = None if n < 8 else (3, rot)
                        for kind in kk:
                            des = make_design(n, d, kind, seed, noise)
                            thetas = hp_lattice(kspec, mspec, des, sub)
                            npoints += len(thetas)
                            per = 3 if n == 8 else (9 if n == 5 else 27)
                            for blk in chunks(thetas, per):
                                cases.append({"design": des, "kernel": kspec, "mean": mspec, "thetas": blk})
    # heaviest first for load balance
    cases.sort(key=lambda c: -(c["design"]["n"] ** 3) * len(c["thetas"][0]) * len(c["thetas"]))
    ck.run_cases("scores", cases, chunk=1)
    # ---- the same score lattice on data in other units (y, y_err and x far from 1, hyper-parameters expressed in the same units)
    scases = []
    for ki, kspec in enumerate(KERNELS):
        for mi, mspec in enumerate(MEANS):
            for si, (xs_, ys_) in enumerate(DATA_SCALES):
                rot = seed + ki + mi + si
                if quick and si >= 5 and (ki + mi + seed) % 4 != (si - 5):
                    continue  # quick: every single-axis scale, one rotating combination
                for j in range(1 if quick else 3):
                    n, d = [(3, 1), (4, 2), (5, 1), (3, 2), (4, 1), (5, 2)][(rot + 2 * j) % 6]
                    noise = ["y_err", "none", "y_cov"][(rot + j) % 3]
                    des = scale_design(make_design(n, d, kinds[(rot + j) % 4], seed, noise), xs_, ys_)
                    thetas = hp_lattice(kspec, mspec, des, (9, rot + j) if quick else (3, rot + j))
                    for blk in chunks(thetas, 3 if quick else 9):
                        scases.append({"design": des, "kernel": kspec, "mean": mspec, "thetas": blk})
    ck.run_cases("scores", scases, chunk=1)
    ck.extra["data_scale_lattice"] = {"scales_x_y": DATA_SCALES, "cases": len(scases)}

    # ---------------------------------------------------------------- automatic selection, bfgs
    sel = []
    ntuples = [0]

    def npar(des, kspec, mspec):
        return G.mean_n_params(mspec, des["d"]) + G.kernel_n_params(kspec, des["d"])

    def add_tuples(des, kspec, mspec, cross_val, n_starts, tuples, per=54, **kw):
        ntuples[0] += len(tuples)
        for blk in chunks(tuples, per):
            c = {"design": des, "kernel": kspec, "mean": mspec, "cross_val": cross_val, "n_starts": n_starts, "prefix": [], "tuples": blk}
            c.update(kw)
            sel.append(c)

    def add_product(des, kspec, mspec, cross_val, n_starts, **kw):
        """every ordered tuple of placements"""
        p = npar(des, kspec, mspec)
        starts = n_starts if n_starts is not None else int(2 * math.sqrt(p)) + 1
        add_tuples(des, kspec, mspec, cross_val, n_starts, [list(t) for t in itertools.product(range(3**p), repeat=starts - 1)], **kw)

    def add_multisets(des, kspec, mspec, cross_val, n_starts, **kw):
        """every multiset of placements (one order each) + all orders of every 29th multiset"""
        p = npar(des, kspec, mspec)
        starts = n_starts if n_starts is not None else int(2 * math.sqrt(p)) + 1
        ms = [list(t) for t in itertools.combinations_with_replacement(range(3**p), starts - 1)]
        extra = []
        for t in ms[seed % 29 :: 29]:
            extra += [list(q) for q in sorted(set(itertools.permutations(t)))[1:]]
        add_tuples(des, kspec, mspec, cross_val, n_starts, ms + extra, **kw)

    def add_diag(des, kspec, mspec, cross_val):
        """default number of starts, p >= 4: all tuples in which at most one start differs from the others"""
        p = npar(des, kspec, mspec)
        nrand = int(2 * math.sqrt(p))
        npl = 3**p
        tuples = [[a] * nrand for a in range(npl)]
        for a in range(npl):
            b = (a * 7 + 3 + seed) % npl
            if b != a:
                tuples.append([a] * (nrand - 1) + [b])
                tuples.append([b] + [a] * (nrand - 1))
        add_tuples(des, kspec, mspec, cross_val, None, tuples, per=27)

    d5e = make_design(5, 1, "irregular", seed, "y_err")
    d5n = make_design(5, 1, "regular", seed, "none")
    d8e = make_design(8, 1, "permuted", seed, "y_err")
    d52 = make_design(5, 2, "irregular", seed, "y_err")
    # p = 3 (constant mean + SE, d=1), default number of starts (4 = 3 scripted + centre)
    for cv in (False, True):
        if quick:
            # one criterion with the default number of starts, the other with two scripted starts (rotating with the seed)
            if int(cv) == seed % 2:
                add_multisets(d5e, "SE", "C", cv, None)
            else:
                add_product(d5e, "SE", "C", cv, 3)
        else:
            add_product(d5e, "SE", "C", cv, None)
            add_multisets(d5n, "SE", "C", cv, None)
            add_multisets(d8e, "SE", "C", cv, None)
        # bounds supplied by the user instead of estimated
        if quick:
            add_product(d5e, "SE", "C", cv, 3, user_bounds=True)
        elif not cv:
            add_product(d5e, "SE", "C", cv, None, user_bounds=True)
        else:
            add_multisets(d5e, "SE", "C", cv, None, user_bounds=True)
    # p = 4: one and two scripted starts exhaustively, default number of starts (5) on the near-diagonal
    p4 = [("RQ", "C", d5e), (["+", "SE", "WN"], "C", d5n), ("SE", "L", d5e), ("SE", "C", d52)]
    for i, (kspec, mspec, des) in enumerate(p4):
        for cv in (False, True):
            add_product(des, kspec, mspec, cv, 2)
            if not quick and (i + int(cv)) % 2 == seed % 2:
                add_product(des, kspec, mspec, cv, 3)
            if not quick or (i + int(cv) + seed) % 4 == 1:
                add_diag(des, kspec, mspec, cv)
    # p = 5..7: a single scripted start exhaustively
    big = [("RQ", "L", d5e), ("SE", "Q", d8e)] + ([] if quick else [(["CP", 0, "SE", "SE"], "C", d8e), ("RQ", "Q", d5e)])
    for i, (kspec, mspec, des) in enumerate(big):
        for cv in (False, True):
            if quick and (i + int(cv) + seed) % 2:
                continue
            add_product(des, kspec, mspec, cv, 2)
    ck.run_cases("select", sel, chunk=1)

    # ---------------------------------------------------------------- automatic selection on near-noise-free smooth data
    # (designs on which L-BFGS-B legitimately terminates abnormally from some starts; same oracle)
    sel_main, sel = sel, []
    levels = [1e-4, 1e-5, 1e-6] if quick else [1e-3, 1e-4, 1e-5, 1e-6]
    nnf_designs = 0
    for ni, n in enumerate((8, 12, 15)):
        for ki, kind in enumerate(SMOOTH_KINDS):
            for li, level in enumerate(levels):
                for cv in (False, True):
                    for bi, ub in enumerate((None, "wide")):
                        if quick and (ni + ki + li + int(cv) + bi + seed) % 4:
                            continue  # a Latin quarter: every pair of axis values still occurs
                        des = make_smooth_design(n, 1, kind, seed, level)
                        kw = {"user_bounds": ub} if ub else {}
                        add_product(des, "SE", "C", cv, 2, **kw)
                        nnf_designs += 1
    if not quick:
        # p = 4 (one scripted start, 81 placements): other kernel / mean / two input dimensions
        for i, (kspec, mspec, d) in enumerate([("RQ", "C", 1), ("SE", "L", 1), (["+", "SE", "WN"], "C", 1), ("SE", "C", 2)]):
            for ki, kind in enumerate(SMOOTH_KINDS):
                for li, level in enumerate((1e-5, 1e-6)):
                    for cv in (False, True):
                        if (i + ki + li + int(cv) + seed) % 2:
                            continue
                        add_product(make_smooth_design(12, d, kind, seed, level), kspec, mspec, cv, 2)
                        nnf_designs += 1
        # p = 3 with the default number of starts (3 scripted + centre): every multiset of placements
        for i, (n, kind, level) in enumerate([(12, "regular", 1e-5), (8, "neardup", 1e-6)]):
            for cv in (False, True):
                if (i + int(cv) + seed) % 2 == 0:
                    add_multisets(make_smooth_design(n, 1, kind, seed, level), "SE", "C", cv, None)
                    nnf_designs += 1
    ck.run_cases("select_nnf", sel, chunk=1)
    sel_nnf, sel = sel, sel_main

    # ---------------------------------------------------------------- differential evolution: bounds only
    dv = []
    dlist = [("SE", "C", d5e), ("RQ", "C", d5e), (["+", "SE", "WN"], "L", d5n), ("SE", "C", d52)]
    if not quick:
        dlist += [(["CP", 0, "SE", "SE"], "C", d8e), ("SE", "Q", d8e), ("RQ", "L", d52)]
    for kspec, mspec, des in dlist:
        for cv in (False, True):
            dv.append({"design": des, "kernel": kspec, "mean": mspec, "cross_val": cv, "seed": seed})
    ck.run_cases("diffev", dv, chunk=1)

    # ---------------------------------------------------------------- automatic selection through a process pool (main process, serial)
    mpc = []
    nnf = make_smooth_design(8, 1, SMOOTH_KINDS[seed % len(SMOOTH_KINDS)], seed, 1e-5)
    for n_starts in range(1, 7):
        nrand = n_starts - 1
        cv = bool((n_starts + seed) % 2)
        ntup = 1 if nrand == 0 else (2 if quick else 6)
        tuples = [[(5 * seed + 7 * k + 3 * j + n_starts) % 27 for j in range(nrand)] for k in range(ntup)]
        mpc.append({"design": d5e, "kernel": "SE", "mean": "C", "cross_val": cv, "n_starts": n_starts, "tuples": tuples, "n_processes": [1, 2, 3]})
        if not quick or n_starts in (2, 3, 5):
            mpc.append({"design": nnf, "kernel": "SE", "mean": "C", "cross_val": not cv, "n_starts": n_starts, "tuples": tuples[: (1 if quick else 3)], "n_processes": [1, 2, 3]})
        if not quick and n_starts >= 2:
            mpc.append({"design": d5e, "kernel": "RQ", "mean": "C", "cross_val": cv, "n_starts": n_starts, "tuples": [[(11 * seed + 13 * k + 5 * j + n_starts) % 81 for j in range(nrand)] for k in range(3)], "n_processes": [1, 2, 3]})
    ck.run_cases("select_mp", mpc, parallel=False)

    # ---------------------------------------------------------------- several regressor objects, interleaved
    def styled(style, j, rot):
        n, d = [(3, 1), (5, 2), (5, 1), (8, 1)][(rot + j) % 4] if j < 2 else (4, 2)
        des = make_design(n, d, kinds[(rot + j) % 4], seed + 2 * j, noises[(rot + 2 * j) % 3])
        o = {"style": style, "design": des}
        if style == "instances":
            o["kernel"], o["mean"] = KERNELS[(rot + j) % len(KERNELS)], MEANS[(rot + 2 * j) % len(MEANS)]
        k, m = gp_style_spec(o)
        lat = hp_lattice(k, m, des, (9, rot + j))
        o["hyperpars"] = lat[(rot + j) % len(lat)]
        o["thetas"] = [lat[(rot + j + 1) % len(lat)], lat[(rot + j + 4) % len(lat)]]
        X = np.array(des["X"], dtype=float)
        o["points"] = (X[:-1] + 0.37 * (X[1:] - X[:-1])).tolist() + [(X.min(axis=0) - 0.2 * (X.max(axis=0) - X.min(axis=0))).tolist()]
        return o

    two = []
    for pi, (s0, s1) in enumerate(itertools.product(GP_STYLES, repeat=2)):
        for order in ("all-first", "at-first-use"):
            two.append({"objects": [styled(s0, 0, seed + pi), styled(s1, 1, seed + pi)], "max_len": 3 if (not quick or "default" in (s0, s1)) else 2, "build_orders": [order]})
    trip = [t for t in itertools.product(GP_STYLES, repeat=3) if not quick or t.count("default") >= 2]
    for ti, t in enumerate(trip):
        two.append({"objects": [styled(st, j, seed + ti) for j, st in enumerate(t)], "max_len": 2 if quick else 3, "build_orders": ["all-first", "at-first-use"]})
    two.sort(key=lambda c: -((len(GP_OPS) * len(c["objects"])) ** c["max_len"]))
    ck.run_cases("two_models", two, chunk=1)

    # ---------------------------------------------------------------- input forms: reject or be right
    fcases = []
    fnd = [(4, 1), (5, 2), (3, 2), (5, 1), (8, 1), (4, 2)]
    for ai, arg in enumerate(FORM_ARGS):
        for j in range(4 if quick else len(fnd)):  # any four consecutive entries hold both d = 1 and d = 2
            n, d = fnd[(ai + j + seed) % len(fnd)]
            for ki in range(1 if quick else 2):
                rot = seed + ai + j + ki
                noise = arg if arg in ("y_err", "y_cov") else noises[rot % 3]
                kspec, mspec = KERNELS[(rot + ki) % len(KERNELS)], MEANS[(rot + 2 * ki) % len(MEANS)]
                des = make_design(n, d, kinds[rot % 4], seed, noise)
                lat = hp_lattice(kspec, mspec, des, (9, rot))
                fcases.append({"design": des, "kernel": kspec, "mean": mspec, "theta": lat[(rot + 1) % len(lat)], "arg": arg})
    ck.run_cases("input_forms", fcases, chunk=1)
    ck.extra["input_form_cases"] = len(fcases)

    # ---------------------------------------------------------------- hyper-parameter vector forms: reject or be right
    tcases = []
    for ki, kspec in enumerate(KERNELS):
        for mi, mspec in enumerate(MEANS):
            if quick and (ki + mi + seed) % 3:
                continue
            for j in range(1 if quick else 3):
                rot = seed + ki + 2 * mi + j
                n, d = fnd[rot % len(fnd)]
                des = make_design(n, d, kinds[rot % 4], seed, noises[rot % 3])
                lat = hp_lattice(kspec, mspec, des, (9, rot))
                for integer in (True, False):
                    tcases.append({"design": des, "kernel": kspec, "mean": mspec, "theta": lat[(rot + 2 + int(integer)) % len(lat)], "integer": integer})
    ck.run_cases("theta_forms", tcases, chunk=1)
    ck.extra["theta_form_cases"] = len(tcases)

    # ---------------------------------------------------------------- hundreds of accurately measured points (float64 numpy reference)
    lcases = []
    lkm = [("SE", "C"), ("RQ", "L"), (["+", "SE", "WN"], "C"), ("SE", "L"), ("RQ", "C")]
    lkinds = ["regular", "irregular", "clustered"]
    llevels = [1e-2, 1e-4, 1e-6] if quick else [1e-2, 1e-3, 1e-4, 1e-5, 1e-6]
    lpats = [(1, 1, 0, 0), (0, 2, 1, 1), (2, 0, 2, 2)]
    for ni, n in enumerate((100, 300, 600)):
        for li, level in enumerate(llevels):
            for ci, (kspec, mspec) in enumerate(lkm):
                for xi, kind in enumerate(lkinds):
                    if quick and ((ni + li + seed) % len(lkm) != ci or (ni + 2 * li + seed) % 3 != xi):
                        continue
                    if not quick and (ni + li + ci + xi + seed) % 2:
                        continue
                    des = make_smooth_design(n, 1, kind, seed, level)
                    sc = design_scales(des)
                    thetas = [mean_theta(mspec, im, sc) + kernel_theta(kspec, (ia, il, ie), sc, "y_err") for im, ia, il, ie in lpats]
                    lcases.append({"design": des, "kernel": kspec, "mean": mspec, "thetas": thetas, "level": level})
    lcases.sort(key=lambda c: -c["design"]["n"])
    ck.run_cases("large_n", lcases, chunk=1)
    ck.extra["large_n_cases"] = len(lcases)

    ck.rule = (
        "data-scale lattice (keys scaled/<any scores key>, evaluator scores): the score lattice on the same data in other units: (x, y) multiplied by (1, 1e-6), (1, 1e6), (1e-6, 1), (1e6, 1), (1, 1e-9) and the combinations "
        "(1e-6, 1e-6), (1e6, 1e6), (1e6, 1e-9), (1e-6, 1e6), y_err scaled with y (y_cov with y^2) and the hyper-parameter lattice expressed in the scaled units (built from the scaled design), for every kernel x mean on a "
        "rotating (n in 3..5, d, noise, layout) (quick: every single-axis scale and one rotating combination, a ninth of the hyper-parameter lattice; thorough: all, three designs, a third): marginal likelihood, LOO score, "
        "LOO predictions, the value-and-gradient variants and both gradients against the 50-digit reference with the same derived tolerances; distinct by (scale pair, kernel, mean, d, n, noise, layout, cond decade). "
        "theta_forms (keys theta-forms/<form>/<operation>-<part>-differs-from-float64-array, ../hyper-parameter-vector-modified): marginal_likelihood, marginal_likelihood_gradient, loo_likelihood, "
        "loo_likelihood_gradient and set_hyperparameters followed by prediction / loo_predictions, each on a new model, given the hyper-parameter vector as {list / tuple of Python floats, list of numpy "
        "floats, strided view, reversed view, read-only array, float32 array, float32 strided view, longdouble array} and, for lattice points moved to integer values, also {int64 array, int32 array, "
        "list / tuple of Python ints, int64 strided view, read-only int64 array, list mixing ints and floats}: a form that is not refused with an exception must give the results of the equivalent float64 array "
        "(bit for bit, else max(1e-12, 64 eps cond(K+S)) relative; eps = float32 epsilon for the float32 forms) and must not be modified; %d cases over the kernels x means x rotating designs. "
        "large_n (keys large-n/..): n in {100, 300, 600} points in one dimension, a smooth signal measured to {1e-2, 1e-4, 1e-6} (thorough also 1e-3, 1e-5) of its range, inputs {regular, irregular, pairs 0.013 apart}, "
        "(kernel, mean) in {SE+const, RQ+linear, SE+WN+const, SE+linear, RQ+const} (quick: a Latin selection rotating with the seed; thorough: half of the product), three hyper-parameter vectors each: "
        "marginal_likelihood and loo_likelihood by the value path and by the value-and-gradient path must be finite (gradients too), agree with each other and with a float64 numpy reference (slogdet / solve / inv of "
        "the documented covariance + stated variances + the model's measured diagonal stabiliser) within first-order rounding bounds proportional to n eps cond(K+S); %d cases. "
        "input_forms (keys forms/..): for each of the constructor arguments y_err, y_cov, y, x every listed container form of the SAME numbers (y_err / y: (N,1), (1,N), (N,1,1) arrays, list, tuple, list of 1-lists, "
        "(1,N) list, strided views; y_err also a Python float, 0-d, length-1 and (1,1) array, length-1 list meaning one error for all points; y_cov: list of lists, tuple of tuples, list of row arrays, Fortran order, "
        "strided view, (1,N,N), (N,N,1); x: flat / list / tuple / list of 1-lists / strided / (1,N) / (N,1,1) for d = 1, list of lists / tuple of tuples / list of rows / Fortran order / strided / (N,d,1) / transposed for d = 2) "
        "on four designs (d = 1 and d = 2) per argument (thorough: six designs x two kernel / mean pairs): a form the constructor ACCEPTS must give marginal_likelihood, loo_likelihood, both gradient variants, "
        "predictions and loo_predictions equal (bit for bit, else max(1e-12, 64 eps cond(K+S)) relative) to those of the canonical flat-array form; a form the constructor refuses (ValueError / TypeError) is counted as rejected in the tag. "
        "scores: cartesian lattice designs (n in 3,5,8; d in 1,2; 4 point layouts) x noise (none, y_err, full y_cov) x kernels (SE, RQ, SE+WN, "
        "CP(SE,SE)) x means (constant, linear, quadratic) x {low,mid,high} per hyper-parameter block (mean, amplitude, length-scale, extra) "
        "(quick: Latin thirds/ninths of the hyper-parameter product); distinct = (configuration, decade of cond(K+S)). select: every tuple of "
        "scripted start placements from {0,1/2,1-}^p: p=3 with the default 4 starts - thorough the full ordered product 27^3 (one design; multisets on two more), quick all 3654 "
        "multisets plus all orders of every 29th for one criterion and the product 27^2 with two scripted starts for the other; p=4 - one scripted start (81), two (6561, thorough), default 5 starts on the near-diagonal; "
        "p=5..7 one scripted start (3^p); distinct = configuration x number of distinct optima reached. select_nnf: the same oracle on near-noise-free smooth data "
        "(y a smooth function of position + a wiggle of the size of the stated errors): n in 8,12,15 x inputs {regular, irregular, pairs 1e-3 of the range apart, pairs 0.013 apart} x "
        "error level {1e-3 (thorough), 1e-4, 1e-5, 1e-6} x both criteria x bounds {estimated, user-supplied wide box: 3 e-foldings / a factor 100..1000 either side} with every placement of one "
        "scripted start (27) (quick: a Latin quarter of the design product); thorough adds p=4 configurations (RQ, linear mean, SE+WN, d=2; 81 placements) and every multiset of three "
        "scripted starts on two designs; the termination flags of the optimiser runs are observed (pass-through) only to tag the designs on which a run ended abnormally / the best run ended "
        "abnormally while another ended normally. diffev: fixed numpy seed, bounds only. select_mp: n_processes {1,2,3} x n_starts 1..6 x scripted start tuples, real pool, from the main process; "
        "distinct = (n_starts, n_processes, n_starts mod n_processes). two_models: two GpRegressor objects, every ordered pair of construction styles {no kernel/mean argument, default classes passed "
        "explicitly, own instances (rotating kernel/mean), ChangePoint from classes + mean class} (16; three objects: %d triples), each with its own data (size, dimension, layout, noise model), "
        "objects {all built first, each built at first use}: every sequence of operations (object, {marginal_likelihood, loo_likelihood, their gradient variants, prediction at new points, "
        "loo_predictions}), compared bit-for-bit (else 1e-12) with the same operation on that object alone." % (len(tcases), len(lcases), len(trip))
    )
    ck.assume("hyper-parameter vector forms: which forms a method accepts is not part of the claim (an exception of any type counts as a refusal and is tagged); numpy evaluates exp() of float32 "
              "hyper-parameters in single precision, so for float32 vectors agreement with the float64 array of the same values is required to float32 rounding (64 eps32 cond) only; integer forms are "
              "int32 / int64 / Python ints (narrower integer types, which numpy maps to half / single precision, are not exercised)")
    ck.assume("large-n: the reference is float64 numpy (no 50-digit arithmetic at this size), so the oracle is limited to the first-order rounding bound 4 n eps cond(K+S) on the quadratic form, "
              "2 n^2 eps cond on the half log-determinant and the corresponding bound on the leave-one-out terms; hyper-parameter vectors with n eps cond(K+S) > 1 are skipped and counted; gradients at this "
              "size are only required to be finite (their values are checked against the 50-digit reference for n <= 8)")
    ck.assume("input forms: which container forms the constructor accepts is not part of the claim (any may be refused with ValueError / TypeError; a constructor that breaks with another exception type on "
              "an undocumented form, e.g. AttributeError for y_cov given as a list, produces no model and is counted in a separate tag, not as a violation); a scalar / length-1 y_err, if accepted, can only mean the same error for every point")
    ck.assume("data-scale lattice: units of y from 1e-9 to 1e6 and of x from 1e-6 to 1e6 with the errors and the hyper-parameters expressed in the same units (amplitudes, noise levels and mean coefficients with y, "
              "length-scales, change-point location and width with x); the reference's difference step is 1e-10 natural units of each parameter (the change-point width for a location / width)")
    ck.assume("continuous inputs are represented by the listed finite lattices; n <= 8 (50-digit reference); points with cond(K+S) > 1e10 are skipped and counted")
    ck.assume("the diagonal stabiliser of smooth kernels is accepted as any relative inflation in [0,1e-10] of the kernel diagonal (measured from the model's data covariance)")
    ck.assume("near-noise-free selection designs are limited to stated errors of 1e-3..1e-6 of the data range, n <= 15, one smooth target function and the listed input layouts; an exception escaping from the constructor on such data is reported as a violation")
    ck.assume("random BFGS starts are enumerated on the alphabet {0,1/2,1-}^p only; scipy's differential_evolution consumes its own random stream and is only checked for bounds membership under numpy.random.seed(VERIF_SEED)")
    ck.assume("n_processes in {1,2,3} x n_starts in 1..6 is exercised serially from the main process on one p=3 design (+ one near-noise-free design; thorough: + a p=4 model) with "
              "%s scripted start tuples each (the starts are drawn in the calling process); the pool selection is required to score the same as the single-process one (identical point, or equal score within the derived score tolerance)" % ("2" if quick else "6"))
    ck.assume("several live objects: 2 or 3 GpRegressor objects with given hyper-parameters, <= 3 operations (quick: <= 2 when no object is default-built or with three objects); the caller gives each object its own kernel / mean instances")
    ck.assume("gradients are required to an absolute floor of 1e3 eps (score magnitude) per natural parameter unit in addition to the first-order rounding bound")
    ck.extra["score_lattice_points"] = npoints
    ck.extra["select_blocks"] = len(sel)
    ck.extra["select_start_tuples"] = ntuples[0]
    ck.extra["select_nnf_blocks"] = len(sel_nnf)
    ck.extra["select_nnf_designs"] = nnf_designs
    ck.extra["select_mp_blocks"] = len(mpc)
    ck.extra["two_models_blocks"] = len(two)
