"""C06 – priors are normalised, sample from themselves and compose by index; posterior = likelihood + prior;
generate_initial_guesses returns the best prior draws in increasing cost.

Engine D (exhaustive lattices) with a scripted stand-in for the module-level generator of inference.priors
(mc/ref/c06_ref.QuantileRng: every variate is the quantile-u variate of the requested law).

Evaluators
  class      one variable: hyper-parameter lattice x theta lattice (inside / edge / outside), input forms, bounds,
             draws at the quantile alphabet against the reference CDF *and* against the integral of the object's own density,
             normalisation by quadrature over the advertised bounds
  layout     one component on every ordered selection of k<=3 indices of a 4-vector
  joint      ALL assignments of n<=4 (5) variables to <=3 components of types G/E/U, all component orders and
             index orders: value, gradient, bounds, draws
  posterior  Posterior(likelihood, prior) against the sum of its parts (real classes on joint layouts; exact stubs)
  guesses    generate_initial_guesses on all orderings of <=5 scripted draws x all n_guesses<=prior_samples
  guesses_big  the same with prior_samples in {200, 1000} (stride-permuted quantile draws) x n_guesses in {1, 2, 50, 100, 199, 200, 300, 999, 1000}:
             the n_guesses best draws, in increasing cost (guesses-big/not-in-increasing-cost, ../not-the-best-draws, ../guess-is-not-a-prior-draw, ...)
  reuse      object-reuse histories: components (from caller-held index lists / arrays) -> stand-alone use -> JointPrior -> stand-alone use -> second /
             third / fourth JointPrior from the SAME objects (same, reversed, rotated order) -> JointPriors from a subset of the objects plus a new
             component -> Posteriors; after every step every object built so far gives exactly what a freshly built equal object gives
             (reuse/<class>/<quantity>-differs-from-fresh-equal-object-after/<step>), the caller's lists / arrays are unchanged
             (reuse/caller-index-list-modified-after/<step>, reuse/caller-hyper-parameter-array-modified-after/<step>, reuse/caller-component-list-modified-after/<step>),
             a construction from re-used objects that raises is reuse/<label>/raises:<Type>; at the end also against the reference (reuse/<class>/at-end-of-history/..)
"""
import itertools

import numpy as np

from mc.core import fail, lib, HarnessError, LibFailure

LEVEL = "exploration"

EPS = float(np.finfo(float).eps)
CTOL = 16.0  # value/gradient tolerance = CTOL * eps * sum|terms| of the reference
QUAD_TOL = 1e-9
U5 = [0.01, 0.1, 0.5, 0.9, 0.99]
OUT = -1e99  # outside the support: the code's "-1e100" convention is accepted as "<= -1e99" (so is -inf)

CLASSNAME = {"G": "GaussianPrior", "E": "ExponentialPrior", "U": "UniformPrior"}

JOINT_HYPER = {
    "G": [(0.5, 1.0), (-1.25, 0.25), (3.0, 2.0), (-0.75, 0.5), (2.0, 4.0)],
    "E": [(1.0,), (0.5,), (3.0,), (0.2,), (2.0,)],
    "U": [(0.0, 1.0), (-3.0, 5.0), (1.0, 1.5), (-2.0, -1.0), (-0.5, 4.0)],
}

CLASS_HYPER = {
    "G": [(m, s) for m in (0.0, -1.5, 0.3, 1e6, -1e3) for s in (1e-6, 1e-3, 0.5, 1.0, 7.0, 1e3)],
    "E": [(b,) for b in (1e-6, 1e-3, 0.5, 1.0, 7.0, 1e3)],
    "U": [(0.0, 1.0), (-3.0, 5.0), (1e8, 1e8 + 1.0), (-1e-3, 2e-3), (-1e6, -1e6 + 1e3), (0.1, 0.7)],
}
QUAD_HYPER = {
    "G": [(0.0, 1e-6), (0.0, 1e-3), (-1.5, 0.5), (0.3, 1.0), (0.3, 7.0), (0.0, 1e3), (-1e3, 1e3)],
    "E": CLASS_HYPER["E"],
    "U": CLASS_HYPER["U"],
}


def hyper(t, i, seed):
    return JOINT_HYPER[t][(i + seed) % 5]


def inside_value(t, h, which):
    if t == "G":
        return h[0] + (0.7, -2.1, 0.0)[which] * h[1]
    if t == "E":
        return (0.3, 2.5, 1.0)[which] * h[0]
    return h[0] + (0.25, 0.8125, 0.5)[which] * (h[1] - h[0])


def outside_values(t, h):
    if t == "G":
        return []
    if t == "E":
        return [-0.4 * h[0]]
    w = h[1] - h[0]
    return [h[0] - 0.5 * w, h[1] + 0.25 * w]


def build_component(P, t, idxs, hs, form="array", idx_form="list"):
    def conv(vals):
        if form == "array":
            return np.array(vals, dtype=float)
        if form == "list":
            return [float(v) for v in vals]
        if form == "tuple":
            return tuple(float(v) for v in vals)
        if form == "float":
            return float(vals[0])
        if form == "int":
            return int(vals[0])
        if form == "0d":
            return np.array(float(vals[0]))
        raise HarnessError(form)

    if idx_form == "list":
        vi = [int(i) for i in idxs]
    elif idx_form == "tuple":
        vi = tuple(int(i) for i in idxs)
    elif idx_form == "int":
        vi = int(idxs[0])
    elif idx_form == "range":
        vi = range(int(idxs[0]), int(idxs[0]) + 1)
    else:
        raise HarnessError(idx_form)
    if t == "G":
        return P.GaussianPrior(mean=conv([h[0] for h in hs]), sigma=conv([h[1] for h in hs]), variable_indices=vi)
    if t == "E":
        return P.ExponentialPrior(beta=conv([h[0] for h in hs]), variable_indices=vi)
    if t == "U":
        return P.UniformPrior(lower=conv([h[0] for h in hs]), upper=conv([h[1] for h in hs]), variable_indices=vi)
    raise HarnessError(t)


def norm_bound(b):
    """(lo, hi) with None read as unbounded"""
    lo, hi = b
    lo = -np.inf if lo is None else float(lo)
    hi = np.inf if hi is None else float(hi)
    return lo, hi


class Ref:
    """reference for a vector of independently distributed variables: var i has (type, hyper) laws[i]"""

    def __init__(self, laws):
        from mc.ref import c06_ref as R
        import mpmath as mp

        self.R, self.mp, self.laws = R, mp, laws
        self._c = {}

    def lp(self, i, x):
        k = ("lp", i, x)
        if k not in self._c:
            t, h = self.laws[i]
            self._c[k] = self.R.logpdf(t, h, x)
        return self._c[k]

    def pos(self, i, x):
        t, h = self.laws[i]
        return self.R.position(t, h, x)

    def check_value(self, v, theta, idxs, key, fails, slack, det):
        """value of a prior over variables idxs at theta. returns situation tag"""
        mp = self.mp
        if np.ndim(v) != 0:
            fails.append(fail(f"{key}/value-not-a-scalar", f"shape {np.shape(v)}", **det))
            return "bad"
        v = float(v)
        poss = [self.pos(i, float(theta[i])) for i in idxs]
        if v != v:
            fails.append(fail(f"{key}/value-nan", f"nan at theta={np.asarray(theta).tolist()}", **det))
            return "bad"
        if "out" in poss:
            if not v <= OUT:
                fails.append(fail(f"{key}/positive-density-outside-support", f"value {v!r} at theta={np.asarray(theta).tolist()} with variable(s) {[i for i, p in zip(idxs, poss) if p == 'out']} outside the support", observed=v, expected="<= -1e99", **det))
            return "out"
        ref = sum((self.lp(i, float(theta[i]))[0] for i in idxs), mp.mpf(0))
        sc = sum((self.lp(i, float(theta[i]))[1] for i in idxs), mp.mpf(0))
        tol = CTOL * EPS * float(sc)
        if "edge" in poss and v <= OUT:
            return "edge-excluded"
        err = abs(mp.mpf(v) - ref) if np.isfinite(v) else mp.inf
        s = float(err) / tol if err != mp.inf else float("inf")
        slack[f"{key.split('/')[0]}/value"] = max(slack.get(f"{key.split('/')[0]}/value", 0.0), s)
        if not err <= tol:
            fails.append(fail(f"{key}/log-density", f"value {v!r} vs sum of per-variable reference log-densities {mp.nstr(ref, 20)} at theta={np.asarray(theta).tolist()} (tol {tol:.3g})", observed=v, expected=mp.nstr(ref, 25), **det))
        return "edge" if "edge" in poss else "in"

    def check_gradient_entries(self, g, theta, pairs, key, fails, slack, det):
        """pairs: (position in g, variable index); only called with all listed variables strictly inside"""
        mp = self.mp
        for pos, i in pairs:
            t, h = self.laws[i]
            ref, sc = self.R.dlogpdf(t, h, float(theta[i]))
            tol = CTOL * EPS * float(sc)
            gi = float(g[pos])
            err = abs(mp.mpf(gi) - ref) if np.isfinite(gi) else mp.inf
            ok = err <= tol
            s = (0.0 if err == 0 else float("inf")) if tol == 0.0 else (float(err) / tol if err != mp.inf else float("inf"))
            slack[f"{key.split('/')[0]}/gradient"] = max(slack.get(f"{key.split('/')[0]}/gradient", 0.0), s)
            if not ok:
                fails.append(fail(f"{key}/gradient-entry", f"gradient[{pos}] = {gi!r} but d log f_{i}/d theta_{i} = {mp.nstr(ref, 20)} (law {t}{h}) at theta={np.asarray(theta).tolist()}; gradient={np.asarray(g).tolist()}", observed=np.asarray(g).tolist(), expected_entry=mp.nstr(ref, 25), **det))
                return False
        return True

    def check_sample(self, s, pairs, us, key, fails, slack, det, distinct=False):
        """pairs: (position in s, variable index). us: the quantiles consumed.  constant script: F_i(s_i) == u;
        distinct quantiles: coordinates map injectively to consumed draws"""
        mp = self.mp
        used = []
        for pos, i in pairs:
            t, h = self.laws[i]
            x = float(s[pos])
            if x != x:
                fails.append(fail(f"{key}/sample-nan", f"coordinate {pos} is nan; sample={np.asarray(s).tolist()}", **det))
                return False
            F = self.R.cdf(t, h, x)
            tol = self.R.cdf_tolerance(t, h, x)
            errs = [abs(F - mp.mpf(u)) for u in us]
            k = min(range(len(us)), key=lambda j: errs[j])
            sl = float(errs[k]) / tol
            slack[f"{key.split('/')[0]}/sample-cdf"] = max(slack.get(f"{key.split('/')[0]}/sample-cdf", 0.0), sl)
            if not errs[k] <= tol:
                fails.append(fail(f"{key}/sample-not-quantile-of-own-law", f"sample[{pos}] = {x!r}: F_{i}(x) = {mp.nstr(F, 12)} under its own law {t}{h}, scripted quantile(s) {sorted(set(us))}; sample={np.asarray(s).tolist()}", observed=np.asarray(s).tolist(), cdf=mp.nstr(F, 20), quantiles=list(us), **det))
                return False
            used.append(k)
        if distinct and len(set(used)) != len(used):
            fails.append(fail(f"{key}/sample-draw-reused", f"coordinates share one base variate: draw indices {used}; sample={np.asarray(s).tolist()}", observed=np.asarray(s).tolist(), **det))
            return False
        return True


# =============================================================================== class evaluator
def theta_lattice(t, h, quick):
    if t == "G":
        rs = [0.0, 0.5, -0.5, 3.0, -3.0, 30.0, -30.0, 300.0, -300.0] + ([] if quick else [1e4, -1e4, 1e-3, -1e-3])
        return [h[0] + r * h[1] for r in rs]
    if t == "E":
        b = h[0]
        return [0.0, -0.0] + [b * r for r in (1e-3, 0.5, 1.0, 3.0, 30.0, 300.0)] + [-b * r for r in (1e-3, 1.0, 300.0)] + [-5e-324, 5e-324]
    lo, up = h
    w = up - lo
    out = [lo, up] + [lo + k * (w / 8.0) for k in range(0, 9)] + [lo - w / 8.0, up + w / 8.0, lo - 50 * w, up + 50 * w]
    out += [float(np.nextafter(lo, -np.inf)), float(np.nextafter(up, np.inf)), float(np.nextafter(lo, np.inf)), float(np.nextafter(up, -np.inf))]
    return out


def ev_class(case):
    import inference.priors as P
    import mpmath as mp
    from mc.ref import c06_ref as R

    mp.mp.dps = 50
    t, h = case["type"], tuple(case["hyper"])
    cname = CLASSNAME[t]
    key = f"class/{cname}"
    fails, tags, slack, nev = [], set(), {}, 0
    N, own = case["N"], case["own"]
    laws = {own: (t, h)}
    ref = Ref(laws)
    forms = [("array", "list"), ("list", "tuple"), ("float", "int"), ("0d", "range"), ("tuple", "list")]
    if all(float(v).is_integer() and abs(v) < 2**53 for v in h):
        forms.append(("int", "int"))
    base = None
    for form, iform in forms:
        det = dict(type=t, hyper=list(h), form=form, index_form=iform, index=own, n_theta=N)
        with lib(f"{cname}-construct-{form}-{iform}"):
            pr = build_component(P, t, [own], [h], form, iform)
        # bounds
        with lib(f"{cname}-bounds"):
            b = list(pr.bounds)
        if len(b) != 1 or norm_bound(b[0]) != R.support(t, h):
            fails.append(fail(f"{key}/bounds-not-support", f"bounds {b!r} vs support {R.support(t, h)}", **det))
        for x in theta_lattice(t, h, case["quick"]):
            theta = np.full(N, 1e300)
            theta[::2] = -1e300
            theta[own] = x
            with lib(f"{cname}-call"):
                v = pr(theta)
            nev += 1
            sit = ref.check_value(v, theta, [own], key, fails, slack, dict(det, theta_own=x))
            with lib(f"{cname}-gradient"):
                g = np.asarray(pr.gradient(theta))
            nev += 1
            if g.shape not in ((1,), (N,)):
                fails.append(fail(f"{key}/gradient-shape", f"shape {g.shape}", **det))
            elif sit == "in":
                ref.check_gradient_entries(g, theta, [(0 if g.shape == (1,) else own, own)], key, fails, slack, dict(det, theta_own=x))
            tags.add(f"class {t} {sit} form={form}")
        # draws
        for u in U5:
            with R.scripted_prior_rng([u]) as gen:
                with lib(f"{cname}-sample"):
                    s = np.asarray(pr.sample())
            nev += 1
            if s.shape not in ((1,), (N,)):
                fails.append(fail(f"{key}/sample-shape", f"shape {s.shape}", **det))
                continue
            ref.check_sample(s, [(0 if s.shape == (1,) else own, own)], [u], key, fails, slack, dict(det, u=u, rng_calls=gen.calls))
            tags.add(f"class {t} draw u={u}")
    return {"fails": fails[:20], "n": nev, "tags": tags, "slack": slack, "sample": {"type": t, "hyper": list(h)}}


def ev_quad(case):
    """normalisation over the advertised bounds; draws against the integral of the object's own density"""
    import inference.priors as P
    import mpmath as mp
    from mc.ref import c06_ref as R

    mp.mp.dps = 20
    t, h = case["type"], tuple(case["hyper"])
    cname = CLASSNAME[t]
    key = f"class/{cname}"
    with lib(f"{cname}-construct"):
        pr = build_component(P, t, [0], [h])
    count = [0]

    def dens(xmp):
        x = float(xmp)
        count[0] += 1
        with lib(f"{cname}-call"):
            v = float(pr(np.array([x])))
        if v != v:
            return mp.mpf("nan")
        return mp.exp(mp.mpf(v)) if v > -1e300 else mp.mpf(0)

    with lib(f"{cname}-bounds"):
        lo, hi = norm_bound(list(pr.bounds)[0])
    if t == "G":
        inner = [h[0] + k * h[1] for k in (-300, -30, -6, -2, 0, 2, 6, 30, 300)]
    elif t == "E":
        inner = [h[0] * k for k in (0.5, 2, 6, 30, 300)]
    else:
        inner = [h[0] + (h[1] - h[0]) * k for k in (0.25, 0.5, 0.75)]
    inner = [x for x in inner if lo < x < hi]
    cuts = [mp.mpf(lo) if np.isfinite(lo) else -mp.inf] + [mp.mpf(x) for x in inner] + [mp.mpf(hi) if np.isfinite(hi) else mp.inf]
    fails, slack = [], {}
    det = dict(type=t, hyper=list(h))
    tot, e0 = mp.quad(dens, cuts, error=True)
    tol = QUAD_TOL + 10 * float(e0)
    slack["class/normalisation"] = float(abs(tot - 1)) / tol
    if not abs(tot - 1) <= tol:
        fails.append(fail(f"{key}/not-normalised-on-bounds", f"integral of exp(log-density) over the advertised bounds ({lo},{hi}) = {mp.nstr(tot, 15)}", observed=mp.nstr(tot, 18), expected="1", **det))
    # draws vs own density: integral from the lower bound to the draw equals u
    for u in U5:
        with R.scripted_prior_rng([u]) as gen:
            with lib(f"{cname}-sample"):
                s = np.asarray(pr.sample()).reshape(-1)
        x = float(s[0])
        c2 = [c for c in cuts if c < x] + [mp.mpf(x)]
        if len(c2) < 2:
            fails.append(fail(f"{key}/sample-below-bounds", f"draw {x} at quantile {u} below lower bound {lo}", **det))
            continue
        Fx, e1 = mp.quad(dens, c2, error=True)
        tol = QUAD_TOL + 10 * float(e1) + R.cdf_tolerance(t, h, x)
        slack["class/sample-vs-own-density"] = max(slack.get("class/sample-vs-own-density", 0.0), float(abs(Fx - u)) / tol)
        if not abs(Fx - u) <= tol:
            fails.append(fail(f"{key}/sample-vs-own-density", f"quantile-{u} draw {x!r}: integral of the object's own density up to the draw = {mp.nstr(Fx, 12)}", observed=mp.nstr(Fx, 18), expected=u, rng_calls=gen.calls, **det))
    return {"fails": fails, "n": count[0], "tags": {f"quad {t}{h}"}, "slack": slack, "sample": {"type": t, "hyper": list(h), "integral": mp.nstr(tot, 15)}}


# =============================================================================== layout evaluator
def ev_layout(case):
    """one component of one class on every ordered selection of k indices of an N-vector"""
    import inference.priors as P
    import mpmath as mp
    from mc.ref import c06_ref as R

    mp.mp.dps = 50
    t, k, N, seed = case["type"], case["k"], case["N"], case["seed"]
    cname = CLASSNAME[t]
    key = f"layout/{cname}"
    laws = {i: (t, hyper(t, i, seed)) for i in range(N)}
    ref = Ref(laws)
    fails, tags, slack, nev = [], set(), {}, 0
    for idxs in itertools.permutations(range(N), k):
        idxs = list(idxs)
        det = dict(type=t, indices=idxs, hypers=[list(laws[i][1]) for i in idxs], n_theta=N)
        with lib(f"{cname}-construct"):
            pr = build_component(P, t, idxs, [laws[i][1] for i in idxs])
        with lib(f"{cname}-bounds"):
            b = list(pr.bounds)
        if len(b) != k or any(norm_bound(b[j]) != R.support(*laws[i]) for j, i in enumerate(idxs)):
            fails.append(fail(f"{key}/bounds-not-support-of-listed-variable", f"bounds {b!r} for variables {idxs}", **det))
        vecs = []
        for which in (0, 1, 2):
            th = np.full(N, 1e300)
            for i in idxs:
                th[i] = inside_value(*laws[i], (which + i) % 3 if which == 2 else which)
            vecs.append(th)
        for j in idxs:
            for xo in outside_values(*laws[j]):
                th = vecs[0].copy()
                th[j] = xo
                vecs.append(th)
        for th in vecs:
            with lib(f"{cname}-call"):
                v = pr(th)
            with lib(f"{cname}-gradient"):
                g = np.asarray(pr.gradient(th))
            nev += 2
            sit = ref.check_value(v, th, idxs, key, fails, slack, dict(det, theta=th.tolist()))
            if g.shape not in ((k,), (N,)):
                fails.append(fail(f"{key}/gradient-shape", f"shape {g.shape}", **det))
            elif sit == "in":
                # length k: entry j belongs to the j-th listed variable; length N: entry i belongs to variable i (k == N: either)
                pairings = ([[(j, i) for j, i in enumerate(idxs)]] if g.shape == (k,) else []) + ([[(i, i) for i in idxs]] if g.shape == (N,) else [])
                trial = [[] for _ in pairings]
                oks = [ref.check_gradient_entries(g, th, pr_, key, tf, slack if len(pairings) == 1 else {}, dict(det, theta=th.tolist())) for pr_, tf in zip(pairings, trial)]
                if not any(oks):
                    fails += trial[0]
            tags.add(f"layout {t} k={k} {sit} sorted={idxs == sorted(idxs)}")
        for script, distinct in [([u], False) for u in U5] + [(U5, True), ([0.5, 0.01, 0.99, 0.1, 0.9], True)]:
            with R.scripted_prior_rng(script) as gen:
                with lib(f"{cname}-sample"):
                    s = np.asarray(pr.sample())
            nev += 1
            if s.shape != (k,):
                fails.append(fail(f"{key}/sample-shape", f"shape {s.shape} for {k} variables", **det))
                continue
            us = [c_u for c in gen.calls for c_u in c["u"]] or script
            pairings = [[(j, i) for j, i in enumerate(idxs)]] + ([[(i, i) for i in idxs]] if k == N and idxs != sorted(idxs) else [])
            trial = [[] for _ in pairings]
            oks = [ref.check_sample(s, pr_, us, key, tf, slack if len(pairings) == 1 else {}, dict(det, script=script, rng_calls=gen.calls), distinct=distinct) for pr_, tf in zip(pairings, trial)]
            if not any(oks):
                fails += trial[0]
    return {"fails": fails[:20], "n": nev, "tags": tags, "slack": slack}


# =============================================================================== joint evaluator
def compositions(n, kmax):
    """all ways to cut a sequence of n into k<=kmax non-empty consecutive blocks"""
    for k in range(1, min(kmax, n) + 1):
        for cuts in itertools.combinations(range(1, n), k - 1):
            edges = [0] + list(cuts) + [n]
            yield [(edges[j], edges[j + 1]) for j in range(k)]


def joint_configs(perm, kmax=3):
    n = len(perm)
    for blocks in compositions(n, kmax):
        comps = [list(perm[a:b]) for a, b in blocks]
        for types in itertools.product("GEU", repeat=len(comps)):
            yield comps, types


def build_joint(P, comps, types, seed):
    n = sum(len(c) for c in comps)
    laws = {}
    objs = []
    for idxs, t in zip(comps, types):
        hs = [hyper(t, i, seed) for i in idxs]
        for i, h in zip(idxs, hs):
            laws[i] = (t, h)
        objs.append(build_component(P, t, idxs, hs))
    return P.JointPrior(components=objs, n_variables=n), laws


def joint_thetas(laws, n):
    vecs = []
    for which in (0, 1, 2):
        vecs.append(np.array([inside_value(*laws[i], (which + i) % 3 if which == 2 else which) for i in range(n)]))
    nin = len(vecs)
    for j in range(n):
        for xo in outside_values(*laws[j]):
            th = vecs[0].copy()
            th[j] = xo
            vecs.append(th)
    return vecs, nin


def ev_joint(case):
    import inference.priors as P
    import mpmath as mp
    from mc.ref import c06_ref as R

    mp.mp.dps = 50
    perm, seed = case["perm"], case["seed"]
    n = len(perm)
    fails, tags, slack, nev = [], set(), {}, 0
    ncfg = 0
    last = None
    for comps, types in joint_configs(perm):
        ncfg += 1
        det = dict(components=[{"type": t, "indices": c} for c, t in zip(comps, types)], seed=seed)
        with lib("JointPrior-construct"):
            jp, laws = build_joint(P, comps, types, seed)
        ref = Ref(laws)
        merged = len(set(types)) < len(types)
        cfgclass = f"n={n},k={len(comps)},merged={merged},sorted={list(perm) == sorted(perm)}"
        key = "joint/" + ("merged" if merged else "distinct-types")
        # bounds
        with lib("JointPrior-bounds"):
            b = list(jp.bounds)
        if len(b) != n:
            fails.append(fail(f"{key}/bounds-length", f"{len(b)} bounds for {n} variables", **det))
        else:
            bad = [i for i in range(n) if norm_bound(b[i]) != R.support(*laws[i])]
            if bad:
                fails.append(fail(f"{key}/bounds-not-support-of-variable", f"bounds[{bad[0]}] = {b[bad[0]]!r} but variable {bad[0]} has law {laws[bad[0]]} (support {R.support(*laws[bad[0]])}); bounds={b!r}", observed=repr(b), **det))
        vecs, nin = joint_thetas(laws, n)
        for vi, th in enumerate(vecs):
            with lib("JointPrior-call"):
                v = jp(th)
            with lib("JointPrior-gradient"):
                g = np.asarray(jp.gradient(th))
            nev += 2
            sit = ref.check_value(v, th, list(range(n)), key, fails, slack, dict(det, theta=th.tolist()))
            if g.shape != (n,):
                fails.append(fail(f"{key}/gradient-shape", f"shape {g.shape} for {n} variables", **det))
            elif sit == "in":
                ref.check_gradient_entries(g, th, [(i, i) for i in range(n)], key, fails, slack, dict(det, theta=th.tolist()))
            tags.add(f"joint {cfgclass} theta={sit}")
        for script, distinct in [([u], False) for u in U5] + [(U5, True), ([0.5, 0.01, 0.99, 0.1, 0.9], True)]:
            with R.scripted_prior_rng(script) as gen:
                with lib("JointPrior-sample"):
                    s = np.asarray(jp.sample())
            nev += 1
            if s.shape != (n,):
                fails.append(fail(f"{key}/sample-shape", f"shape {s.shape} for {n} variables", **det))
                continue
            us = [c_u for c in gen.calls for c_u in c["u"]] or script
            ref.check_sample(s, [(i, i) for i in range(n)], us, key, fails, slack, dict(det, script=script, rng_calls=gen.calls), distinct=distinct)
            last = {"components": det["components"], "script": script, "sample": s.tolist(), "rng_calls": gen.calls}
        if len(fails) > 40:
            break
    return {"fails": fails[:25], "n": nev, "tags": tags, "slack": slack, "sample": last, "states": 0}


# =============================================================================== posterior evaluator
class StubTerm:
    """a likelihood / prior stand-in returning listed exactly representable numbers; records its arguments"""

    def __init__(self, value, grad):
        self.value, self.grad, self.args = value, np.array(grad, dtype=float), []

    def __call__(self, theta):
        self.args.append(np.array(theta, copy=True))
        return self.value

    def gradient(self, theta):
        self.args.append(np.array(theta, copy=True))
        return self.grad.copy()


def close_sum(obs, a, b):
    """'exactly their sum': within 2 ulp of the double-precision sum (slack reported; 0 when bit-identical)"""
    obs, a, b = np.asarray(obs, dtype=float), np.asarray(a, dtype=float), np.asarray(b, dtype=float)
    exp = a + b
    if obs.shape != exp.shape:
        return False, float("inf"), exp
    same = (obs == exp) | (np.isnan(obs) & np.isnan(exp))
    with np.errstate(invalid="ignore", over="ignore"):
        ulps = np.where(same, 0.0, np.abs(obs - exp) / np.maximum(np.spacing(np.abs(exp)), 5e-324))
    worst = float(np.max(ulps)) if ulps.size else 0.0
    if worst != worst:
        worst = float("inf")
    return worst <= 2.0, worst / 2.0, exp


def check_posterior(post, lik, pri, theta, key, fails, slack, det):
    with lib("likelihood-call"):
        l = lik(theta)
    with lib("prior-call"):
        p = pri(theta)
    with lib("likelihood-gradient"):
        gl = np.asarray(lik.gradient(theta))
    with lib("prior-gradient"):
        gp = np.asarray(pri.gradient(theta))
    with lib("Posterior-call"):
        v = post(theta)
    with lib("Posterior-gradient"):
        g = post.gradient(theta)
    with lib("Posterior-cost"):
        c = post.cost(theta)
    with lib("Posterior-cost_gradient"):
        cg = post.cost_gradient(theta)
    for name, obs, a, b in (("value", v, l, p), ("gradient", g, gl, gp), ("cost", c, -np.asarray(l), -np.asarray(p)), ("cost_gradient", cg, -gl, -gp)):
        ok, s, exp = close_sum(obs, a, b)
        slack[f"posterior/{name}-ulps"] = max(slack.get(f"posterior/{name}-ulps", 0.0), s)
        if not ok:
            fails.append(fail(f"{key}/{name}-not-sum-of-parts", f"{name} = {np.asarray(obs).tolist()!r} but likelihood part {np.asarray(a).tolist()!r} + prior part {np.asarray(b).tolist()!r} = {exp.tolist()!r} at theta={np.asarray(theta).tolist()}", observed=np.asarray(obs).tolist(), expected=exp.tolist(), **det))
    return 8


def ev_posterior(case):
    import inference.priors as P
    import inference.likelihoods as L
    from inference.posterior import Posterior
    from checks.c05 import make_model

    fails, tags, slack, nev = [], set(), {}, 0
    if case["mode"] == "stub":
        vals = [0.0, -3.5, 2.25, -1e100, 1e-300, 1e16, 1.0]
        grads = [[0.5, -2.0], [0.0, 0.0], [1e10, -1e-10], [-0.5, 3.0]]
        theta = np.array([0.25, -4.0])
        for lv, pv in itertools.product(vals, repeat=2):
            for lg, pg in itertools.product(grads, repeat=2):
                ls, ps = StubTerm(lv, lg), StubTerm(pv, pg)
                with lib("Posterior-construct"):
                    post = Posterior(likelihood=ls, prior=ps)
                nev += check_posterior(post, ls, ps, theta, "posterior/stubs", fails, slack, dict(likelihood_value=lv, prior_value=pv, likelihood_gradient=lg, prior_gradient=pg))
                for a in ls.args + ps.args:
                    if not np.array_equal(a, theta):
                        fails.append(fail("posterior/stubs/theta-not-passed-through", f"a part received {a.tolist()} for theta={theta.tolist()}"))
                        break
        tags.update({"posterior stubs absorbed-term", "posterior stubs exact-sum"})
        return {"fails": fails[:20], "n": nev, "tags": tags, "slack": slack}
    kind, perm, seed = case["kind"], case["perm"], case["seed"]
    n = len(perm)
    ndata = 5
    F, J, p = make_model({2: "linear", 3: "quadratic"}[n], ndata)
    cls = {"gaussian": L.GaussianLikelihood, "cauchy": L.CauchyLikelihood, "logistic": L.LogisticLikelihood}[kind]
    y = [1.5, -0.25, 3.0, 0.75, -2.0]
    sg = [0.5, 1.0, 0.25, 2.0, 1.5]
    with lib("likelihood-construct"):
        lik = cls(np.array(y), np.array(sg), forward_model=F, forward_model_jacobian=J)
    for comps, types in joint_configs(perm):
        with lib("JointPrior-construct"):
            jp, laws = build_joint(P, comps, types, seed)
        with lib("Posterior-construct"):
            post = Posterior(likelihood=lik, prior=jp)
        vecs, nin = joint_thetas(laws, n)
        det = dict(kind=kind, components=[{"type": t, "indices": c} for c, t in zip(comps, types)], seed=seed)
        for vi, th in enumerate(vecs[: nin + 2]):
            nev += check_posterior(post, lik, jp, th, f"posterior/{cls.__name__}+JointPrior", fails, slack, dict(det, theta=th.tolist()))
            tags.add(f"posterior {kind} n={n} {'inside' if vi < nin else 'outside'}")
        if len(comps) == 1:
            # a bare component as the prior (all n variables, one class)
            with lib("prior-construct"):
                pr = build_component(P, types[0], comps[0], [laws[i][1] for i in comps[0]])
                post2 = Posterior(likelihood=lik, prior=pr)
            if list(perm) == sorted(perm):
                nev += check_posterior(post2, lik, pr, vecs[0], f"posterior/{cls.__name__}+{CLASSNAME[types[0]]}", fails, slack, det)
    return {"fails": fails[:20], "n": nev, "tags": tags, "slack": slack}


# =============================================================================== initial guesses
def guess_priors(P, name, seed):
    """(prior object, laws by index)"""
    if name == "G":
        laws = {0: ("G", (0.5, 1.5))}
        return build_component(P, "G", [0], [laws[0][1]]), laws
    if name == "E":
        laws = {0: ("E", (2.0,))}
        return build_component(P, "E", [0], [laws[0][1]]), laws
    if name == "U":
        laws = {0: ("U", (-3.0, 5.0))}
        return build_component(P, "U", [0], [laws[0][1]]), laws
    if name == "J:G1,U0":
        return build_joint(P, [[1], [0]], "GU", seed)
    if name == "J:E1,G0":
        return build_joint(P, [[1], [0]], "EG", seed)
    raise HarnessError(name)


class RecordingPrior:
    """harness proxy: delegates to the real prior and logs what sample() returned"""

    def __init__(self, inner):
        self.inner, self.draws = inner, []

    def __call__(self, theta):
        return self.inner(theta)

    def gradient(self, theta):
        return self.inner.gradient(theta)

    def cost(self, theta):
        return self.inner.cost(theta)

    def sample(self):
        s = self.inner.sample()
        self.draws.append(np.array(s, dtype=float, copy=True).reshape(-1))
        return s


def ev_guesses(case):
    import inference.priors as P
    import inference.likelihoods as L
    from inference.posterior import Posterior
    import mpmath as mp
    from mc.ref import c06_ref as R
    from mc.ref import c05_ref as R5

    mp.mp.dps = 50
    name, seed = case["prior"], case["seed"]
    with lib("prior-construct"):
        pr, laws = guess_priors(P, name, seed)
    nvar = len(laws)
    # data: one datum per variable, off-centre so that symmetric quantiles do not tie in cost
    centre = [0.37 + 0.61 * i for i in range(nvar)]
    ysig = [0.8 + 0.5 * i for i in range(nvar)]
    F = lambda th: np.asarray(th, dtype=float).copy()  # noqa: E731
    with lib("likelihood-construct"):
        lik = L.GaussianLikelihood(np.array(centre), np.array(ysig), forward_model=F)
    cost_cache = {}

    def ref_cost(x):
        k = tuple(float(v) for v in x)
        if k not in cost_cache:
            lv, _ = R5.total("gaussian", centre, list(k), ysig)
            pv = sum((R.logpdf(*laws[i], k[i])[0] for i in range(nvar)), mp.mpf(0))
            if any(R.position(*laws[i], k[i]) == "out" for i in range(nvar)):
                raise HarnessError(f"scripted draw {k} outside the prior support")
            cost_cache[k] = -(lv + pv)
        return cost_cache[k]

    fails, tags, nev = [], set(), 0
    last = None
    for script in case["scripts"]:
        m = len(script)
        ties = len(set(script)) < m
        # every scalar variate of sample number j uses quantile script[j] (so a d-variable draw is the vector of quantile-script[j] variates)
        full = [u for u in script for _ in range(nvar)]
        for ng in range(1, m + 1):
            rp = RecordingPrior(pr)
            with lib("Posterior-construct"):
                post = Posterior(likelihood=lik, prior=rp)
            with R.scripted_prior_rng(full) as gen:
                with lib("generate_initial_guesses"):
                    out = post.generate_initial_guesses(n_guesses=ng, prior_samples=m)
            nev += 1
            det = dict(prior=name, script=script, n_guesses=ng, prior_samples=m)
            draws = rp.draws
            if len(draws) != m:
                fails.append(fail("guesses/number-of-prior-draws", f"{len(draws)} draws taken for prior_samples={m}", **det))
            try:
                outl = [np.asarray(o, dtype=float).reshape(-1) for o in out]
            except Exception:
                fails.append(fail("guesses/result-not-a-sequence-of-arrays", f"{out!r}", **det))
                continue
            if len(outl) != ng or any(o.shape != (nvar,) for o in outl):
                fails.append(fail("guesses/result-shape", f"{len(outl)} guesses of shapes {[o.shape for o in outl]} for n_guesses={ng}, {nvar} variables", **det))
                continue
            dk = [tuple(d.tolist()) for d in draws]
            ok_ = [tuple(o.tolist()) for o in outl]
            pool = list(dk)
            foreign = False
            for o in ok_:
                if o in pool:
                    pool.remove(o)
                else:
                    foreign = True
            if foreign:
                fails.append(fail("guesses/guess-is-not-a-prior-draw", f"returned {ok_} from draws {dk}", observed=ok_, draws=dk, **det))
                continue
            dcost = sorted(ref_cost(d) for d in dk)
            distinct_costs = sorted(set(dcost))
            if any(b - a < mp.mpf(10) ** -9 for a, b in zip(distinct_costs, distinct_costs[1:])):
                raise HarnessError(f"near-tie between distinct draws in script {script} for prior {name}: oracle would be ambiguous")
            ocost = [ref_cost(o) for o in ok_]
            if any(b < a for a, b in zip(ocost, ocost[1:])):
                fails.append(fail("guesses/not-in-increasing-cost", f"costs of returned guesses {[mp.nstr(c, 8) for c in ocost]} (draw costs {[mp.nstr(c, 8) for c in dcost]})", observed=ok_, draws=dk, **det))
            elif sorted(ocost) != dcost[:ng]:
                fails.append(fail("guesses/not-the-best-draws", f"costs of returned guesses {[mp.nstr(c, 8) for c in ocost]} but the {ng} lowest draw costs are {[mp.nstr(c, 8) for c in dcost[:ng]]}", observed=ok_, draws=dk, **det))
            tags.add(f"guesses {name} m={m} ng={ng} ties={ties} best_first_drawn={ref_cost(dk[0]) == dcost[0]}")
            last = {"prior": name, "script": script, "n_guesses": ng, "draws": dk, "returned": ok_}
    return {"fails": fails[:20], "n": nev, "tags": tags, "sample": last}


GUESS_BIG_NG = [1, 2, 50, 100, 199, 200, 300, 999, 1000]
GUESS_STRIDES = {200: [37, 113, 71, 9], 1000: [373, 617, 89, 7]}  # coprime with prior_samples: j -> (j * stride + offset) % m is a permutation
GUESS_TIE = 1e-9  # costs closer than this (relative to 1 + |cost|) are a tie: either order is accepted


def ev_guesses_big(case):
    """generate_initial_guesses with hundreds of prior draws: the draws are the m quantiles (k + 1/2) / m in a stride-permuted order
    (each variable of a joint prior with its own stride); for every listed n_guesses the result must be the n_guesses best draws,
    in increasing cost."""
    import inference.priors as P
    import inference.likelihoods as L
    from inference.posterior import Posterior
    import mpmath as mp
    from mc.ref import c06_ref as R
    from mc.ref import c05_ref as R5

    mp.mp.dps = 30
    name, seed, m = case["prior"], case["seed"], case["prior_samples"]
    with lib("prior-construct"):
        pr, laws = guess_priors(P, name, seed)
    nvar = len(laws)
    centre = [0.37 + 0.61 * i for i in range(nvar)]
    ysig = [0.8 + 0.5 * i for i in range(nvar)]
    F = lambda th: np.asarray(th, dtype=float).copy()  # noqa: E731
    with lib("likelihood-construct"):
        lik = L.GaussianLikelihood(np.array(centre), np.array(ysig), forward_model=F)
    strides, off = case["strides"], case["offset"]
    for st in strides[:nvar]:
        if np.gcd(st, m) != 1:
            raise HarnessError(f"stride {st} is not coprime with {m}")
    full = [((((j * strides[v] + off * (v + 1)) % m) + 0.5) / m) for j in range(m) for v in range(nvar)]
    cost_cache = {}

    def ref_cost(k):
        if k not in cost_cache:
            if any(R.position(*laws[i], k[i]) == "out" for i in range(nvar)):
                raise HarnessError(f"scripted draw {k} outside the prior support")
            lv, _ = R5.total("gaussian", centre, list(k), ysig)
            cost_cache[k] = float(-(lv + sum((R.logpdf(*laws[i], k[i])[0] for i in range(nvar)), mp.mpf(0))))
        return cost_cache[k]

    fails, tags, nev, seen = [], set(), 0, set()
    last = None

    def add(key, what, **kw):
        if key not in seen:
            seen.add(key)
            fails.append(fail(key, what, **kw))

    for ng in case["n_guesses"]:
        rp = RecordingPrior(pr)
        with lib("Posterior-construct"):
            post = Posterior(likelihood=lik, prior=rp)
        with R.scripted_prior_rng(full):
            with lib("generate_initial_guesses"):
                out = post.generate_initial_guesses(n_guesses=ng, prior_samples=m)
        nev += 1
        det = dict(prior=name, n_guesses=ng, prior_samples=m, strides=strides[:nvar], offset=off)
        draws = rp.draws
        if len(draws) != m:
            add("guesses-big/number-of-prior-draws", f"{len(draws)} draws taken for prior_samples={m}", **det)
            continue
        try:
            outl = [np.asarray(o, dtype=float).reshape(-1) for o in out]
        except Exception:
            add("guesses-big/result-not-a-sequence-of-arrays", f"{type(out).__name__}", **det)
            continue
        if len(outl) != ng or any(o.shape != (nvar,) for o in outl):
            add("guesses-big/result-shape", f"{len(outl)} guesses of shapes {sorted({o.shape for o in outl})} for n_guesses={ng}, {nvar} variables", **det)
            continue
        dk = [tuple(d.tolist()) for d in draws]
        ok_ = [tuple(o.tolist()) for o in outl]
        if len(set(dk)) != m:
            raise HarnessError("scripted draws are not distinct")
        if not set(ok_) <= set(dk) or len(set(ok_)) != ng:
            add("guesses-big/guess-is-not-a-prior-draw", f"{ng - len(set(ok_) & set(dk))} of the {ng} returned guesses are not (distinct) prior draws", **det)
            continue
        dcost = np.sort(np.array([ref_cost(d) for d in dk]))
        ocost = np.array([ref_cost(o) for o in ok_])
        tie = GUESS_TIE * (1.0 + np.abs(dcost[:ng]))
        down = np.nonzero(ocost[1:] < ocost[:-1] - tie[1:])[0]
        if down.size:
            i = int(down[0])
            add("guesses-big/not-in-increasing-cost",
                f"n_guesses={ng} of prior_samples={m}: guess {i} has cost {ocost[i]!r} but guess {i + 1} has the lower cost {ocost[i + 1]!r} ({down.size} descents in the returned list; first guess is "
                f"{'the' if abs(ocost[0] - dcost[0]) <= tie[0] else 'NOT the'} best draw)", costs_head=ocost[: min(ng, 12)].tolist(), **det)
        if np.any(np.abs(np.sort(ocost) - dcost[:ng]) > tie):
            add("guesses-big/not-the-best-draws", f"n_guesses={ng} of prior_samples={m}: the sorted costs of the returned guesses differ from the {ng} lowest draw costs (largest returned {float(ocost.max())!r}, "
                f"{ng}-th lowest {float(dcost[ng - 1])!r})", **det)
        first_best = int(np.argmin([ref_cost(d) for d in dk]))
        tags.add(f"guesses-big {name} m={m} ng={ng} best-draw-is-number={'first' if first_best == 0 else ('last' if first_best == m - 1 else 'inner')}")
        last = {"prior": name, "n_guesses": ng, "prior_samples": m, "lowest_costs": dcost[:3].tolist(), "returned_costs_head": ocost[:3].tolist()}
    return {"fails": fails[:20], "n": nev, "tags": tags, "sample": last}


# =============================================================================== object-reuse histories
REUSE_SCRIPT = [0.5, 0.01, 0.99, 0.1, 0.9]


def _canon(x):
    """exact, nan-safe, comparable image of a result (floats by repr)"""
    if x is None:
        return None
    if isinstance(x, (list, tuple)):
        return ("seq",) + tuple(_canon(v) for v in x)
    a = np.asarray(x)
    if a.dtype == object:
        return ("obj", repr(x))
    return (tuple(a.shape),) + tuple(repr(float(v)) for v in a.reshape(-1))


class _ReuseSpec:
    """description of one object of a history: how to build a fresh equal one"""

    def __init__(self, kind, **kw):
        self.kind = kind
        self.__dict__.update(kw)


def _reuse_fresh(P, L, Posterior, spec, n):
    """a freshly built object equal to the one described (fresh index lists, fresh arrays, fresh parts)"""
    if spec.kind == "comp":
        return build_component(P, spec.t, list(spec.idxs), [tuple(h) for h in spec.hs], "array", spec.idx_form)
    if spec.kind == "joint":
        return P.JointPrior(components=[_reuse_fresh(P, L, Posterior, s, n) for s in spec.parts], n_variables=n)
    if spec.kind == "post":
        return Posterior(likelihood=_reuse_likelihood(L, n), prior=_reuse_fresh(P, L, Posterior, spec.prior, n))
    raise HarnessError(spec.kind)


def _reuse_likelihood(L, n):
    centre = [0.37 + 0.61 * i for i in range(n)]
    ysig = [0.8 + 0.5 * i for i in range(n)]
    return L.GaussianLikelihood(np.array(centre), np.array(ysig), forward_model=lambda th: np.asarray(th, dtype=float).copy(), forward_model_jacobian=lambda th: np.eye(n))


def _reuse_use(obj, spec, thetas, label):
    """stand-alone use of one object: value, gradient at every theta, bounds, one scripted draw (posterior: value, gradient,
    cost, cost_gradient, initial guesses).  Returns {quantity: canonical result}; number of library calls"""
    from mc.ref import c06_ref as R

    out, nev = {}, 0
    if spec.kind == "post":
        with lib(f"{label}-call"):
            out["value"] = _canon([obj(th) for th in thetas])
        with lib(f"{label}-gradient"):
            out["gradient"] = _canon([obj.gradient(th) for th in thetas])
        with lib(f"{label}-cost"):
            out["cost"] = _canon([obj.cost(th) for th in thetas])
        with lib(f"{label}-cost_gradient"):
            out["cost_gradient"] = _canon([obj.cost_gradient(th) for th in thetas])
        with R.scripted_prior_rng(REUSE_SCRIPT):
            with lib(f"{label}-generate_initial_guesses"):
                out["initial-guesses"] = _canon([np.asarray(g) for g in obj.generate_initial_guesses(n_guesses=2, prior_samples=3)])
        return out, 4 * len(thetas) + 1
    with lib(f"{label}-call"):
        out["value"] = _canon([obj(th) for th in thetas])
    with lib(f"{label}-gradient"):
        out["gradient"] = _canon([np.array(obj.gradient(th), copy=True) for th in thetas])
    with lib(f"{label}-bounds"):
        out["bounds"] = _canon([norm_bound(b) for b in obj.bounds])
    with R.scripted_prior_rng(REUSE_SCRIPT):
        with lib(f"{label}-sample"):
            out["sample"] = _canon(np.array(obj.sample(), copy=True))
    return out, 2 * len(thetas) + 2


def ev_reuse(case):
    """object-reuse history on one configuration (components = consecutive blocks of an index permutation, one type each):
    build the components, use them stand-alone, build a JointPrior, use everything, build a second JointPrior from the SAME
    objects (same order), a third (reversed order), a fourth (rotated order), a fifth from a subset of the objects plus one
    new component, posteriors on two of them, draw initial guesses; after every step every object built so far must give
    exactly what a freshly built equal object gives, and what the caller passed in must be unchanged."""
    import inference.priors as P
    import inference.likelihoods as L
    from inference.posterior import Posterior
    import mpmath as mp

    mp.mp.dps = 50
    perm, seed = case["perm"], case["seed"]
    n = len(perm)
    fails, tags, slack, nev = [], set(), {}, 0
    seen = set()
    last = None

    def add(key, what, **kw):
        if key not in seen:
            seen.add(key)
            fails.append(fail(key, what, **kw))

    for comps, types in joint_configs(perm):
        history, det0 = [], {}
        try:
            k = len(comps)
            laws = {}
            cspecs = []
            for idxs, t in zip(comps, types):
                hs = [hyper(t, i, seed) for i in idxs]
                for i, h in zip(idxs, hs):
                    laws[i] = (t, h)
                cspecs.append(_ReuseSpec("comp", t=t, idxs=list(idxs), hs=hs, idx_form="list", name=f"{CLASSNAME[t]}{list(idxs)}", cls=CLASSNAME[t]))
            vecs, nin = joint_thetas(laws, n)
            thetas = vecs[: nin + 2]
            det0 = dict(components=[{"type": t, "indices": c} for c, t in zip(comps, types)], seed=seed)
            ngauss = sum(1 for t in types if t == "G")
            cfgclass = f"k={k},same-type-components={max(types.count(t) for t in 'GEU')},n={n}"
            live = []  # (spec, object)
            broken = set()
            history = []
            # what the caller holds
            held_idx, held_idx_copy, held_hyp, held_hyp_copy = [], [], [], []

            def verify(step):
                """every live object == a fresh equal object, caller-held inputs unchanged"""
                nonlocal nev
                for spec, obj in live:
                    with lib(f"fresh-{spec.cls}-construct"):
                        fr = _reuse_fresh(P, L, Posterior, spec, n)
                    got, c1 = _reuse_use(obj, spec, thetas, f"reused-{spec.cls}")
                    exp, c2 = _reuse_use(fr, spec, thetas, f"fresh-{spec.cls}")
                    nev += c1 + c2
                    for q in exp:
                        if got[q] != exp[q] and (spec.name, q) not in broken:
                            broken.add((spec.name, q))  # reported at the first step after which it differs
                            add(f"reuse/{spec.cls}/{q}-differs-from-fresh-equal-object-after/{step}",
                                f"history {history}: {spec.name} now gives {q} = {got[q]!r} but a freshly built equal object gives {exp[q]!r} (thetas {[t.tolist() for t in thetas]})",
                                object=spec.name, quantity=q, observed=repr(got[q]), expected=repr(exp[q]), history=list(history), **det0)
                for li, (a, b) in enumerate(zip(held_idx, held_idx_copy)):
                    if type(a) is not type(b) or list(a) != list(b):
                        add(f"reuse/caller-index-list-modified-after/{step}", f"history {history}: the index list passed for component {li} was {b!r} and is now {a!r}", observed=repr(a), expected=repr(b), history=list(history), **det0)
                for li, (arrs, cps) in enumerate(zip(held_hyp, held_hyp_copy)):
                    if any(not np.array_equal(a, b) for a, b in zip(arrs, cps)):
                        add(f"reuse/caller-hyper-parameter-array-modified-after/{step}", f"history {history}: the hyper-parameter arrays passed for component {li} were {[c.tolist() for c in cps]} and are now {[a.tolist() for a in arrs]}", history=list(history), **det0)

            # ---- step: build the components from caller-held index lists / arrays
            objs = []
            for spec in cspecs:
                vi = [int(i) for i in spec.idxs]
                arrs = [np.array([h[j] for h in spec.hs], dtype=float) for j in range(len(spec.hs[0]))]
                held_idx.append(vi)
                held_idx_copy.append(list(vi))
                held_hyp.append(arrs)
                held_hyp_copy.append([a.copy() for a in arrs])
                with lib(f"{spec.cls}-construct"):
                    if spec.t == "G":
                        o = P.GaussianPrior(mean=arrs[0], sigma=arrs[1], variable_indices=vi)
                    elif spec.t == "E":
                        o = P.ExponentialPrior(beta=arrs[0], variable_indices=vi)
                    else:
                        o = P.UniformPrior(lower=arrs[0], upper=arrs[1], variable_indices=vi)
                objs.append(o)
                live.append((spec, o))
            history.append("components-built")
            verify("components-built")

            def joint_step(order, step, extra=None):
                """JointPrior from the existing component objects in the given order (+ optionally a new component)"""
                parts = [objs[j] for j in order]
                pspecs = [cspecs[j] for j in order]
                if extra is not None:
                    parts.append(extra[1])
                    pspecs.append(extra[0])
                given = list(parts)
                with lib(f"JointPrior-construct-{step}"):
                    jp = P.JointPrior(components=given, n_variables=n)
                if len(given) != len(parts) or any(a is not b for a, b in zip(given, parts)):
                    add(f"reuse/caller-component-list-modified-after/{step}", f"history {history}: the list of components passed to JointPrior was changed", history=list(history), **det0)
                sp = _ReuseSpec("joint", parts=pspecs, name=f"JointPrior#{len(history)}({[s.name for s in pspecs]})", cls="JointPrior")
                live.append((sp, jp))
                history.append(f"{step}{[s.name for s in pspecs]}")
                verify(step)
                return sp, jp

            ident = list(range(k))
            j1 = joint_step(ident, "joint-built")
            joint_step(ident, "second-joint-built-same-order")
            j3 = joint_step(ident[::-1], "joint-built-reversed-order")
            if k >= 3:
                joint_step(ident[1:] + ident[:1], "joint-built-rotated-order")
            if k >= 2:
                # a subset of the existing objects + one NEW component (of the type of the first kept one: it is merged with it)
                for drop in (k - 1, 0):
                    keep = [j for j in ident if j != drop]
                    tnew = cspecs[keep[0]].t
                    dspec = cspecs[drop]
                    hs = [hyper(tnew, i + 1, seed) for i in dspec.idxs]
                    nspec = _ReuseSpec("comp", t=tnew, idxs=list(dspec.idxs), hs=hs, idx_form="list", name=f"new-{CLASSNAME[tnew]}{list(dspec.idxs)}", cls=CLASSNAME[tnew])
                    with lib(f"{nspec.cls}-construct"):
                        nobj = _reuse_fresh(P, L, Posterior, nspec, n)
                    live.append((nspec, nobj))
                    joint_step(keep, "joint-built-from-subset-plus-new-component", extra=(nspec, nobj))
            # ---- posteriors on the first and the reversed joint prior
            for which, (sp, jp) in (("first", j1), ("reversed", j3)):
                with lib("Posterior-construct"):
                    post = Posterior(likelihood=_reuse_likelihood(L, n), prior=jp)
                live.append((_ReuseSpec("post", prior=sp, name=f"Posterior(GaussianLikelihood, {sp.name})", cls="Posterior"), post))
                history.append(f"posterior-built-on-{which}-joint")
                verify("posterior-built")
            # ---- finally: the first joint prior and the components against the reference (not only against fresh objects)
            ref = Ref(laws)
            for (spec, obj), idxs in [(live[j], cspecs[j].idxs) for j in range(k)] + [((j1[0], j1[1]), list(range(n)))]:
                for th in thetas[:nin]:
                    with lib(f"reused-{spec.cls}-call"):
                        v = obj(th)
                    with lib(f"reused-{spec.cls}-gradient"):
                        g = np.asarray(obj.gradient(th))
                    nev += 2
                    if g.shape != (len(idxs),):
                        add(f"reuse/{spec.cls}/gradient-shape-at-end-of-history", f"history {history}: {spec.name} gradient has shape {g.shape} for {len(idxs)} variables", history=list(history), **det0)
                        continue
                    f2 = []
                    ref.check_value(v, th, idxs, f"reuse/{spec.cls}/at-end-of-history", f2, slack, dict(det0, object=spec.name, history=list(history), theta=th.tolist()))
                    ref.check_gradient_entries(g, th, list(enumerate(idxs)), f"reuse/{spec.cls}/at-end-of-history", f2, slack, dict(det0, object=spec.name, history=list(history), theta=th.tolist()))
                    for f in f2:
                        if f["key"] not in seen:
                            seen.add(f["key"])
                            fails.append(f)
            tags.add(f"reuse {cfgclass} gaussian-components={min(ngauss, 2)}{'+' if ngauss >= 2 else ''} sorted={list(perm) == sorted(perm)}")
            last = {"components": det0["components"], "history": list(history), "objects": len(live)}
        except LibFailure as e:
            add(f"reuse/{e.label}/raises:{e.exc_type}", f"history {history}: {e}", traceback=e.tb, history=list(history), **det0)
        if len(fails) > 40:
            break
    return {"fails": fails[:25], "n": nev, "tags": tags, "slack": slack, "sample": last}


# =============================================================================== many variables (added)
# "for all hyper-parameter values ... all partitions of parameter indices": priors over n = 30 / 60 / 200 variables whose scales are all
# narrow (1e-6), of order one, or wide (1e6) - e.g. profile-node parameters in SI units.  The log of a product density of n independent
# variables is the SUM of the n one-variable log-densities, each of which is a moderate number (|log 1e-6| = 13.8) however small / large
# the n-dimensional volume is, so it must be finite inside the support.
MANY_LAYOUTS = ("single", "merge2", "merge3-interleaved", "singletons", "mixed")


def many_law(t, i, s):
    """law of variable i of type t at absolute scale s (distinct per variable so that misrouting is visible)"""
    if t == "G":
        return (s * (0.3 + 0.1 * ((i * 7) % 11 - 5)), s * (1.0 + 0.5 * ((i * 3) % 7) / 7.0))
    if t == "E":
        return (s * (1.0 + 0.5 * ((i * 3) % 7) / 7.0),)
    lo = s * 0.37 * ((i * 5) % 13 - 6)
    return (lo, lo + s * (1.0 + 0.25 * ((i * 3) % 5)))


def many_inside(t, h, i, which):
    if t == "G":
        return h[0] + (0.0, 0.5, -0.5, 3.0, -3.0, 30.0, -30.0)[(i + which) % 7] * h[1]
    if t == "E":
        return h[0] * (0.3, 1.0, 2.5, 30.0)[(i + which) % 4]
    return h[0] + (h[1] - h[0]) * (0.25, 0.5, 0.8125)[(i + which) % 3]


def many_components(layout, t, n):
    """[(type, [indices])] covering 0..n-1"""
    if layout == "single":
        return [(t, list(range(n)))]
    if layout == "merge2":  # second half first, indices of the second block descending
        return [(t, list(range(n // 2, n))[::-1]), (t, list(range(n // 2)))]
    if layout == "merge3-interleaved":
        return [(t, list(range(r, n, 3))) for r in (1, 0, 2)]
    if layout == "singletons":  # n one-variable components in a stride-permuted order (7 is coprime with 30, 60, 200)
        return [(t, [(7 * k + 3) % n]) for k in range(n)]
    if layout == "mixed":  # three types, each split in two components that JointPrior merges
        out = []
        for r, tt in enumerate(("U", "G", "E", "G", "U", "E")):
            out.append((tt, list(range(r, n, 6))))
        return out
    raise HarnessError(layout)


def ev_manyvar(case):
    import inference.priors as P
    import mpmath as mp
    from mc.ref import c06_ref as R

    mp.mp.dps = 50
    t, n, s, layout = case["type"], case["n"], case["scale"], case["layout"]
    comps = many_components(layout, t, n)
    laws = {}
    objs = []
    for tt, idxs in comps:
        hs = [many_law(tt, i, s) for i in idxs]
        for i, h in zip(idxs, hs):
            laws[i] = (tt, h)
        with lib(f"{CLASSNAME[tt]}-construct"):
            objs.append(build_component(P, tt, idxs, hs))
    if sorted(laws) != list(range(n)):
        raise HarnessError("layout does not cover the variables")
    if layout == "single":
        pr, cname = objs[0], CLASSNAME[t]
    else:
        with lib("JointPrior-construct"):
            pr = P.JointPrior(components=objs, n_variables=n)
        cname = "JointPrior-of-" + (CLASSNAME[t] + "s" if layout != "mixed" else "mixed-types")
    key = f"many-variables/{cname}"
    det = dict(type=t, n=n, scale=s, layout=layout)
    fails, tags, slack, nev, seen = [], set(), {}, 0, set()

    def add(k, what, **kw):
        if k not in seen:
            seen.add(k)
            fails.append(fail(k, what, **det, **kw))

    last = None
    for which in range(case["n_theta"]):
        theta = np.array([many_inside(*laws[i], i, which) for i in range(n)])
        if any(R.position(*laws[i], float(theta[i])) != "in" for i in range(n)):
            raise HarnessError("theta not strictly inside the support")
        terms = [R.logpdf(*laws[i], float(theta[i])) for i in range(n)]
        ref = sum((a for a, _ in terms), mp.mpf(0))
        sc = sum((b for _, b in terms), mp.mpf(0))
        # n terms added in double precision in any order: at most (n - 1) eps sum|terms|, plus the per-term allowance
        tol = (CTOL + n) * EPS * float(sc)
        with lib(f"{cname}-call"):
            v = pr(theta.copy())
        with lib(f"{cname}-gradient"):
            g = np.asarray(pr.gradient(theta.copy()))
        nev += 2
        if np.ndim(v) != 0:
            add(f"{key}/value-not-a-scalar", f"shape {np.shape(v)}")
            continue
        v = float(v)
        if not np.isfinite(v):
            add(f"{key}/log-density-not-finite-inside-the-support", f"value {v!r} for {n} variables of scale {s:g}, every one strictly inside its support; the sum of the {n} one-variable log-densities is {mp.nstr(ref, 17)}", observed=v, expected=mp.nstr(ref, 25), theta=theta.tolist())
        else:
            err = float(abs(mp.mpf(v) - ref))
            slack["many-variables/value"] = max(slack.get("many-variables/value", 0.0), err / tol)
            if not err <= tol:
                add(f"{key}/log-density-is-not-the-sum-of-one-variable-log-densities", f"value {v!r} vs {mp.nstr(ref, 17)} = sum of the {n} one-variable log-densities (scale {s:g}; |err| {err:.3g} > {tol:.3g})", observed=v, expected=mp.nstr(ref, 25), theta=theta.tolist())
        if g.shape != (n,):
            add(f"{key}/gradient-shape", f"shape {g.shape} for {n} variables")
        else:
            for i in range(n):
                gr, gs = R.dlogpdf(*laws[i], float(theta[i]))
                gi = float(g[i])
                tolg = CTOL * EPS * float(gs)
                e = float(abs(mp.mpf(gi) - gr)) if np.isfinite(gi) else float("inf")
                ok = e <= tolg
                slack["many-variables/gradient"] = max(slack.get("many-variables/gradient", 0.0), (0.0 if e == 0 else float("inf")) if tolg == 0 else e / tolg)
                if not ok:
                    add(f"{key}/gradient-entry", f"gradient[{i}] = {gi!r} but d log f_{i}/d theta_{i} = {mp.nstr(gr, 17)} (law {laws[i]}, scale {s:g}, {n} variables)", observed_entry=gi, expected_entry=mp.nstr(gr, 25), index=i, theta=theta.tolist())
                    break
        last = {"n": n, "scale": s, "layout": layout, "value": v, "reference": mp.nstr(ref, 20)}
    with lib(f"{cname}-bounds"):
        b = list(pr.bounds)
    if len(b) != n:
        add(f"{key}/bounds-length", f"{len(b)} bounds for {n} variables")
    else:
        order = list(range(n)) if layout != "single" else comps[0][1]
        bad = [k for k, i in enumerate(order) if norm_bound(b[k]) != R.support(*laws[i])]
        if bad:
            add(f"{key}/bounds-not-support-of-variable", f"bounds[{bad[0]}] = {b[bad[0]]!r} but variable {order[bad[0]]} has support {R.support(*laws[order[bad[0]]])}")
    tags.add(f"many-variables {layout} type={t if layout != 'mixed' else 'G+E+U'} n={n} scale={s:g}")
    return {"fails": fails[:20], "n": nev, "tags": tags, "slack": slack, "sample": last}


EVALUATORS = {"reuse": ev_reuse, "guesses_big": ev_guesses_big,"class": ev_class, "quad": ev_quad, "layout": ev_layout, "joint": ev_joint, "posterior": ev_posterior, "guesses": ev_guesses, "manyvar": ev_manyvar}


def run(ck):
    quick, seed = ck.quick, ck.seed
    # ---- per class
    ccases = []
    for t in "GEU":
        for hi, h in enumerate(CLASS_HYPER[t]):
            N = 1 + (hi + seed) % 3
            ccases.append({"type": t, "hyper": list(h), "N": N, "own": (hi + seed) % N, "quick": quick})
    ck.run_cases("class", ccases, chunk=1)
    ck.run_cases("quad", [{"type": t, "hyper": list(h)} for t in "GEU" for h in QUAD_HYPER[t]], chunk=1)
    # ---- one component, all ordered index selections
    ck.run_cases("layout", [{"type": t, "k": k, "N": 4, "seed": seed} for t in "GEU" for k in (1, 2, 3, 4)], chunk=1)
    # ---- joint: every index order (permutation) is a case; cuts into <=3 components x 3^k types inside
    nmax = 4 if quick else 5
    jcases = [{"perm": list(perm), "seed": seed} for n in range(1, nmax + 1) for perm in itertools.permutations(range(n))]
    res = ck.run_cases("joint", jcases, chunk=1)
    nconf = sum(sum(1 for _ in joint_configs(c["perm"])) for c in jcases)
    # ---- posterior
    pcases = [{"mode": "stub"}]
    for kind in ("gaussian", "cauchy", "logistic"):
        for n in (2, 3):
            for perm in itertools.permutations(range(n)):
                pcases.append({"mode": "real", "kind": kind, "perm": list(perm), "seed": seed})
    ck.run_cases("posterior", pcases, chunk=1)
    # ---- initial guesses
    scripts = []
    for m in range(1, 6):
        scripts += [list(s) for s in itertools.permutations(U5, m)]
    tie_alpha = [0.1, 0.5, 0.9]
    for m in range(2, 5 if quick else 6):
        scripts += [list(s) for s in itertools.product(tie_alpha, repeat=m) if len(set(s)) < m]
    gcases = []
    for name in ("G", "E", "U", "J:G1,U0", "J:E1,G0"):
        for b in range(0, len(scripts), 60):
            gcases.append({"prior": name, "seed": seed, "scripts": scripts[b : b + 60]})
    ck.run_cases("guesses", gcases, chunk=1)
    # ---- initial guesses out of hundreds of draws: every listed n_guesses <= prior_samples
    bcases = []
    for pi, name in enumerate(("G", "E", "U", "J:G1,U0", "J:E1,G0")):
        for m in (200, 1000):
            st = GUESS_STRIDES[m]
            r = (pi + seed) % len(st)
            bcases.append({"prior": name, "seed": seed, "prior_samples": m, "n_guesses": [g for g in GUESS_BIG_NG if g <= m], "strides": st[r:] + st[:r], "offset": (3 * seed + pi) % m})
    ck.run_cases("guesses_big", bcases, chunk=1)
    # ---- object-reuse histories: every index order x every cut into <=3 components x 3^k types
    rperms = [list(perm) for n in range(1, 4) for perm in itertools.permutations(range(n))]
    p4 = [list(perm) for perm in itertools.permutations(range(4))]
    rperms += [p4[(7 * seed) % 24], p4[(7 * seed + 23) % 24]] if quick else p4
    ck.run_cases("reuse", [{"perm": perm, "seed": seed} for perm in rperms], chunk=1)
    nreuse = sum(sum(1 for _ in joint_configs(perm)) for perm in rperms)
    # ---- many variables at narrow / unit / wide scales (added)
    mcases = []
    for n in (30, 60, 200):
        for sc in (1.0, 1e-6, 1e6):
            for t in "UGE":
                for layout in MANY_LAYOUTS[:-1]:
                    mcases.append({"type": t, "n": n, "scale": sc, "layout": layout, "n_theta": 2 if quick else 4})
            mcases.append({"type": "U", "n": n, "scale": sc, "layout": "mixed", "n_theta": 2 if quick else 4})
    ck.run_cases("manyvar", mcases, chunk=1)
    ck.rule = (
        "class: hyper-parameter lattice x theta lattice (interior / support edge / outside incl. one ulp either side) x 5-6 input forms x 5 quantiles; "
        "layout: every ordered selection of k<=4 of 4 indices per class; joint: every permutation of n<=%d variables cut into <=3 consecutive blocks "
        "(= all assignments, all component orders, all index orders) x 3^k type assignments (%d configurations), each at 3 interior vectors, every "
        "single-variable excursion outside the support, 5 constant-quantile draws and 2 distinct-quantile draws; posterior: 3 likelihoods x all n=2,3 "
        "joint configurations + exact stubs; guesses: all orderings of <=5 distinct scripted quantiles and all tied sequences over 3 quantiles x all "
        "n_guesses<=prior_samples x 5 priors; guesses_big: prior_samples in {200, 1000} x every n_guesses in {1, 2, 50, 100, 199, 200, 300, 999, 1000} (<= prior_samples) x 5 priors, the draws being "
        "the quantiles (k + 1/2)/prior_samples in a stride-permuted order (strides coprime with prior_samples, one per variable of a joint prior, rotated with the seed): the result is the n_guesses "
        "best draws, in increasing cost.  reuse: object-reuse histories on %d configurations (every permutation of n<=3 variables, and %s of n=4, cut into <=3 components x 3^k types): "
        "components built from caller-held index lists / arrays -> used stand-alone -> JointPrior -> second JointPrior from the SAME objects (same order) -> reversed order -> rotated order -> "
        "two JointPriors from a subset of the objects plus one new component (merged with a kept one) -> Posteriors on the first and on the reversed joint prior; after EVERY step every object "
        "built so far (components, joint priors, posteriors) is used stand-alone (value, gradient at 3 interior + 2 outside vectors, bounds, a scripted draw; posterior: value, gradient, cost, "
        "cost_gradient, initial guesses) and must give exactly what a freshly built equal object gives; the caller's index lists, hyper-parameter arrays and component lists must be unchanged; "
        "at the end the components and the first joint prior are also compared with the reference.  Distinct = (evaluator, n, k, merged, index order sorted?, theta situation) etc."
    ) % (nmax, nconf, nreuse, "2 seed-rotated permutations" if quick else "every permutation")
    ck.rule += (
        "  manyvar (keys many-variables/<Class | JointPrior-of-<Class>s | JointPrior-of-mixed-types>/log-density-not-finite-inside-the-support, ../log-density-is-not-the-sum-of-one-variable-log-densities, "
        "../gradient-entry, ../gradient-shape, ../bounds-..): n in {30, 60, 200} variables x absolute scale in {1e-6, 1, 1e6} (all hyper-parameters of the prior scaled: Gaussian mean and s.d., exponential "
        "mean, uniform lower end and width; distinct per variable) x each class as ONE n-variable component, as a JointPrior of 2 (blocks, one index list descending) / 3 (interleaved) / n (one-variable, "
        "stride-permuted order) components of that class (which JointPrior merges), and a JointPrior of 6 interleaved components of the three types; at 2 (quick) / 4 vectors strictly inside the support the "
        "value must be finite and equal the 50-digit sum of the n one-variable log-densities within (16 + n) eps sum|terms|, every gradient entry equal to the one-variable derivative within 16 eps |entry|, "
        "bounds = supports; distinct = (layout, type, n, scale)."
    )
    ck.assume("manyvar: the value tolerance (16 + n) eps sum|terms| allows the n terms to be added in double precision in any order; the theta vectors put every variable strictly inside its support "
              "(Gaussian: up to 30 s.d. from the mean, exponential: up to 30 means, uniform: 1/4, 1/2, 13/16 of the width)")
    ck.assume("hyper-parameters and theta values are the listed finite lattices; joint hyper-parameters are distinct per (type, index) so that misrouting is visible")
    ck.assume("the generator seam replaces inference.priors.rng; a draw is 'distributed according to the density' iff F(draw at quantile u) = u on the alphabet {.01,.1,.5,.9,.99} (numpy's own transformation of uniform bits into variates is trusted)")
    ck.assume("guesses_big: costs of two draws closer than 1e-9 (1 + |cost|) are treated as a tie (either order accepted; the library orders by its double-precision cost)")
    ck.assume("outside the support a value <= -1e99 (or -inf) is accepted; on a finite edge of the support (null set) either convention is accepted; the gradient is compared only strictly inside the support")
    ck.assume("for a stand-alone component on a subset of indices, gradient/sample of length k in the listed index order (or full length by index for the gradient) are both accepted")
    ck.assume("reuse: 'equal to a freshly built equal object' is bit-for-bit (same code, same inputs); the histories are the listed fixed step sequence, not all interleavings")
    ck.extra["joint_configurations"] = nconf
    ck.extra["reuse_configurations"] = nreuse
    ck.extra["quantile_alphabet"] = U5
