"""C03 – stored log-probabilities always belong to the stored samples.

Engine C + A: every history over {take_step, advance(1), advance(3)[, exchange]} up to a depth, for every sampler
class x limits x temperature, with the random stream scripted (all outcomes within a deviation bound, so accepts,
auto-accepts and reject-then-accept paths are all taken).  Invariant evaluated in every reached state:
probs[k] == posterior(sample[k]) / T for every k, lengths agree, mode() is a recorded row with maximal recorded
probability, caller's arrays untouched.  Second harness: two samplers built from the same input arrays, all
interleavings of their steps; each must evolve exactly as it does alone.
"""
import hashlib
import itertools

import math

import numpy as np

from mc.core import HarnessError, fail, lib
from mc.explore import explore
from mc.mcmcseam import set_rng
from mc.rngseam import ScriptedGenerator

LEVEL = "model_checking"

SAMPLERS = ("MetropolisChain", "GibbsChain", "PcaChain", "HamiltonianChain", "EnsembleSampler")
C = np.array([0.4, -0.3])
S2 = np.array([1.0, 0.5])


def post(t):
    t = np.asarray(t, dtype=float)
    return float(-0.5 * (((t - C[: t.size]) ** 2) / S2[: t.size]).sum() - 0.05 * (t ** 4).sum())


HARD = 1.3


def post_hard(t):
    """the same density restricted to the cube |t_i| <= 1.3: log-density -inf outside (a posterior with hard limits of its own)"""
    t = np.asarray(t, dtype=float)
    return post(t) if np.all(np.abs(t) <= HARD) else -math.inf


def agree(a, b, tol=1e-12):
    """stored log-probability a against the reference b: equal if either is not finite, else to rounding"""
    if not (math.isfinite(a) and math.isfinite(b)):
        return a == b
    return abs(a - b) <= tol * (1 + abs(b))


def grad(t):
    t = np.asarray(t, dtype=float)
    return -((t - C[: t.size]) / S2[: t.size]) - 0.2 * t ** 3


def inputs_for(kind, d, limits):
    """The arrays a caller would pass (kept by the harness to verify they are never modified)."""
    start = np.array([0.3, -0.2][:d])
    inp = {"start": start, "widths": np.array([0.7, 0.5][:d])}
    if limits == "box":
        inp["lower"] = np.array([-1.0, -1.5][:d])
        inp["upper"] = np.array([1.2, 0.9][:d])
    if limits == "int-start" and kind != "EnsembleSampler":
        inp["start"] = np.array([1, 0][:d])  # integer dtype is a legal way to write a starting point
    if kind == "EnsembleSampler":
        inp["start"] = np.array([[0.3, -0.2], [1.0, 0.4], [-0.6, 0.8], [0.1, -0.9]])[:, :d].copy()
        if limits == "hard-support":
            inp["start"] = np.array([[0.3, -0.2], [1.0, 0.4], [-0.6, 0.8], [1.9, -0.9]])[:, :d].copy()  # the last walker starts where the log-density is -inf
        if limits == "int-dtype":
            inp["start"] = np.array([[0, -1], [2, 1], [-1, 3], [1, -2]])[:, :d].copy()  # integer dtype is a legal input
    if kind == "HamiltonianChain":
        inp["inverse_mass"] = np.array([0.8, 1.4][:d])
    return inp


def build(kind, inp, T, limits, fn=post):
    from inference.mcmc import EnsembleSampler, GibbsChain, HamiltonianChain, PcaChain
    from inference.mcmc.gibbs import MetropolisChain

    d = inp["start"].shape[-1]
    b = (inp["lower"], inp["upper"]) if limits == "box" else None
    if kind in ("MetropolisChain", "GibbsChain"):
        cls = MetropolisChain if kind == "MetropolisChain" else GibbsChain
        ch = cls(posterior=fn, start=inp["start"], widths=inp["widths"], temperature=T, display_progress=False)
        if limits == "box":
            for i in range(d):
                ch.set_boundaries(i, (float(inp["lower"][i]), float(inp["upper"][i])))
        return ch
    if kind == "PcaChain":
        return PcaChain(posterior=fn, start=inp["start"], widths=inp["widths"], temperature=T, bounds=b, display_progress=False)
    if kind == "HamiltonianChain":
        ch = HamiltonianChain(posterior=fn, grad=grad, start=inp["start"], temperature=T, bounds=b, epsilon=0.3,
                              inverse_mass=inp["inverse_mass"], display_progress=False)
        ch.steps = 2
        return ch
    if kind == "EnsembleSampler":
        e = EnsembleSampler(posterior=fn, starting_positions=inp["start"], bounds=b, display_progress=False)
        if limits == "hard-support":
            e.max_attempts = 2  # a walker in the -inf region may fail again and again: keep the execution short
        if limits == "max-attempts-1":
            e.max_attempts = 1  # every rejected proposal is a failed walker update: position and probability must both stay
        return e
    raise KeyError(kind)


def snapshot(inp):
    return {k: (v.copy(), v.shape, v.dtype) for k, v in inp.items()}


def inputs_changed(inp, snap):
    bad = []
    for k, (v0, sh, dt) in snap.items():
        v = inp[k]
        if v.shape != sh or v.dtype != dt or not np.array_equal(v, v0):
            bad.append(k)
    return bad


def invariant(ch, kind, T, label, add_fail, ctxinfo, post=post):
    """probs[k] == posterior(sample[k])/T for all k; lengths; mode."""
    name = label
    if kind == "EnsembleSampler":
        with lib("walker-readout"):
            wp, wl = np.array(ch.walker_positions), np.array(ch.walker_probs)
        for i in range(wp.shape[0]):
            if not agree(float(wl[i]), post(wp[i])):
                add_fail(f"probs/{name}/walker-probability-not-posterior-at-walker-position", f"walker {i}: stored {wl[i]!r}, posterior {post(wp[i])!r}", **ctxinfo)
        if ch.chain_length == 0 and ch.sample is None:
            return None
    with lib("get_sample"):
        S = np.asarray(ch.get_sample(burn=0, thin=1))
    with lib("get_probabilities"):
        P = np.asarray(ch.get_probabilities(burn=0, thin=1))
    if S.ndim != 2 or P.ndim != 1 or S.shape[0] != P.shape[0]:
        add_fail(f"probs/{name}/probs-length-differs-from-samples", f"samples {S.shape}, probabilities {P.shape}", **ctxinfo)
        return None
    if ch.chain_length != P.shape[0]:
        add_fail(f"probs/{name}/chain_length-differs-from-stored", f"chain_length {ch.chain_length}, stored {P.shape[0]}", **ctxinfo)
    Tq = 1.0 if kind == "EnsembleSampler" else T
    for k in range(S.shape[0]):
        ref = post(S[k]) / Tq
        if not agree(float(P[k]), ref):
            add_fail(f"probs/{name}/probability-not-posterior-at-sample-over-T", f"index {k} of {S.shape[0]}: stored {P[k]!r}, posterior/T {ref!r}", **ctxinfo)
            break
    # the same correspondence through burned / thinned read-outs (sample k of the read-out <-> probability k of the read-out)
    for burn, thin in ((1, 1), (2, 3), (S.shape[0] - 1, 1)):
        if burn < 0 or burn >= S.shape[0]:
            continue
        with lib("burned-readout"):
            Sb = np.asarray(ch.get_sample(burn=burn, thin=thin))
            Pb = np.asarray(ch.get_probabilities(burn=burn, thin=thin))
        if Sb.shape[0] != Pb.shape[0]:
            add_fail(f"probs/{name}/burned-read-outs-misaligned", f"burn={burn} thin={thin}: {Sb.shape[0]} samples, {Pb.shape[0]} probabilities", **ctxinfo)
        elif any(not agree(float(Pb[k]), post(Sb[k]) / Tq) for k in range(Sb.shape[0])):
            add_fail(f"probs/{name}/burned-read-outs-misaligned", f"burn={burn} thin={thin}: probability k is not the posterior at sample k", **ctxinfo)
    with lib("mode"):
        m = np.asarray(ch.mode()).reshape(-1)
    rows = [k for k in range(S.shape[0]) if np.array_equal(S[k], m)]
    if not rows:
        add_fail(f"mode/{name}/mode-is-not-a-recorded-sample", f"mode {m.tolist()}", **ctxinfo)
    elif max(P[k] for k in rows) < P.max():
        add_fail(f"mode/{name}/mode-not-of-maximal-recorded-probability", f"mode {m.tolist()} has {max(P[k] for k in rows)!r} < {P.max()!r}", **ctxinfo)
    return hashlib.sha1(S.tobytes() + P.tobytes()).hexdigest()[:16]


OPS = {"step": None, "adv1": 1, "adv3": 3}
EXTRA_OPS = ("bnd",)  # limits set mid-run that exclude the current value (Gibbs / Metropolis only)


def apply_op(ch, kind, op):
    if op == "bnd":
        cur = float(ch.get_last()[0])
        ch.set_boundaries(0, (cur + 0.1, cur + 1.5))
        return
    if op == "step":
        if kind == "EnsembleSampler":
            ch.advance(1)
        else:
            ch.take_step()
    else:
        ch.advance(OPS[op])


def ev_history(case):
    kind, T, limits, d, hist, bound = case["sampler"], case["T"], case["limits"], case["d"], case["history"], case["bound"]
    label = f"{kind}/{limits or 'free'}"
    fails, fkeys, tags = [], set(), set()
    states, trans = set(), set()
    nexec = 0

    def add_fail(key, what, **kw):
        if key not in fkeys:
            fkeys.add(key)
            fails.append(fail(key, what, config=case, **kw))

    def body(ctx):
        inp = inputs_for(kind, d, limits)
        snap = snapshot(inp)
        fn = post_hard if limits == "hard-support" else post
        with lib("construct"):
            ch = build(kind, inp, T, limits, fn=fn)
        gen = ScriptedGenerator(ctx, normal=[-1.0, 1.0], quantiles=(0.25, 0.75))
        set_rng(ch, gen)
        info = {"choices": None}
        key = invariant(ch, kind, T, label, add_fail, {"after": []}, post=fn)
        states.add((0, key))
        for i, op in enumerate(hist):
            with lib(f"op-{op}"):
                apply_op(ch, kind, op)
            k2 = invariant(ch, kind, T, label, add_fail, {"after": hist[: i + 1], "choices": ctx.choices}, post=fn)
            if limits == "hard-support":
                pr = np.asarray(ch.walker_probs if kind == "EnsembleSampler" else ch.get_probabilities(burn=0, thin=1), dtype=float)
                tags.add(f"{label}:{'a-stored-log-probability-is--inf' if np.any(np.isneginf(pr)) else 'all-stored-log-probabilities-finite'}")
            trans.add((key, op, k2))
            states.add((i + 1, k2))
            key = k2
            bad = inputs_changed(inp, snap)
            if bad:
                add_fail(f"inputs/{label}/caller-array-modified", f"{bad} changed after {hist[: i + 1]}", after=hist[: i + 1], choices=ctx.choices)
        return ctx.obs

    for ctx, obs in explore(body, bound=bound, max_exec=200000):
        nexec += 1
        if obs is None:
            continue
        cm = [o for o in obs if o[0] == "cmp"]
        if any(o[5] is False for o in cm):
            tags.add(f"{label}:T={T}:rejected-then-continued")
        if any(o[5] is True for o in cm):
            tags.add(f"{label}:T={T}:accepted-on-uniform")
        if len(cm) < sum(1 for o in obs if o[0] == "call" and o[2] == "normal"):
            tags.add(f"{label}:T={T}:auto-accept")
    return {"fails": fails, "n": nexec, "states": len(states), "transitions": len(trans), "tags": tags,
            "sample": {"config": case, "executions": nexec}}


def ev_shared(case):
    """Two samplers built from the SAME input arrays; every interleaving of their steps; seeded generators."""
    kind, T, limits, d, L = case["sampler"], case["T"], case["limits"], case["d"], case["length"]
    label = f"{kind}/{limits or 'free'}"
    fails, fkeys, tags = [], set(), set()

    def add_fail(key, what, **kw):
        if key not in fkeys:
            fkeys.add(key)
            fails.append(fail(key, what, config=case, **kw))

    def seed(ch, s):
        ch.rng = np.random.default_rng(s)
        for i, p in enumerate(getattr(ch, "params", [])):
            p.rng = np.random.default_rng(1000 * s + i)

    def readout(ch):
        if kind == "EnsembleSampler":
            return (np.array(ch.walker_positions).tobytes(), np.array(ch.walker_probs).tobytes(),
                    None if ch.sample is None else ch.sample.tobytes())
        return (np.asarray(ch.get_sample(burn=0)).tobytes(), np.asarray(ch.get_probabilities(burn=0)).tobytes())

    # solo trajectories
    solo = {}
    for who, s in (("A", 11), ("B", 23)):
        inp = inputs_for(kind, d, limits)
        with lib("construct"):
            ch = build(kind, inp, T, limits)
        seed(ch, s)
        traj = [readout(ch)]
        for _ in range(L):
            with lib("solo-step"):
                apply_op(ch, kind, "step")
            traj.append(readout(ch))
        solo[who] = traj
    n = 0
    seen = set()
    for sched in itertools.product("AB", repeat=L):
        inp = inputs_for(kind, d, limits)
        snap = snapshot(inp)
        with lib("construct"):
            A = build(kind, inp, T, limits)
            B = build(kind, inp, T, limits)
        seed(A, 11)
        seed(B, 23)
        cnt = {"A": 0, "B": 0}
        obj = {"A": A, "B": B}
        for who in sched:
            with lib("interleaved-step"):
                apply_op(obj[who], kind, "step")
            cnt[who] += 1
            n += 1
            for w in "AB":
                if readout(obj[w]) != solo[w][cnt[w]]:
                    add_fail(f"shared/{label}/sampler-affected-by-sibling-built-from-same-arrays",
                             f"schedule {''.join(sched)}: sampler {w} after {cnt[w]} own steps differs from its solo run", schedule="".join(sched))
            bad = inputs_changed(inp, snap)
            if bad:
                add_fail(f"inputs/{label}/caller-array-modified", f"{bad} changed during schedule {''.join(sched)}", schedule="".join(sched))
            seen.add((cnt["A"], cnt["B"]))
        if kind != "EnsembleSampler":
            # a hand-made exchange of the last points of the two chains inside one process, through the public
            # get_last / replace_last hooks (what tempering_process does across processes), then one more step each
            with lib("manual-exchange"):
                xa, xb = A.get_last(), B.get_last()
                la, lb = A.probs[-1], B.probs[-1]
                wa, wb = np.array(xa, dtype=float, copy=True), np.array(xb, dtype=float, copy=True)
                A.replace_last(xb)
                A.probs[-1] = lb
                B.replace_last(xa)
                B.probs[-1] = la
            for w, ch_, want in (("A", A, wb), ("B", B, wa)):
                got = np.asarray(ch_.get_last(), dtype=float)
                if not np.array_equal(got, want):
                    add_fail(f"shared/{label}/manual-exchange-installs-wrong-point", f"schedule {''.join(sched)}: chain {w} holds {got.tolist()}, partner had {want.tolist()}", schedule="".join(sched))
                elif abs(ch_.probs[-1] - post(got) / T) > 1e-12 * (1 + abs(ch_.probs[-1])):
                    add_fail(f"shared/{label}/probability-not-posterior-after-manual-exchange", f"chain {w}", schedule="".join(sched))
            n += 1
        tags.add(f"shared:{label}:T={T}")
    return {"fails": fails, "n": n, "states": len(seen), "transitions": n, "tags": tags}


def ev_exchange(case):
    from checks.c08 import ev_exchange as _ev

    return _ev(case)


EVALUATORS = {"history": ev_history, "shared": ev_shared, "exchange": ev_exchange}


class _Boom(RuntimeError):
    pass


def ev_faults(case):
    """The user's posterior raises at its k-th evaluation inside an operation and the user catches the exception: the
    sampler must be left in a state in which stored probabilities still belong to stored samples and lengths agree,
    and it must be usable afterwards."""
    kind, T, limits, d, op = case["sampler"], case["T"], case["limits"], case["d"], case["op"]
    label = f"{kind}/{limits or 'free'}"
    fails, fkeys, tags = [], set(), set()
    n = 0

    def add_fail(key, what, **kw):
        if key not in fkeys:
            fkeys.add(key)
            fails.append(fail(key, what, config=case, **kw))

    for k in range(1, case["kmax"] + 1):
        state = {"armed": False, "count": 0}

        def fn(t):
            if state["armed"]:
                state["count"] += 1
                if state["count"] == k:
                    raise _Boom("posterior failed")
            return post(t)

        inp = inputs_for(kind, d, limits)
        with lib("construct"):
            ch = build(kind, inp, T, limits, fn=fn)
        ch.rng = np.random.default_rng(5 + k)
        for i, p in enumerate(getattr(ch, "params", [])):
            p.rng = np.random.default_rng(50 + 7 * k + i)
        with lib("warm-up"):
            apply_op(ch, kind, "step")
        state["armed"] = True
        raised = False
        try:
            apply_op(ch, kind, op)
        except _Boom:
            raised = True
        except Exception as e:  # the library turned the user's exception into something else: still only the state matters
            raised = True
        state["armed"] = False
        n += 1
        if not raised:
            tags.add(f"faults:{label}:{op}:k-beyond-the-operation")
        else:
            tags.add(f"faults:{label}:{op}:raised")
        ctxinfo = {"fault_at_evaluation": k, "op": op}
        invariant(ch, kind, T, label + "/after-posterior-exception", add_fail, ctxinfo)
        try:
            with lib("step-after-exception"):
                apply_op(ch, kind, "step")
        except Exception as e:
            add_fail(f"faults/{label}/sampler-unusable-after-posterior-exception", f"fault at evaluation {k} of {op}: {e}"[:300], **ctxinfo)
            continue
        invariant(ch, kind, T, label + "/after-posterior-exception+step", add_fail, ctxinfo)
    return {"fails": fails, "n": n, "states": n, "transitions": 2 * n, "tags": tags}


EVALUATORS["faults"] = ev_faults


def run(ck):
    depth = 3 if ck.quick else 4
    bound = 2 if ck.quick else 3
    cases = []
    for kind in SAMPLERS:
        for limits in (None, "box", "int-dtype", "max-attempts-1", "int-start", "hard-support"):
            if limits in ("int-dtype", "max-attempts-1") and kind != "EnsembleSampler":
                continue
            if limits == "int-start" and kind == "EnsembleSampler":
                continue
            if limits == "hard-support":
                # the posterior has hard limits of its own and one walker starts outside them (log-density -inf)
                if kind == "EnsembleSampler":
                    for d in (1, 2):
                        for h in (["step", "step"], ["adv1", "adv3"]) if ck.quick else (["step", "step", "step"], ["adv1", "adv3"], ["adv3", "adv1"]):
                            cases.append(dict(sampler=kind, T=1.0, limits=limits, d=d, history=list(h), bound=1 if ck.quick else 2))
                continue
            for T in (1.0, 2.5):
                if kind == "EnsembleSampler" and T != 1.0:
                    continue
                for d in (1, 2):
                    if ck.quick and d == 1 and kind in ("HamiltonianChain",):
                        continue
                    # maximal histories only (prefixes are visited on the way); rotate by seed
                    if ck.quick:
                        hists = [list(h) for h in itertools.product(OPS, repeat=3)][ck.seed % 3 :: 3]
                        for h in hists:
                            cases.append(dict(sampler=kind, T=T, limits=limits, d=d, history=h, bound=2))
                    else:
                        # depth 4 with 2 deviations on half of the 81 histories, depth 3 with 3 deviations on all 27
                        for h in [list(h) for h in itertools.product(OPS, repeat=4)][(ck.seed + d) % 2 :: 2]:
                            cases.append(dict(sampler=kind, T=T, limits=limits, d=d, history=h, bound=2))
                        for h in [list(h) for h in itertools.product(OPS, repeat=3)]:
                            # (an ensemble iteration has three choice points per walker: 3 deviations over 9 iterations exceed the execution cap)
                            cases.append(dict(sampler=kind, T=T, limits=limits, d=d, history=h, bound=3 if kind != "EnsembleSampler" else 2))
    for kind in ("GibbsChain", "MetropolisChain"):
        for T in (1.0, 2.5):
            for h in (["step", "bnd", "step"], ["bnd", "adv1", "bnd"], ["adv3", "bnd", "adv1"], ["step", "step", "bnd"]):
                cases.append(dict(sampler=kind, T=T, limits=None, d=2, history=h, bound=2))
    ck.run_cases("history", cases, chunk=2)
    sc = []
    for kind in SAMPLERS:
        for limits in (None, "box"):
            for T in (1.0, 2.5):
                if kind == "EnsembleSampler" and T != 1.0:
                    continue
                sc.append(dict(sampler=kind, T=T, limits=limits, d=2, length=4 if ck.quick else 6))
    ck.run_cases("shared", sc, chunk=1)
    ck.run_cases("faults", [dict(sampler=kind, T=T, limits=lim, d=2, op=op, kmax=10 if ck.quick else 25) for kind in SAMPLERS for lim in (None, "box")
                            for T in ((1.0,) if kind == "EnsembleSampler" else (1.0, 2.5)) for op in ("step", "adv3")], chunk=2)
    # points installed by a parallel-tempering exchange (shared with C08's exchange evaluator)
    ck.run_cases("exchange", [dict(chains=k, N=N, seed=1 + ck.seed, presteps=pre, ladder=lad)
                              for k, N, pre, lad in (("GibbsChain", 2, 1, "sorted"), ("GibbsChain", 3, 2, "unsorted"), ("HamiltonianChain", 3, 1, "sorted"),
                                                     ("PcaChain", 2, 1, "unsorted"))], chunk=1)
    ck.rule = ("every history of the listed depth over {take_step, advance(1), advance(3)} per sampler x limits x T x d, each explored over all outcomes of the "
               "scripted random stream within the deviation bound; invariant after every call. Distinct non-trivial = (sampler/limits, T, decision kind reached)")
    ck.assume("posterior is a fixed smooth function; draws restricted to a 2-letter normal alphabet and 2 quantiles; deviation bound 2 at depth %d%s" % (depth, "" if ck.quick else ", 3 at depth 3"))
    ck.extra["history_depth"] = depth
    ck.extra["deviation_bound_completed"] = 2 if ck.quick else "2 at depth 4, 3 at depth 3"
