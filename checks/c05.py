"""C05 – Gaussian / Cauchy / logistic likelihood objects are the named normalised densities.

Engine D (exhaustive input lattice).  For every (class, sigma pattern, forward model, parameter point,
input form) every residual vector of the stated finite lattice is realised as data `y = prediction + r*sigma`
and the real object's `__call__`, `gradient`, `cost`, `cost_gradient` are compared with a 50-digit reference
(mc/ref/c05_ref.py) evaluated on the *same float* data / predictions / Jacobian.  Normalisation over the
data (and the logistic "s.d. equals sigma" clause) is checked independently of the reference formulas by
quadrature of exp(value) over y for single-datum objects.
Input forms ("reject or be right", evaluator forms): data / uncertainties handed over as list, tuple, (n,1), (1,n), Python number, 0-d,
length-1, ... - a form the constructor ACCEPTS must give the results of the canonical flat arrays
(forms/<Class>/<argument>-given-as-<form>/accepted-but-<call>-differs-from-flat-array-form, ../accepted-but-raises:<Type>);
a form refused with ValueError / TypeError is fine and counted as rejected in the tags.
"""
import itertools

import numpy as np

from mc.core import fail, lib, HarnessError

LEVEL = "exploration"

EPS = float(np.finfo(float).eps)
CTOL = 16.0  # value / gradient tolerance = CTOL * eps * (sum of |terms| of the reference), see c05_ref

RES_QUICK = [0.0, 0.5, -0.5, 3.0, -3.0, 30.0, -30.0, 300.0, -300.0, 1e4, -1e4]
RES_THOROUGH = RES_QUICK + [1e-3, -1e-3, 1.0, -1.0, 10.0, -10.0, 1e3, -1e3, 1e-8, -1e-8]

SIGMA_PATTERNS = {
    "1e-6": [1e-6],
    "1e-3": [1e-3],
    "1": [1.0],
    "1e3": [1e3],
    "mixed": [1e-6, 1e3, 1.0, 1e-3, 7.3],
    "mixed2": [0.31, 2.5e-5, 40.0, 1.0, 6e4],
}
# added: NON-UNIFORM uncertainties at extreme absolute scales (SI-unit data: nano-amps, micro-metres, mega-watts) and NEARLY equal
# uncertainties (relative spread 1e-6 / 1e-9).  The data are prediction + r * sigma_i as everywhere in the lattice, so residual / sigma
# stays the O(1)..1e4 alphabet; the reference is evaluated on the same floats and the tolerance CTOL*eps*sum|terms| (~1e-15 relative to
# the chi-squared) resolves a relative change of 1e-9 in any single sigma_i whenever the residuals are not all tiny.
_NONUNIFORM = [1.0, 3.0, 2.0, 6.0, 4.5]
SIGMA_PATTERNS_EXTRA = {
    "nonuniform@1e-9": [t * 1e-9 for t in _NONUNIFORM],
    "nonuniform@1e-6": [t * 1e-6 for t in _NONUNIFORM],
    "nonuniform@1e6": [t * 1e6 for t in _NONUNIFORM],
    "nearly-equal(1e-6)@1": [1.0 + k * 1e-6 for k in (0, 3, 1, 4, 2)],
    "nearly-equal(1e-9)@1": [1.0 + k * 1e-9 for k in (0, 3, 1, 4, 2)],
    "nearly-equal(1e-6)@1e-9": [1e-9 * (1.0 + k * 1e-6) for k in (0, 3, 1, 4, 2)],
    "nearly-equal(1e-9)@1e6": [1e6 * (1.0 + k * 1e-9) for k in (0, 3, 1, 4, 2)],
    "nearly-equal(1e-6)@0.37": [0.37 * (1.0 + k * 1e-6) for k in (4, 0, 2, 1, 3)],
}
SIGMA_PATTERNS.update(SIGMA_PATTERNS_EXTRA)

X_GRID = [-1.0, 0.25, 0.5, 2.0, 3.5]  # abscissae of the linear / quadratic models

THETA_MENU = {
    # identity: theta_i = entry i (p = n)
    "identity": [
        [0.0, 1.5, -2.25, 0.75, 10.0],
        [1.0, -1e-3, 1e3, -40.0, 0.125],
        [-7.0, 3.0, 0.0, 2e-2, -512.0],
        [0.3, 0.3, -0.3, 1e2, 5.0],
    ],
    "linear": [[0.5, -1.25], [2.0, 3.0], [-1e2, 0.125], [0.0, 1.0]],
    "quadratic": [[0.5, -1.25, 0.75], [2.0, 3.0, -1.5], [-10.0, 0.125, 4.0], [0.0, 1.0, 0.0]],
}


# ----------------------------------------------------------------------------- forward models (harness side)
def make_model(name, n):
    x = np.array(X_GRID[:n])
    if name == "identity":
        return (lambda th: np.array(th, dtype=float)[:n].copy()), (lambda th: np.eye(n)), n
    if name == "linear":
        # F_i = 0.5 + th0 * x_i + th1 * (1 - x_i)
        def F(th):
            return 0.5 + th[0] * x + th[1] * (1.0 - x)

        def J(th):
            return np.stack([x, 1.0 - x], axis=1)

        return F, J, 2
    if name == "quadratic":
        # F_i = th0 + th1 x_i + th2^2 x_i^2 + th0 th2
        def F(th):
            return th[0] + th[1] * x + th[2] ** 2 * x**2 + th[0] * th[2]

        def J(th):
            return np.stack([np.full(n, 1.0 + th[2]), x, 2.0 * th[2] * x**2 + th[0]], axis=1)

        return F, J, 3
    raise HarnessError(f"unknown model {name}")


def sigma_vector(pattern, n, rot):
    base = SIGMA_PATTERNS[pattern]
    return [base[(i + rot) % len(base)] for i in range(n)]


def as_form(vals, form):
    if form == "array":
        return np.array(vals, dtype=float)
    if form == "list":
        return [float(v) for v in vals]
    if form == "tuple":
        return tuple(float(v) for v in vals)
    if form == "scalar":
        return float(vals[0])
    if form == "0d":
        return np.array(float(vals[0]))
    if form == "column":
        return np.array(vals, dtype=float).reshape(-1, 1)
    raise HarnessError(form)


def residual_vectors(n, alphabet, mode):
    """the enumerated residual lattice for n data points"""
    m = len(alphabet)
    if mode == "all":
        return [list(t) for t in itertools.product(range(m), repeat=n)]
    # windows: every cyclic length-n window of the alphabet in 3 listed orders, plus the constant vectors
    out = []
    orders = [list(range(m)), list(range(m))[::-1], list(range(0, m, 2)) + list(range(1, m, 2))]
    for order in orders:
        for s in range(m):
            out.append([order[(s + k) % m] for k in range(n)])
    for a in range(m):
        out.append([a] * n)
    return out


# ----------------------------------------------------------------------------- evaluators
def ev_lattice(case):
    import inference.likelihoods as L
    import mpmath as mp
    from mc.ref import c05_ref as R

    mp.mp.dps = 50
    kind = case["kind"]
    cls = getattr(L, R.CLASS_OF[kind])
    n = case["n"]
    F, J, p = make_model(case["model"], n)
    theta = np.array(case["theta"], dtype=float)
    sig = sigma_vector(case["sigma"], n, case["rot"])
    alphabet = case["alphabet"]
    form = case["form"]
    pred = F(theta)
    jac = J(theta)
    predl = [float(v) for v in pred]
    jacl = [[float(v) for v in row] for row in jac]
    fails, tags, nev = [], set(), 0
    slack = {}
    last = None
    # own failure keys for the added extreme-scale / nearly-equal uncertainty patterns
    ksuf = ("-with-nearly-equal-uncertainties" if case["sigma"].startswith("nearly") else "-with-non-uniform-uncertainties-at-extreme-scale") if case["sigma"] in SIGMA_PATTERNS_EXTRA else ""
    for ridx in case["vectors"]:
        r = [alphabet[k] for k in ridx]
        y = [predl[i] + r[i] * sig[i] for i in range(n)]
        with lib(f"{cls.__name__}-construct"):
            obj = cls(y_data=as_form(y, form), **{("gamma" if kind == "cauchy" else "sigma"): as_form(sig, form)}, forward_model=F, forward_model_jacobian=J)
        with lib(f"{cls.__name__}-call"):
            v = obj(theta)
        with lib(f"{cls.__name__}-gradient"):
            g = obj.gradient(theta)
        with lib(f"{cls.__name__}-cost"):
            c = obj.cost(theta)
        with lib(f"{cls.__name__}-cost_gradient"):
            cg = obj.cost_gradient(theta)
        nev += 4
        det = dict(kind=kind, y=y, sigma=sig, prediction=predl, residual_in_sigma=r, theta=theta.tolist(), model=case["model"], form=form)
        # ---- value
        ref, sc = R.total(kind, y, predl, sig)
        if np.ndim(v) != 0:
            fails.append(fail(f"value/{cls.__name__}/not-a-scalar", f"shape {np.shape(v)}", **det))
            continue
        tol = CTOL * EPS * float(sc)
        err = abs(mp.mpf(float(v)) - ref) if np.isfinite(v) else mp.inf
        s = float(err) / tol if err != mp.inf else float("inf")
        sname = f"value/{kind}" + ("/added-uncertainty-patterns" if ksuf else "")
        slack[sname] = max(slack.get(sname, 0.0), s if s == s else float("inf"))
        if not (err <= tol):
            fails.append(fail(f"value/{cls.__name__}/log-density{ksuf}", f"value {float(v)!r} vs reference {mp.nstr(ref, 20)} (err {mp.nstr(err, 5)}, tol {tol:.3g}) r={r} sigma={sig}", observed=float(v), expected=mp.nstr(ref, 25), **det))
        # ---- gradient
        g = np.asarray(g)
        if g.shape != (p,):
            fails.append(fail(f"gradient/{cls.__name__}/shape", f"shape {g.shape}, {p} parameters", **det))
        else:
            gref, gsc = R.gradient(kind, y, predl, sig, jacl)
            for j in range(p):
                tolj = CTOL * EPS * float(gsc[j])
                gj = float(g[j])
                ej = abs(mp.mpf(gj) - gref[j]) if np.isfinite(gj) else mp.inf
                if tolj == 0.0:
                    ok = ej == 0
                    sj = 0.0 if ok else float("inf")
                else:
                    ok = ej <= tolj
                    sj = float(ej) / tolj if ej != mp.inf else float("inf")
                gname = f"gradient/{kind}" + ("/added-uncertainty-patterns" if ksuf else "")
                slack[gname] = max(slack.get(gname, 0.0), sj)
                if not ok:
                    fails.append(fail(f"gradient/{cls.__name__}/derivative{ksuf}", f"d/dtheta[{j}] = {gj!r} vs reference {mp.nstr(gref[j], 20)} (tol {tolj:.3g}) r={r} sigma={sig}", observed=g.tolist(), expected=[mp.nstr(t, 25) for t in gref], **det))
                    break
        # ---- exact negatives
        if not (np.ndim(c) == 0 and (float(c) == -float(v) or (c != c and v != v))):
            fails.append(fail(f"cost/{cls.__name__}/not-exact-negative", f"cost {c!r} vs value {v!r}", observed=float(c) if np.ndim(c) == 0 else repr(c), **det))
        cg = np.asarray(cg)
        if not (cg.shape == g.shape and np.array_equal(cg, -g, equal_nan=True)):
            fails.append(fail(f"cost_gradient/{cls.__name__}/not-exact-negative", f"cost_gradient {cg.tolist()} vs gradient {g.tolist()}", **det))
        amax = max(abs(t) for t in r)
        zero = any(t == 0.0 for t in r)
        tags.add(f"{kind},n={n},sigma={case['sigma']},model={case['model']},form={form},maxres={amax:g},zero={zero},signs={'+' if any(t > 0 for t in r) else ''}{'-' if any(t < 0 for t in r) else ''}")
        last = {"kind": kind, "y": y, "sigma": sig, "theta": theta.tolist(), "value": float(v), "reference": mp.nstr(ref, 20), "gradient": g.tolist()}
    return {"fails": fails[:20], "n": nev, "tags": tags, "slack": slack, "sample": last}


def ev_selfcheck(case):
    """the reference's closed-form derivative agrees with 50-digit numerical differentiation of its own log-density,
    its density integrates to one and the logistic one has s.d. sigma (guards the oracle, not the library)"""
    import mpmath as mp
    from mc.ref import c05_ref as R

    mp.mp.dps = 50
    kind = case["kind"]
    tags = set()
    for s in (1e-6, 1.0, 7.3, 1e3):
        for r in (0.0, 0.5, -3.0, 30.0, -300.0, 1e4):
            mu = 1.25
            y = mu + r * s
            a = R.dlogpdf_dmu(kind, y, mu, s)
            b = R.dlogpdf_dmu_numeric(kind, y, mu, s)
            if abs(a - b) > mp.mpf(10) ** -12 * (abs(a) + 1 / mp.mpf(s)):
                raise HarnessError(f"reference derivative inconsistent for {kind} s={s} r={r}: {a} vs {b}")
        f = lambda t: mp.exp(R.logpdf(kind, t * s, 0.0, s)[0]) * s  # noqa: E731
        tot = mp.quad(f, [-mp.inf, -30, -3, 0, 3, 30, mp.inf])
        if abs(tot - 1) > mp.mpf(10) ** -25:
            raise HarnessError(f"reference density of {kind} integrates to {tot}")
        if kind != "cauchy":
            m2 = mp.quad(lambda t: t * t * f(t), [-mp.inf, -30, -3, 0, 3, 30, mp.inf])
            if abs(m2 - 1) > mp.mpf(10) ** -25:
                raise HarnessError(f"reference density of {kind} has variance {m2} sigma^2")
        tags.add(f"selfcheck {kind} s={s}")
    return {"fails": [], "n": 0, "tags": tags}


QUAD_TOL = 1e-9


def ev_norm(case):
    """single datum: integral over the data y of exp(value) is 1; second moment about the prediction is sigma^2
    (Gaussian, logistic)"""
    import inference.likelihoods as L
    import mpmath as mp
    from mc.ref import c05_ref as R

    mp.mp.dps = 20
    kind = case["kind"]
    cls = getattr(L, R.CLASS_OF[kind])
    s = case["sigma"]
    mu = case["pred_in_sigma"] * s
    pred = np.array([mu])
    F = lambda th: pred  # noqa: E731
    theta = np.array([0.0])
    kw = "gamma" if kind == "cauchy" else "sigma"
    count = [0]

    def dens(ymp):
        y = float(ymp)
        count[0] += 1
        with lib(f"{cls.__name__}-call"):
            v = cls(y_data=np.array([y]), **{kw: np.array([s])}, forward_model=F)(theta)
        v = float(v)
        if v != v:
            return mp.mpf("nan")
        return mp.exp(mp.mpf(v)) if v > -1e300 else mp.mpf(0)

    cuts = [-mp.inf] + [mp.mpf(mu) + k * mp.mpf(s) for k in (-300, -30, -6, -2, 0, 2, 6, 30, 300)] + [mp.inf]
    fails, slack = [], {}
    tot, e0 = mp.quad(dens, cuts, error=True)
    d = abs(tot - 1)
    tol = QUAD_TOL + 10 * float(e0)
    slack[f"normalisation/{kind}"] = float(d) / tol
    det = dict(kind=kind, sigma=s, prediction=mu)
    if not (d <= tol):
        fails.append(fail(f"normalisation/{cls.__name__}/integral-over-data", f"integral of exp(value) over y = {mp.nstr(tot, 15)} (quadrature error est. {mp.nstr(e0, 3)})", observed=mp.nstr(tot, 18), expected="1", **det))
    if kind != "cauchy":
        m2, e2 = mp.quad(lambda t: ((t - mp.mpf(mu)) / mp.mpf(s)) ** 2 * dens(t), cuts, error=True)
        d2 = abs(m2 - 1)
        tol2 = QUAD_TOL + 10 * float(e2)
        slack[f"variance/{kind}"] = float(d2) / tol2
        if not (d2 <= tol2):
            fails.append(fail(f"normalisation/{cls.__name__}/standard-deviation-is-sigma", f"second moment about the prediction = {mp.nstr(m2, 15)} sigma^2", observed=mp.nstr(m2, 18), expected="1", **det))
    return {"fails": fails, "n": count[0], "tags": {f"quad {kind} sigma={s:g} pred={case['pred_in_sigma']}sigma"}, "slack": slack, "sample": {"kind": kind, "sigma": s, "integral": mp.nstr(tot, 15), "evaluations": count[0]}}


EVALUATORS = {"lattice": ev_lattice, "selfcheck": ev_selfcheck, "norm": ev_norm}


# ----------------------------------------------------------------------------- call histories on one object (added)
def ev_history(case):
    """Sequences of calls on ONE likelihood object with ONE theta array that the caller mutates in place between calls:
    every call must agree with a fresh object evaluated at a fresh copy of the same values (no stale state)."""
    import inference.likelihoods as L
    from mc.ref import c05_ref as R

    kind, model, n = case["kind"], case["model"], case["n"]
    F, J, p = make_model(model, n)
    cls = getattr(L, R.CLASS_OF[kind])
    sig = np.array(sigma_vector(case["sigma"], n, 0))
    thetas = [np.array(t[:p], dtype=float) for t in THETA_MENU[model]]
    y = F(thetas[0]) + np.array([0.5, -3.0, 30.0, 0.0, -0.5][:n]) * sig
    fails, tags, nev = [], set(), 0
    with lib("construct"):
        obj = cls(y_data=y.copy(), **{("gamma" if kind == "cauchy" else "sigma"): sig.copy()}, forward_model=F, forward_model_jacobian=J)
    theta = thetas[0].copy()
    for seq in case["seqs"]:
        for step, (ti, call) in enumerate(seq):
            theta[:] = thetas[ti]  # in-place update of the caller's array
            with lib("fresh-object"):
                fresh = cls(y_data=y.copy(), **{("gamma" if kind == "cauchy" else "sigma"): sig.copy()}, forward_model=F, forward_model_jacobian=J)
                want = np.asarray(getattr(fresh, call)(thetas[ti].copy()))
            with lib(f"history-{call}"):
                got = np.asarray(getattr(obj, call)(theta))
            nev += 2
            if got.shape != want.shape or not np.array_equal(got, want):
                fails.append(fail(f"history/{R.CLASS_OF[kind]}/{call}-depends-on-earlier-calls",
                                  f"after {seq[:step]} with theta updated in place, {call} returned {got.tolist()} but a fresh object gives {want.tolist()}",
                                  sequence=seq, step=step))
                break
            if not np.array_equal(theta, thetas[ti]):
                fails.append(fail(f"history/{R.CLASS_OF[kind]}/theta-modified-by-{call}", f"{theta.tolist()}", sequence=seq))
        tags.add(f"history:{kind}:{model}")
    return {"fails": fails[:5], "n": nev, "tags": tags}


def ev_many(case):
    """many data points (hundreds to thousands) with small / large uncertainties: value vs the 50-digit sum of log-densities"""
    import inference.likelihoods as L
    from mc.ref import c05_ref as R

    import mpmath as mp

    kind, n, s0 = case["kind"], case["n"], case["scale"]
    cls = getattr(L, R.CLASS_OF[kind])
    k = np.arange(n)
    sig = s0 * (1.0 + 0.5 * ((k * 7) % 11) / 11.0)
    pred = 0.3 + 0.01 * ((k * 5) % 13)
    res = np.array([0.0, 0.5, -0.5, 3.0, -3.0, 30.0, -30.0])[k % 7]
    y = pred + res * sig
    with lib("construct"):
        obj = cls(y_data=y, **{("gamma" if kind == "cauchy" else "sigma"): sig}, forward_model=lambda th: pred + th[0] * 0.0, forward_model_jacobian=lambda th: np.zeros((n, 1)))
    with lib("value"):
        v = float(obj(np.array([0.0])))
    ref = mp.mpf(0)
    tot = mp.mpf(0)
    for yi, mi, si in zip(y, pred, sig):
        a, b = R.logpdf(kind, float(yi), float(mi), float(si))
        ref += a
        tot += b
    tol = CTOL * EPS * float(tot) * 4
    err = abs(v - float(ref)) if np.isfinite(v) else float("inf")
    fails = []
    if not err <= tol:
        fails.append(fail(f"value/{R.CLASS_OF[kind]}/log-density-many-points", f"n={n} sigma~{s0:g}: value {v!r}, reference {float(ref)!r} (|err| {err:.3g} > {tol:.3g})", n=n, scale=s0))
    return {"fails": fails, "n": 1, "slack": {"many-points-value": (err / tol) if np.isfinite(err) else 1e9}, "tags": {f"many:{kind}:n={n}:scale={s0:g}"}}


EVALUATORS.update({"history": ev_history, "many": ev_many})


# ----------------------------------------------------------------------------- input forms: reject or be right (added)
# The documented form of y_data and of the uncertainties is a 1-D array.  Which other container forms the constructor accepts is
# not part of the property - refusing one with ValueError / TypeError is fine - but a form that IS accepted must give exactly the
# value / gradient / cost / cost_gradient of the canonical flat float arrays holding the same numbers (a single number given for
# n data points can only mean "the same uncertainty for every point").
def _strided(a):
    a = np.asarray(a, dtype=float)
    big = np.zeros((2 * a.shape[0],) + a.shape[1:], dtype=float)
    big[::2] = a
    return big[::2]


def c05_forms(vals, shared):
    """[(name, object)] for the n numbers ``vals``; shared=True: all numbers are equal and single-number forms are included"""
    v = np.array(vals, dtype=float)
    n = v.size
    out = [
        ("list", v.tolist()), ("tuple", tuple(v.tolist())), ("(n,1)-array", v.reshape(n, 1).copy()), ("(1,n)-array", v.reshape(1, n).copy()), ("list-of-1-lists", [[t] for t in v.tolist()]),
        ("(1,n)-list", [v.tolist()]), ("strided-view", _strided(v)), ("(n,1)-strided-view", _strided(v.reshape(n, 1))), ("(n,1,1)-array", v.reshape(n, 1, 1).copy()),
    ]
    if shared:
        x = float(v[0])
        out += [("python-float", x), ("numpy-float64", np.float64(x)), ("0-d-array", np.array(x)), ("length-1-array", np.array([x])), ("length-1-list", [x]), ("(1,1)-array", np.array([[x]]))]
        if x == int(x):
            out.append(("python-int", int(x)))
    return out


def ev_forms(case):
    import inference.likelihoods as L
    import mpmath as mp
    from mc.core import LibFailure
    from mc.ref import c05_ref as R

    mp.mp.dps = 50
    kind, n, model, which = case["kind"], case["n"], case["model"], case["which"]
    cls = getattr(L, R.CLASS_OF[kind])
    kw = "gamma" if kind == "cauchy" else "sigma"
    F, J, p = make_model(model, n)
    theta = np.array(case["theta"], dtype=float)
    shared = case["sigma"] in ("shared-2", "shared-0.37")
    sig = [{"shared-2": 2.0, "shared-0.37": 0.37}[case["sigma"]]] * n if shared else sigma_vector(case["sigma"], n, case["rot"])
    pred = [float(t) for t in F(theta)]
    res = [[0.5, -3.0, 30.0, 0.0, -0.5][(i + case["rot"]) % 5] for i in range(n)]
    y = [pred[i] + res[i] * sig[i] for i in range(n)]
    fails, tags, slack, seen, nev = [], set(), {}, set(), 0
    det = dict(kind=kind, n=n, y=y, sigma=sig, theta=theta.tolist(), model=model)

    def add(key, what, **k2):
        if key not in seen:
            seen.add(key)
            fails.append(fail(key, what, **det, **k2))

    def results(obj):
        out = {}
        for call in ("__call__", "gradient", "cost", "cost_gradient"):
            with lib(f"{cls.__name__}-{call}"):
                out[call] = np.asarray(getattr(obj, call)(theta.copy()), dtype=float)
        return out

    with lib(f"{cls.__name__}-construct-canonical"):
        canon = cls(y_data=np.array(y, dtype=float), **{kw: np.array(sig, dtype=float)}, forward_model=F, forward_model_jacobian=J)
    want = results(canon)
    nev += 4
    _, sc = R.total(kind, y, pred, sig)
    _, gsc = R.gradient(kind, y, pred, sig, [[float(t) for t in row] for row in J(theta)])
    tolv = 2 * CTOL * EPS * float(sc)
    tolg = np.array([2 * CTOL * EPS * float(t) for t in gsc])
    forms = c05_forms(sig, shared) if which == "uncertainty" else c05_forms(y, n == 1)
    for fname, obj_in in forms:
        args = {"y_data": np.array(y, dtype=float), kw: np.array(sig, dtype=float)}
        args["y_data" if which == "data" else kw] = obj_in
        label = f"{which}={fname},{'n=1' if n == 1 else 'n>1'}"
        try:
            with lib(f"{cls.__name__}-construct-form", allow=(ValueError, TypeError)):
                obj = cls(**args, forward_model=F, forward_model_jacobian=J)
        except (ValueError, TypeError) as e:
            tags.add(f"form {label}: rejected by the constructor ({type(e).__name__})")
            continue
        except LibFailure as e:
            tags.add(f"form {label}: not accepted, the constructor raised {e.exc_type} (not a deliberate refusal)")
            continue
        nev += 1
        try:
            got = results(obj)
        except LibFailure as e:
            add(f"forms/{cls.__name__}/{which}-given-as-{fname}/accepted-but-raises:{e.exc_type}", f"{cls.__name__} accepted the {which} given as {fname} ({type(obj_in).__name__}{np.shape(obj_in)}), then {e}", form=fname, traceback=e.tb[-1500:])
            continue
        nev += 4
        ok = True
        for call in ("__call__", "gradient", "cost", "cost_gradient"):
            g, w = got[call], want[call]
            tol = tolv if call in ("__call__", "cost") else tolg
            if g.shape != w.shape:
                r = float("inf")
            elif np.array_equal(g, w, equal_nan=True):
                r = 0.0
            else:
                with np.errstate(all="ignore"):
                    q = np.abs(g - w) / tol
                r = float(np.max(np.where(np.isfinite(q), q, np.inf)))
            slack[f"forms/{kind}/{call}"] = max(slack.get(f"forms/{kind}/{call}", 0.0), r if np.isfinite(r) else 0.0)
            if not r <= 1:
                ok = False
                add(f"forms/{cls.__name__}/{which}-given-as-{fname}/accepted-but-{call}-differs-from-flat-array-form",
                    f"{cls.__name__} accepted the {which} given as {fname} ({type(obj_in).__name__}{np.shape(obj_in)}) for {n} data points, but {call} = {g.tolist()} whereas the same numbers as flat "
                    f"arrays give {w.tolist()} (shape {g.shape} vs {w.shape}, deviation {r:.3g} x tolerance)", form=fname, observed=g.tolist(), expected=w.tolist())
        tags.add(f"form {label}: accepted{'' if ok else ' (wrong)'}")
    tags.add(f"forms-config {kind},n={n},sigma={case['sigma']},model={model},{which}")
    return {"fails": fails[:20], "n": nev, "tags": tags, "slack": slack, "sample": {"kind": kind, "n": n, "which": which, "forms": [f[0] for f in forms]}}


EVALUATORS.update({"forms": ev_forms})


# ----------------------------------------------------------------------------- the object owns its data (added)
# "A likelihood object returns the sum of log-densities of the data / uncertainties it was GIVEN": what the caller does with its own
# containers afterwards (re-using a buffer for the next data set, rescaling an error array, editing a list) is not an input of any
# method.  Combined with the call-history evaluator: one object, one theta array updated in place, and before one of the calls the
# caller overwrites IN PLACE the very objects it handed to the constructor.
def _overwrite(obj, new):
    """write the numbers ``new`` into the caller's container ``obj`` in place; False when the container is immutable"""
    new = [float(t) for t in np.asarray(new, dtype=float).reshape(-1)]
    if isinstance(obj, np.ndarray):
        obj[...] = np.array(new, dtype=float).reshape(obj.shape)
        return True
    if isinstance(obj, list):
        if obj and isinstance(obj[0], list):
            flat = iter(new)
            for inner in obj:
                for j in range(len(inner)):
                    inner[j] = next(flat)
        else:
            obj[:] = new
        return True
    return False


def ev_owns(case):
    import inference.likelihoods as L
    from mc.core import LibFailure
    from mc.ref import c05_ref as R

    kind, model, n, which = case["kind"], case["model"], case["n"], case["which"]
    F, J, p = make_model(model, n)
    cls = getattr(L, R.CLASS_OF[kind])
    kw = "gamma" if kind == "cauchy" else "sigma"
    sig = np.array(sigma_vector(case["sigma"], n, case["rot"]))
    thetas = [np.array(t[:p], dtype=float) for t in THETA_MENU[model]]
    res = np.array([0.5, -3.0, 30.0, 0.0, -0.5])
    y = F(thetas[0]) + res[:n] * sig
    # what the caller writes into its buffers afterwards: the next data set / rescaled uncertainties (still positive)
    y_next = F(thetas[1]) + res[::-1][:n] * sig + 1.0
    sig_next = 3.0 * sig[::-1] + 0.125
    fails, tags, seen, nev = [], set(), set(), 0
    want = {}
    for ti in range(len(thetas)):
        with lib("fresh-object"):
            fresh = cls(y_data=y.copy(), **{kw: sig.copy()}, forward_model=F, forward_model_jacobian=J)
            for call in ("__call__", "gradient", "cost", "cost_gradient"):
                want[ti, call] = np.asarray(getattr(fresh, call)(thetas[ti].copy()))
        nev += 4
    names = [f[0] for f in c05_forms(y, False)] + ["flat-array"]
    for fname in names:
        def build(vals):
            return np.array(vals, dtype=float) if fname == "flat-array" else dict(c05_forms(vals, False))[fname]

        for seq in case["seqs"]:
            for wpos in range(len(seq)):
                y_in = build(y) if which in ("data", "both") else y.copy()
                s_in = build(sig) if which in ("uncertainty", "both") else sig.copy()
                cont = type(y_in if which != "uncertainty" else s_in).__name__
                try:
                    with lib(f"{cls.__name__}-construct-form", allow=(ValueError, TypeError)):
                        obj = cls(y_data=y_in, **{kw: s_in}, forward_model=F, forward_model_jacobian=J)
                except (ValueError, TypeError, LibFailure):
                    tags.add(f"owns {which}={fname}: not accepted by the constructor")
                    break
                theta = thetas[0].copy()
                written = False
                for step in range(len(seq) + 1):
                    if step == wpos:
                        done = [(_overwrite(y_in, y_next) if which in ("data", "both") else True), (_overwrite(s_in, sig_next) if which in ("uncertainty", "both") else True)]
                        written = all(done)
                        if not written:
                            break
                    if step == len(seq):
                        break
                    ti, call = seq[step]
                    theta[:] = thetas[ti]
                    with lib(f"owns-{call}"):
                        got = np.asarray(getattr(obj, call)(theta))
                    nev += 1
                    w = want[ti, call]
                    if got.shape != w.shape or not np.array_equal(got, w):
                        key = f"owns/{cls.__name__}/{call}-changes-when-the-caller-overwrites-its-{'data-and-uncertainty' if which == 'both' else which}-{cont}-afterwards" if step >= wpos \
                            else f"owns/{cls.__name__}/{call}-differs-from-fresh-object-before-any-overwrite"
                        if key not in seen:
                            seen.add(key)
                            fails.append(fail(key, f"{cls.__name__} built from {which} given as {fname}; the caller then overwrote its own {cont} in place (before call #{wpos} of {seq}): {call} at theta "
                                              f"{thetas[ti].tolist()} = {got.tolist()}, but the log-density of the data GIVEN (fresh object on copies of the original numbers) is {w.tolist()}",
                                              form=fname, which=which, sequence=seq, overwrite_before_step=wpos, step=step, y_given=y.tolist(), sigma_given=sig.tolist(),
                                              y_written_afterwards=y_next.tolist(), sigma_written_afterwards=sig_next.tolist()))
                        break
                if not written:
                    tags.add(f"owns {which}={fname}: immutable container (nothing to overwrite)")
                    break
                tags.add(f"owns {kind} {which}={fname} ({cont}) overwrite-before-call={min(wpos, 2)} of {len(seq)}")
    return {"fails": fails[:20], "n": nev, "tags": tags, "sample": {"kind": kind, "model": model, "which": which, "forms": names}}


EVALUATORS.update({"owns": ev_owns})


def run(ck):
    from mc.ref import c05_ref as R

    quick, seed = ck.quick, ck.seed
    ck.run_cases("selfcheck", [{"kind": k} for k in R.KINDS], chunk=1)
    import itertools as _it

    calls = ("__call__", "gradient", "cost", "cost_gradient")
    seqs = [[(a, c1), (b, c2)] for a, b in ((0, 1), (1, 0), (0, 0)) for c1 in calls for c2 in calls]
    seqs += [[(0, "__call__"), (1, "gradient"), (2, "__call__"), (1, "cost_gradient"), (0, "gradient")]]
    ck.run_cases("history", [dict(kind=k, model=m, n=3, sigma="mixed", seqs=seqs) for k in R.KINDS for m in ("identity", "linear", "quadratic")], chunk=1)
    # the object owns its data: the caller overwrites its data / uncertainty containers in place somewhere in a call history
    oseqs = [[(a, c1), (b, c2)] for a, b in ((0, 1), (0, 0)) for c1 in calls for c2 in calls] + [seqs[-1]]
    ores = ck.run_cases("owns", [dict(kind=k, model=m, n=3, sigma=["mixed", "1", "1e-3"][(ki + mi + wi + seed) % 3], rot=(seed + mi + wi) % 5, which=w, seqs=oseqs)
                                 for ki, k in enumerate(R.KINDS) for mi, m in enumerate(("identity", "linear", "quadratic")) for wi, w in enumerate(("data", "uncertainty", "both"))], chunk=1)
    ck.extra["owns_data"] = {"configurations": len(ores), "library_calls": int(sum(r.get("n", 0) for r in ores))}
    ck.run_cases("many", [dict(kind=k, n=n, scale=sc) for k in R.KINDS for n in ((400, 2000) if ck.quick else (400, 2000, 6000)) for sc in (1e-4, 0.05, 1.0, 30.0, 1e4)], chunk=1)
    alphabet = RES_QUICK if quick else RES_THOROUGH
    sigmas = ["1e-6", "1e-3", "1", "1e3", "mixed"] + ([] if quick else ["mixed2"])
    models = ["identity", "linear", "quadratic"]
    n_theta = 2 if quick else 4
    cases = []
    for kind in R.KINDS:
        for sg in sigmas:
            for model in models:
                for ti in range(n_theta):
                    theta = THETA_MENU[model][(ti + seed) % len(THETA_MENU[model])]
                    for n in (1, 2, 3, 5):
                        if n == 1:
                            forms = ["array", "list", "scalar", "0d"]
                        else:
                            forms = ["array", "list"] if ti == 0 else ["array"]
                        if not quick and ti == 1:
                            forms = forms + ["tuple", "column"]
                        for form in forms:
                            if n <= 2 or (n == 3 and form == "array" and ti < (1 if quick else 2)):
                                vecs = residual_vectors(n, alphabet, "all")
                            else:
                                vecs = residual_vectors(n, alphabet, "windows")
                            rot = (seed + ti) % 5
                            for b in range(0, len(vecs), 150):
                                cases.append({"kind": kind, "sigma": sg, "model": model, "theta": theta, "n": n, "form": form, "rot": rot, "alphabet": alphabet, "vectors": vecs[b : b + 150]})
    # added: non-uniform uncertainties at absolute scales 1e-9 / 1e-6 / 1e6 and nearly equal uncertainties (relative spread 1e-6 / 1e-9)
    xcount = 0
    for kind in R.KINDS:
        for sg in SIGMA_PATTERNS_EXTRA:
            for mi, model in enumerate(models):
                for ti in range(1 if quick else 3):
                    theta = THETA_MENU[model][(ti + mi + seed) % len(THETA_MENU[model])]
                    for n in (2, 3, 5):
                        for form in (["array", "list"] if n == 2 else ["array"]):
                            vecs = residual_vectors(n, alphabet, "all" if (n == 2 or (n == 3 and not quick and ti == 0)) else "windows")
                            for b in range(0, len(vecs), 150):
                                cases.append({"kind": kind, "sigma": sg, "model": model, "theta": theta, "n": n, "form": form, "rot": (seed + ti + mi) % 5, "alphabet": alphabet, "vectors": vecs[b : b + 150]})
                                xcount += 1
    ck.extra["extreme_and_nearly_equal_uncertainty_cases"] = xcount
    ck.run_cases("lattice", cases, chunk=1)
    ncases = []
    for kind in R.KINDS:
        for s in [1e-6, 1e-3, 1.0, 1e3] + ([] if quick else [7.3, 2.5e-5]):
            for pm in [0.0, [2.5, -40.0, 0.5, 17.0][seed % 4]] + ([] if quick else [-1.0, 1e3]):
                ncases.append({"kind": kind, "sigma": s, "pred_in_sigma": pm})
    ck.run_cases("norm", ncases, chunk=1)
    fcases = []
    for ki, kind in enumerate(R.KINDS):
        for ni, n in enumerate((1, 2, 3, 5)):
            for wi, (which, sg) in enumerate((("uncertainty", "shared-2"), ("uncertainty", "shared-0.37"), ("uncertainty", "mixed"), ("uncertainty", "1e-3"), ("data", "mixed"), ("data", "1e3"))):
                for mi, model in enumerate(models if not quick else [models[(ki + ni + wi + seed) % 3]]):
                    th = THETA_MENU[model][(ki + ni + wi + mi + seed) % len(THETA_MENU[model])]
                    fcases.append({"kind": kind, "n": n, "model": model, "theta": th, "sigma": sg, "rot": (seed + ni + wi) % 5, "which": which})
    ck.run_cases("forms", fcases)
    ck.rule = (
        "input forms (keys forms/..): for each class x n in {1,2,3,5} x {uncertainties, data} every listed container form of the SAME numbers - list, tuple, (n,1), (1,n), (n,1,1) arrays, list of "
        "1-lists, (1,n) list, strided views, and where all numbers are equal (a shared uncertainty 2 or 0.37 for all n points; n = 1 for the data) a Python float / int, numpy float64, 0-d, length-1 and "
        "(1,1) array, length-1 list - is handed to the constructor: a form it ACCEPTS must give __call__, gradient, cost, cost_gradient equal (bit for bit, else within the value / gradient tolerance) to "
        "those of the flat float arrays; a form refused with ValueError / TypeError is counted as rejected in the tag (distinct = (argument, form, n = 1 / n > 1, accepted / rejected)).  "
        "for each class x sigma pattern x forward model (identity/linear/quadratic, exact Jacobian) x parameter point x input form: every residual "
        "vector in A^n (n<=3) and every cyclic window / constant vector (n=5) over the residual alphabet A (in units of sigma) is realised as data; "
        "value, gradient, cost, cost_gradient compared with a 50-digit reference on the same floats.  Distinct = (class, n, sigma pattern, model, form, "
        "largest |residual|, zero residual present, signs).  Plus quadrature of exp(value) over y (n=1) for normalisation and s.d."
    )
    ck.rule += (
        "  Ownership of the data (evaluator owns, keys owns/<Class>/<call>-changes-when-the-caller-overwrites-its-<data|uncertainty|data-and-uncertainty>-<ndarray|list>-afterwards): for each class x "
        "forward model x {data, uncertainties, both} x every mutable container form the constructor accepts (flat array, list, (n,1) / (1,n) / (n,1,1) arrays, list of 1-lists, (1,n) list, strided "
        "views) x every two-call history over {__call__, gradient, cost, cost_gradient} at the same / another theta (theta array updated in place; plus one five-call history) x every position of the "
        "overwrite (before the first call or between two calls): the caller writes the NEXT data set / rescaled uncertainties into the very objects it passed (ndarray[...] =, list[:] =, "
        "inner-list items) and every call must return bit for bit what a fresh object built from copies of the ORIGINAL numbers returns; distinct = (class, argument, form, container, overwrite position)."
    )
    ck.rule += (
        "  Added uncertainty patterns (same lattice evaluator; keys value/<Class>/log-density-with-non-uniform-uncertainties-at-extreme-scale, ..-with-nearly-equal-uncertainties, gradient/<Class>/derivative-with-..): "
        "for each class x forward model x n in {2,3,5} the uncertainties are (i) the non-uniform vector (1,3,2,6,4.5) x 1e-9, x 1e-6, x 1e6 and (ii) NEARLY equal vectors s0 (1 + k d), k a permutation of 0..4, "
        "d in {1e-6, 1e-9}, s0 in {1, 0.37, 1e-9, 1e6}; data = prediction + r sigma_i over the same residual alphabet, so residual / sigma stays on the alphabet at every absolute scale; value and gradient "
        "against the 50-digit reference on the same floats with the unchanged tolerance 16 eps sum|terms| (which resolves a 1e-9 relative change of one sigma_i for the non-tiny residual vectors)."
    )
    ck.assume("uncertainties 'of any scale' is exercised at absolute scales 1e-9 .. 6e6 (non-uniform) and with relative spreads 1e-6 / 1e-9 between the uncertainties of one object; a likelihood may not replace nearly equal "
              "uncertainties by a common one, since the stated value is the sum of log-densities with the GIVEN scale of each datum")
    ck.assume("ownership: the property speaks of the data and uncertainties the object was GIVEN, so in-place changes the caller makes to its own containers after construction are not inputs of any method; "
              "tuples / numbers are immutable and only counted; the forward model and Jacobian callables are not mutated")
    ck.assume("input forms: which container forms the constructors accept is not part of the claim (any may be refused with ValueError / TypeError); a single number given as the uncertainty of n > 1 data points, "
              "if accepted, can only mean that uncertainty for every point")
    ck.assume("residuals are the listed multiples of sigma (up to 1e4 sigma), sigma in 1e-9..6e6, n <= 5, three forward models returning 1-D float arrays")
    ck.assume("the forward model's float output and Jacobian are taken as exact inputs of the likelihood (the property is about the likelihood given predictions)")
    ck.assume(f"quadrature clauses use the stated convention |integral-1| <= {QUAD_TOL:g} + 10 x quadrature error estimate (double-precision integrand)")
    ck.extra["residual_alphabet_sigma_units"] = alphabet
    ck.extra["value_gradient_tolerance"] = f"{CTOL:g} * eps * sum|terms|"
