"""C16 – GP derivative predictions are the derivatives of the GP prediction.

Engine D.  Lattice: d x n x design x mean function x kernel x hyper-parameter pattern x noise x (x,y) scale x
(constructor | set_hyperparameters) ; per element 5 query points (a data point, between data, near the centroid,
just outside the hull, far away), each as a single query in two input forms and inside batched queries.

Oracles (one failure key each)
  gradient-mean / spatial-mean : (a) Richardson-extrapolated central differences of the REAL ``GpRegressor.__call__`` mean
                                 (b) the mpmath reference  dm/dq + (d_i k) G^-1 (y - m)
  spatial-var                  : (a) Richardson derivative of the REAL ``__call__`` sd**2   (b) reference
  gradcov                      : symmetric; PSD; = reference prior d2k/dudv(q,q) - explained part; explained part PSD
  shape                        : (m,d) / (m,d,d) up to numpy squeeze (the docstring's shapes)
  batch                        : a row of a batched query = the single query
  history                      : differential – after any short sequence of gradient / spatial_derivatives / __call__ /
                                 set_hyperparameters calls on ONE regressor every result equals that of a fresh regressor with the
                                 same data and the current hyper-parameters (history/<kernel>/<method>/<output>.../<history class>)
  inplace                      : differential - the caller re-uses ONE query array and ONE hyper-parameter array, overwriting them in
                                 place between calls and passing the same objects again (inplace/<kernel>/<method>/<output>.../<class>)
Kernels without ``gradient_terms`` (RQ, ChangePoint, every composite: SE+SE, SE+SE+WN, RQ+SE, SE+RQ, CP, CP+WN, SE+WN) must raise
NotImplementedError (accepted) or be correct against the reference (sum of the component derivative kernels).
Tolerances: see tol_ref / fd_tolerance – c*eps*cond(G)*scale, the scale taken from the reference; the truncation
error of the difference stencil is computed by applying the same stencil to the mpmath reference function.
"""
import itertools

import numpy as np

from mc.core import HarnessError, fail, lib

LEVEL = "exploration"

EPS = float(np.finfo(float).eps)
C_EPS = 64.0  # rounding constant
C_JIT = 2e-12  # the library regularises the data covariance with a relative 1e-12 diagonal ("small but non-zero" errors)
LEVELS = 4

BASE = [
    [0.0, 0.5, 1.25],
    [1.0, 0.25, 0.0],
    [2.5, 1.75, 0.5],
    [0.75, 2.0, 2.25],
    [1.75, 1.0, 1.5],
    [3.0, 2.75, 2.5],
    [0.25, 1.5, 3.0],
    [2.0, 3.0, 1.0],
    [1.25, 2.25, 0.25],
    [2.75, 0.75, 2.0],
]
COLS = [[0, 1, 2], [1, 2, 0], [2, 0, 1]]
HP = {  # amplitude, length-scale per dimension (in units of the x scale)
    "unit": (1.0, [1.0, 1.0, 1.0]),
    "aniso": (2.5, [0.5, 2.0, 1.25]),
    "short": (0.2, [0.3, 0.4, 0.35]),
    "long": (30.0, [3.0, 1.5, 4.0]),
}
MEANS = {"C": "ConstantMean", "L": "LinearMean", "Q": "QuadraticMean"}
MEAN_T0 = 0.7
MEAN_LIN = [1.5, -0.75, 0.4]
MEAN_QUAD = [0.35, -0.2, 0.15]
KNAME = {"SE": "SquaredExponential", "RQ": "RationalQuadratic", "WN": "WhiteNoise"}
COMPOSITES = [["SE", "SE"], ["SE", "SE", "WN"], ["RQ", "SE"], ["SE", "RQ"], ["CP"], ["CP", "WN"]]


# ------------------------------------------------------------------------------------------ case -> objects
def build_data(case):
    d, n, g, xs, ys = case["d"], case["n"], case["design"], case["xs"], case["ys"]
    cols = COLS[g % 3][:d] if d < 3 else COLS[g % 3]
    rows = list(range(len(BASE)))
    rows = rows[g:] + rows[:g]
    if g % 2:
        rows = rows[::-1]
    rows = rows[:n]
    off = 0.125 * case.get("shift", 0)
    X = np.array([[(BASE[r][c] + off) * xs for c in cols] for r in rows], dtype=float)
    y = np.array([(sum(np.sin(1.3 * BASE[r][c] + i) for i, c in enumerate(cols)) + 0.3 * BASE[r][cols[0]]) * ys for r in rows])
    noise = case["noise"]
    if noise == "none":
        yerr = None
    elif noise == "uniform":
        yerr = np.full(n, 0.1 * ys)
    else:
        yerr = np.array([[1e-3, 0.03, 1.0, 0.2, 0.01, 0.5][j % 6] * ys for j in range(n)])
    return X, y, yerr


# the c-th signal component of a composite kernel gets its own amplitude and length-scales (c = 0: the pattern itself)
COMP_AMP = [1.0, 0.6, 1.4]
COMP_LS = [[1.0, 1.0, 1.0], [1.7, 0.55, 1.3], [0.45, 1.9, 0.7]]


def thetas(case, hp=None):
    d, xs, ys = case["d"], case["xs"], case["ys"]
    a, ls0 = HP[hp or case["hp"]]
    ls0 = [l * xs for l in ls0[:d]]
    kt = []
    c = 0  # number of signal components so far

    def se(c):
        return [np.log(a * ys * COMP_AMP[c])] + [np.log(l * COMP_LS[c][i]) for i, l in enumerate(ls0)]

    for kd in case["kernel"]:
        if kd == "SE":
            kt += se(c)
            c += 1
        elif kd == "RQ":
            t = se(c)
            kt += [t[0], np.log(1.7)] + t[1:]
            c += 1
        elif kd == "WN":
            kt += [np.log(0.15 * ys)]
        elif kd == "CP":
            # ChangePoint((SE, SE), axis=0): location inside the data range of axis 0, width a fraction of it
            kt += se(c) + se(c + 1) + [1.4 * xs, 0.5 * xs]
            c += 2
    ls = ls0
    mk = case["mean"]
    mt = [MEAN_T0 * ys]
    if mk in ("L", "Q"):
        mt += [s * ys / xs for s in MEAN_LIN[:d]]
    if mk == "Q":
        mt += [s * ys / xs**2 for s in MEAN_QUAD[:d]]
    return [float(v) for v in mt], [float(v) for v in kt], ls


def make_kernel(kinds):
    import inference.gp as G

    ks = [G.ChangePoint(kernels=[G.SquaredExponential(), G.SquaredExponential()], axis=0) if k == "CP" else getattr(G, KNAME[k])() for k in kinds]
    k = ks[0]
    for o in ks[1:]:
        k = k + o
    return k


def make_gp(case, X, y, yerr):
    import inference.gp as G

    def kern():
        return make_kernel(case["kernel"])

    mt, kt, ls = thetas(case)
    theta = np.array(mt + kt)
    kw = dict(kernel=kern(), mean=getattr(G, MEANS[case["mean"]])())
    if yerr is not None:
        kw["y_err"] = yerr.copy()
    if case["via"] == "ctor":
        with lib("GpRegressor"):
            gp = G.GpRegressor(X.copy(), y.copy(), hyperpars=theta.copy(), **kw)
    else:
        other = "unit" if case["hp"] != "unit" else "aniso"
        mt0, kt0, _ = thetas(case, hp=other)
        th0 = np.array([0.5 * v - 0.1 for v in mt0] + kt0)
        with lib("GpRegressor"):
            gp = G.GpRegressor(X.copy(), y.copy(), hyperpars=th0, **kw)
        with lib("set_hyperparameters"):
            gp.set_hyperparameters(theta.copy())
    return gp, mt, kt, ls


def query_points(X, ls):
    ls = np.array(ls)
    d = X.shape[1]
    sgn = np.array([1.0, -1.0, 1.0])[:d]
    return [
        ("data-point", X[0].copy()),
        ("between", 0.5 * (X[0] + X[1]) + 0.0625 * ls),
        ("centroid", X.mean(axis=0) + 0.15 * ls * sgn),
        ("outside", X.max(axis=0) + 0.5 * ls),
        ("far", X.min(axis=0) - 4.0 * ls),
    ]


def shape_ok(shape, full):
    return tuple(shape) == tuple(full) or tuple(shape) == tuple(s for s in full if s != 1)


def tol_ref(cond, scale):
    return (C_EPS * EPS + C_JIT) * cond * scale


# ------------------------------------------------------------------------------------------ the evaluator
def ev_config(case):
    from mc.ref import gpref_c as R

    d, n = case["d"], case["n"]
    kname = "+".join(case["kernel"])
    mname = MEANS[case["mean"]]
    dcls = "d=1" if d == 1 else "d>=2"
    X, y, yerr = build_data(case)
    gp, mt, kt, ls = make_gp(case, X, y, yerr)
    ref = R.RefGP(X.tolist(), y.tolist(), case["kernel"], kt, case["mean"], mt, None if yerr is None else yerr.tolist())
    if not ref.ok:
        return {"fails": [], "n": 0, "skipped": {"cond(G) > 1e10": 1}}
    cond = ref.cond
    W = R.richardson_weights(LEVELS)
    fails, seen, tags, slack, nev = [], {}, set(), {}, 0

    def bad(key, what, **kw):
        seen[key] = seen.get(key, 0) + 1
        if seen[key] == 1:
            fails.append(fail(key, what, **kw))

    def cmp(name, key, got, want, tol, what, **kw):
        err = abs(float(got) - float(want))
        r = err / tol if tol > 0 else (0.0 if err == 0 else float("inf"))
        if not (r <= slack.get(name, -1.0)):
            slack[name] = r if r == r else float("inf")
        if not (err <= tol):
            bad(key, f"{what}: got {float(got)!r}, expected {float(want)!r}, |diff| {err:.3e} > tol {tol:.3e}", observed=float(got), expected=float(want), tol=tol, **kw)
            return False
        return True

    queries = query_points(X, ls)
    # ---- does the kernel support derivative predictions?
    try:
        with lib("gradient", allow=(NotImplementedError,)):
            gp.gradient(queries[1][1].reshape(1, d))
        supported = True
    except NotImplementedError:
        supported = False
    nev += 1
    if not supported:
        try:
            with lib("spatial_derivatives", allow=(NotImplementedError,)):
                gp.spatial_derivatives(queries[1][1].reshape(1, d))
            bad(f"support/{kname}/gradient-raises-but-spatial_derivatives-returns", "gradient() raised NotImplementedError, spatial_derivatives() did not")
        except NotImplementedError:
            pass
        nev += 1
        tags.add(f"not-implemented:{kname},d={d}")
        return {"fails": fails, "n": nev, "tags": tags}

    singles = []
    for qname, q in queries:
        P = ref.predict(q.tolist())
        S = P["scales"]
        info = dict(query=qname, point=q.tolist())
        # ---- the real prediction at q and on the difference stencils (one batched call)
        pts = [q.tolist()]
        sten = []
        for i in range(d):
            st = R.stencil(q.tolist(), i, ls[i] / 8.0, LEVELS)
            sten.append(st)
            for xp, xm, _ in st:
                pts += [xp, xm]
        with lib("__call__"):
            mu_all, sd_all = gp(np.array(pts))
        nev += 1
        mu_all, sd_all = np.asarray(mu_all, float).reshape(-1), np.asarray(sd_all, float).reshape(-1)
        if mu_all.size != len(pts) or sd_all.size != len(pts):
            raise HarnessError("GpRegressor.__call__ returned an unexpected number of values")
        var_all = sd_all**2
        cmp("call/mean", f"call/{kname}/{mname}/mean-vs-reference", mu_all[0], P["mu"], tol_ref(cond, S["mu"]), "predictive mean", **info)
        cmp("call/var", f"call/{kname}/variance-vs-reference", var_all[0], P["var"], tol_ref(cond, S["var"]), "predictive variance", **info)
        fd_mu, fd_var, tol_mu, tol_var = [], [], [], []
        pos = 1
        for i in range(d):
            st = sten[i]
            den = [s[2] for s in st]
            vm = [(mu_all[pos + 2 * k], mu_all[pos + 2 * k + 1]) for k in range(LEVELS)]
            vv = [(var_all[pos + 2 * k], var_all[pos + 2 * k + 1]) for k in range(LEVELS)]
            pos += 2 * LEVELS
            fd_mu.append(R.richardson(vm, den))
            fd_var.append(R.richardson(vv, den))
            # truncation error of this stencil: the same stencil on the exact reference function
            rm = R.richardson([(ref.mu(xp), ref.mu(xm)) for xp, xm, _ in st], [R.M(v) for v in den])
            rv = R.richardson([(ref.var(xp), ref.var(xm)) for xp, xm, _ in st], [R.M(v) for v in den])
            tr_m, tr_v = abs(float(rm - P["dmu"][i])), abs(float(rv - P["dvar"][i]))
            amp = sum(abs(w) * 2.0 / abs(dn) for w, dn in zip(W, den))
            tol_mu.append(2 * tr_m + amp * C_EPS * EPS * cond * S["mu"] + C_EPS * EPS * abs(float(P["dmu"][i])))
            tol_var.append(2 * tr_v + amp * C_EPS * EPS * cond * S["var"] + C_EPS * EPS * abs(float(P["dvar"][i])))
            # how sharp the difference oracle is, relative to the magnitude of the terms of the derivative
            # (only where the derivative is not negligible against function scale / length-scale, i.e. not far from all data)
            if S["dmu"][i] > 1e-3 * S["mu"] / ls[i]:
                slack["info/fd-tolerance-over-term-scale/mean"] = max(slack.get("info/fd-tolerance-over-term-scale/mean", 0.0), tol_mu[-1] / S["dmu"][i])
            if S["dvar"][i] > 1e-3 * S["var"] / ls[i]:
                slack["info/fd-tolerance-over-term-scale/var"] = max(slack.get("info/fd-tolerance-over-term-scale/var", 0.0), tol_var[-1] / S["dvar"][i])

        forms = [("array(1,d)", q.reshape(1, d).copy())]
        if case.get("forms", True):
            forms.append(("array(d,)", q.copy()))
            forms.append(("list", [q.tolist()]))
        first = None
        for fname, arg in forms:
            with lib("gradient"):
                gm, gc = gp.gradient(arg)
            with lib("spatial_derivatives"):
                sm, sv = gp.spatial_derivatives(arg)
            nev += 2
            gm, gc, sm, sv = (np.asarray(a, float) for a in (gm, gc, sm, sv))
            okshape = True
            for nm, arr, full in (("gradient-mean", gm, (1, d)), ("gradcov", gc, (1, d, d)), ("spatial-mean", sm, (1, d)), ("spatial-var", sv, (1, d))):
                if not shape_ok(arr.shape, full):
                    bad(f"shape/{nm}/single/{dcls}", f"{nm} has shape {arr.shape} for one query point in {d} dimensions ({fname})", form=fname, **info)
                    okshape = False
            if not okshape:
                continue
            gm, gc, sm, sv = gm.reshape(d), gc.reshape(d, d), sm.reshape(d), sv.reshape(d)
            if first is None:
                first = (gm, gc, sm, sv)
            else:
                for nm, a, b in zip(("gradient-mean", "gradcov", "spatial-mean", "spatial-var"), (gm, gc, sm, sv), first):
                    if not np.array_equal(a, b):
                        bad(f"form/{nm}/differs-between-input-forms", f"{nm} for input form {fname} differs from array(1,d): {a.tolist()} vs {b.tolist()}", form=fname, **info)
                continue
            for i in range(d):
                kw = dict(component=i, form=fname, **info)
                cmp("gradient-mean/richardson", f"gradient-mean/richardson/{kname}/{mname}", gm[i], fd_mu[i], tol_mu[i], "gradient() mean vs derivative of the predictive mean", **kw)
                cmp("gradient-mean/reference", f"gradient-mean/reference/{kname}/{mname}", gm[i], P["dmu"][i], tol_ref(cond, S["dmu"][i]), "gradient() mean vs reference", **kw)
                cmp("spatial-mean/richardson", f"spatial-mean/richardson/{kname}/{mname}", sm[i], fd_mu[i], tol_mu[i], "spatial_derivatives() mean vs derivative of the predictive mean", **kw)
                cmp("spatial-mean/reference", f"spatial-mean/reference/{kname}/{mname}", sm[i], P["dmu"][i], tol_ref(cond, S["dmu"][i]), "spatial_derivatives() mean vs reference", **kw)
                cmp("spatial-var/richardson", f"spatial-var/richardson/{kname}", sv[i], fd_var[i], tol_var[i], "spatial_derivatives() variance vs derivative of sd**2", **kw)
                cmp("spatial-var/reference", f"spatial-var/reference/{kname}", sv[i], P["dvar"][i], tol_ref(cond, S["dvar"][i]), "spatial_derivatives() variance vs reference", **kw)
            smax = max(max(r) for r in S["gcov"])
            pmax = max(abs(float(P["prior"][i][i])) for i in range(d))
            for i in range(d):
                for j in range(d):
                    cmp("gradcov/reference", f"gradcov/reference/{kname}/{dcls}", gc[i, j], P["gcov"][i][j], tol_ref(cond, S["gcov"][i][j]),
                        f"gradient covariance [{i},{j}] vs prior - explained", i=i, j=j, **info)
                    if j > i:
                        cmp("gradcov/symmetric", f"gradcov/symmetric/{kname}/{dcls}", gc[i, j], gc[j, i], C_EPS * EPS * n * 2 * pmax,
                            f"gradient covariance [{i},{j}] vs [{j},{i}]", i=i, j=j, matrix=gc.tolist(), **info)
            sym = 0.5 * (gc + gc.T)
            lam = float(np.linalg.eigvalsh(sym).min())
            t = tol_ref(cond, smax) * d
            slack["gradcov/psd"] = max(slack.get("gradcov/psd", 0.0), max(0.0, -lam) / t)
            if lam < -t:
                bad(f"gradcov/psd/{kname}/{dcls}", f"gradient covariance has eigenvalue {lam:.3e} < -{t:.3e}", matrix=gc.tolist(), **info)
            prior = np.array([[float(v) for v in r] for r in P["prior"]])
            lam2 = float(np.linalg.eigvalsh(prior - sym).min())
            slack["gradcov/explained-psd"] = max(slack.get("gradcov/explained-psd", 0.0), max(0.0, -lam2) / t)
            if lam2 < -t:
                bad(f"gradcov/explained-part-psd/{kname}/{dcls}", f"prior - reported gradient covariance has eigenvalue {lam2:.3e} < -{t:.3e}: the data would add uncertainty",
                    matrix=gc.tolist(), prior=prior.tolist(), **info)
        if first is not None:
            singles.append((qname, q, first, S))
        tags.add(f"k={kname},d={d},n={n},mean={case['mean']},noise={case['noise']},hp={case['hp']},q={qname}")

    # ---- batched queries: all five points, and a pair; as array and as list of lists
    if len(singles) == len(queries):
        for sel in ([0, 1, 2, 3, 4], [3, 1]):
            Q = np.array([singles[s][1] for s in sel])
            m = len(sel)
            for fname, arg in (("array(m,d)", Q.copy()), ("list-of-lists", Q.tolist())):
                if d == 1 and fname == "list-of-lists":
                    arg = Q.reshape(-1).copy()  # 1-D input form for 1-D problems
                    fname = "array(m,)"
                with lib("gradient-batched"):
                    gm, gc = gp.gradient(arg)
                with lib("spatial_derivatives-batched"):
                    sm, sv = gp.spatial_derivatives(arg)
                nev += 2
                gm, gc, sm, sv = (np.asarray(a, float) for a in (gm, gc, sm, sv))
                ok = True
                for nm, arr, full in (("gradient-mean", gm, (m, d)), ("gradcov", gc, (m, d, d)), ("spatial-mean", sm, (m, d)), ("spatial-var", sv, (m, d))):
                    if not shape_ok(arr.shape, full):
                        bad(f"shape/{nm}/batched/{dcls}", f"{nm} has shape {arr.shape} for {m} query points in {d} dimensions ({fname})", form=fname, m=m)
                        ok = False
                if not ok:
                    continue
                gm, gc, sm, sv = gm.reshape(m, d), gc.reshape(m, d, d), sm.reshape(m, d), sv.reshape(m, d)
                for r, s in enumerate(sel):
                    qname, q, (g1, c1, s1, v1), S = singles[s]
                    for nm, a, b, sc in (
                        ("gradient-mean", gm[r], g1, max(S["dmu"])),
                        ("gradcov", gc[r], c1, max(max(x) for x in S["gcov"])),
                        ("spatial-mean", sm[r], s1, max(S["dmu"])),
                        ("spatial-var", sv[r], v1, max(S["dvar"])),
                    ):
                        err = float(np.max(np.abs(a - b)))
                        t = C_EPS * EPS * cond * sc
                        slack["batch/row-vs-single"] = max(slack.get("batch/row-vs-single", 0.0), err / t if t > 0 else 0.0)
                        if err > t:
                            bad(f"batch/{nm}/row-differs-from-single", f"row {r} of a batched query ({fname}, m={m}) differs from the single query at {q.tolist()}: {a.tolist()} vs {b.tolist()}",
                                form=fname, m=m, query=qname)
                tags.add(f"batched m={m},d={d},{fname}")
    for k, c in seen.items():
        for f in fails:
            if f["key"] == k:
                f["occurrences_in_case"] = c
    return {
        "fails": fails[:30],
        "n": nev,
        "tags": tags,
        "slack": slack,
        "sample": {"case": case, "cond": cond, "query": queries[2][1].tolist()},
    }


def ev_selftest(case):
    """The reference module against itself: analytic kernel derivatives vs mpmath numerical differentiation."""
    from mc.ref import gpref_c as R

    w = R.selftest_kernel_derivatives()
    if not w < 1e-30:
        raise HarnessError(f"reference kernel derivatives disagree with mp.diff: {w}")
    ws = R.richardson_weights(LEVELS)
    if abs(sum(ws) - 1.0) > 1e-14:
        raise HarnessError("Richardson weights do not sum to one")
    return {"fails": [], "n": 0, "tags": {"reference-selftest"}, "slack": {"selftest/kernel-derivatives": w / 1e-30}}


# ------------------------------------------------------------------------------------------ call histories on ONE regressor
# The statement is about "any fitted regressor": whatever has been asked of it before, and however its current
# hyper-parameters were reached.  A history is a sequence of calls on one GpRegressor built with theta_0:
#   ["G", q] gradient(Q[q])   ["S", q] spatial_derivatives(Q[q])   ["C", q] __call__(Q[q])   ["H", k] set_hyperparameters(theta_k)
#   ["M", k] marginal_likelihood(theta_k) and marginal_likelihood_gradient(theta_k)  (must not touch the fitted state)
# After every query the result must be the one a FRESH regressor (same data, current hyper-parameters, new kernel and mean
# objects, nothing else ever called on it) returns for the same query; each fresh result comes from its own new regressor.
# The fresh regressor is what ev_config compares with the derivative of the prediction and the mpmath reference.
HOPS = {"G": "gradient", "S": "spatial_derivatives", "C": "__call__", "H": "set_hyperparameters", "M": "marginal_likelihood(+gradient)"}
HOUT = {"G": ("mean", "covariance"), "S": ("mean-gradient", "variance-gradient"), "C": ("mean", "variance")}
MEAN_MULT = (1.0, 0.5, -1.25)  # the mean-function parameters differ between theta_0, theta_1, theta_2 as well


def hist_thetas(case):
    out = []
    for k, hp in enumerate(case["hps"]):
        mt, kt, ls = thetas(case, hp=hp)
        out.append(([v * MEAN_MULT[k % 3] for v in mt], kt, ls))
    return out


def hist_queries(X, ls):
    pts = dict(query_points(X, ls))
    d = X.shape[1]
    return [
        ("between, array(1,d)", [pts["between"]], np.array(pts["between"]).reshape(1, d)),
        ("data-point, array(d,)", [pts["data-point"]], np.array(pts["data-point"]).reshape(d)),
        ("[outside, between], array(2,d)", [pts["outside"], pts["between"]], np.array([pts["outside"], pts["between"]])),
    ]


def hist_new_gp(case, X, y, yerr, theta):
    import inference.gp as G

    kw = dict(kernel=make_kernel(case["kernel"]), mean=getattr(G, MEANS[case["mean"]])())
    if yerr is not None:
        kw["y_err"] = yerr.copy()
    with lib("GpRegressor"):
        return G.GpRegressor(X.copy(), y.copy(), hyperpars=theta.copy(), **kw)


def hist_call(gp, op, Q, TH):
    """one call of the history on a regressor; returns a tuple of float arrays, 'NotImplementedError', or None"""
    kd = op[0]
    if kd == "H":
        with lib("set_hyperparameters"):
            gp.set_hyperparameters(TH[op[1]].copy())
        return None
    if kd == "M":
        with lib("marginal_likelihood"):
            gp.marginal_likelihood(TH[op[1]].copy())
        with lib("marginal_likelihood_gradient"):
            gp.marginal_likelihood_gradient(TH[op[1]].copy())
        return None
    arg = Q[op[1]][2].copy()
    try:
        if kd == "G":
            with lib("gradient", allow=(NotImplementedError,)):
                r = gp.gradient(arg)
        elif kd == "S":
            with lib("spatial_derivatives", allow=(NotImplementedError,)):
                r = gp.spatial_derivatives(arg)
        else:
            with lib("__call__"):
                r = gp(arg)
    except NotImplementedError:
        return "NotImplementedError"
    return tuple(np.asarray(a, float) for a in r)


def hist_text(ops, Q):
    out = []
    for op in ops:
        out.append(f"{HOPS[op[0]]}(theta_{op[1]})" if op[0] in ("H", "M") else f"{HOPS[op[0]]}({Q[op[1]][0]})")
    return out


def hist_alphabet(case):
    nq, nk = 3, len(case["hps"])
    ops = [[kd, q] for kd in ("G", "S", "C") for q in range(nq)] + [["H", k] for k in range(nk)]
    if case.get("distractors"):
        ops += [["M", k] for k in range(nk)]
    return ops


def ev_history(case):
    """every history that extends case['prefix'] up to case['depth'] calls (depth == len(prefix): that one history)"""
    from mc.ref import gpref_c as R

    d, n = case["d"], case["n"]
    kname = "+".join(case["kernel"])
    X, y, yerr = build_data(case)
    TH3 = hist_thetas(case)
    TH = [np.array(mt + kt) for mt, kt, _ in TH3]
    Q = hist_queries(X, TH3[0][2])
    refs = [R.RefGP(X.tolist(), y.tolist(), case["kernel"], kt, case["mean"], mt, None if yerr is None else yerr.tolist()) for mt, kt, _ in TH3]
    if not all(r.ok for r in refs):
        return {"fails": [], "n": 0, "skipped": {"history: cond(G) > 1e10 for one of the hyper-parameter vectors": 1}}
    fails, seen, tags, slack = [], {}, set(), {}
    nev = [0]
    fresh, scales = {}, {}

    def scale(k, q):
        """per output and per query row, the magnitudes that scale rounding errors (from the reference, as in ev_config)"""
        if (k, q) not in scales:
            rows = [refs[k].predict([float(v) for v in p])["scales"] for p in Q[q][1]]
            scales[(k, q)] = {
                ("C", 0): np.array([S["mu"] for S in rows]),
                ("C", 1): np.array([S["var"] for S in rows]),
                ("G", 0): np.array([S["dmu"] for S in rows]),
                ("G", 1): np.array([S["gcov"] for S in rows]),
                ("S", 0): np.array([S["dmu"] for S in rows]),
                ("S", 1): np.array([S["dvar"] for S in rows]),
            }
        return scales[(k, q)]

    def fresh_result(k, kd, q):
        if (k, kd, q) not in fresh:
            gp = hist_new_gp(case, X, y, yerr, TH[k])
            fresh[(k, kd, q)] = hist_call(gp, [kd, q], Q, TH)
            nev[0] += 2
        return fresh[(k, kd, q)]

    def bad(key, what, ops):
        seen[key] = seen.get(key, 0) + 1
        if seen[key] == 1:
            fails.append(fail(key, what, history=hist_text(ops, Q), ops=ops, hyperparameters=[t.tolist() for t in TH],
                              reproduce=dict(case, prefix=ops, depth=len(ops))))

    def compare(ops, t, cur, changed, got, audit=False):
        kd, q = ops[t][0], ops[t][1]
        want = fresh_result(cur, kd, q)
        cls = "after-hyperparameter-change" if changed else "hyperparameters-never-changed"
        where = f"after [{'; '.join(hist_text(ops[:t], Q))}] with current hyper-parameters theta_{cur}: {'(final audit) ' if audit else ''}{HOPS[kd]}({Q[q][0]})"
        if isinstance(got, str) or isinstance(want, str):
            if got is not want and got != want:
                bad(f"history/{kname}/{HOPS[kd]}/support/{cls}", f"{where} gave {got if isinstance(got, str) else 'a result'}, a fresh regressor {want if isinstance(want, str) else 'a result'}", ops[: t + 1])
                return False
            return True
        ok = True
        m = len(Q[q][1])
        for o, (g, w) in enumerate(zip(got, want)):
            oname = HOUT[kd][o]
            if g.shape != w.shape:
                bad(f"history/{kname}/{HOPS[kd]}/{oname}-shape/{cls}", f"{where}: shape {g.shape}, a fresh regressor returns {w.shape}", ops[: t + 1])
                ok = False
                continue
            sc = scale(cur, q)[(kd, o)]
            if kd == "C" and o == 1:
                g, w = g**2, w**2  # the standard deviation is compared as a variance (its rounding error scales with the variance terms)
            try:
                g2, w2 = g.reshape((m,) + sc.shape[1:]), w.reshape((m,) + sc.shape[1:])
            except ValueError:
                g2, w2, sc = g.reshape(-1), w.reshape(-1), float(sc.max())
            tol = C_EPS * EPS * refs[cur].cond * sc
            err = np.abs(g2 - w2)
            r = float(np.max(err / tol)) if np.all(np.asarray(tol) > 0) else (0.0 if float(err.max()) == 0 else float("inf"))
            r = r if r == r else float("inf")
            nm = f"history/{HOPS[kd]}/{oname}-vs-fresh"
            slack[nm] = max(slack.get(nm, 0.0), r)
            if not r <= 1.0:
                bad(f"history/{kname}/{HOPS[kd]}/{oname}-differs-from-fresh-regressor/{cls}",
                    f"{where}: {oname} {g.tolist()} but a fresh regressor with theta_{cur} gives {w.tolist()} (max |diff|/tol {r:.3e})", ops[: t + 1])
                ok = False
        return ok

    def run_history(ops):
        gp = hist_new_gp(case, X, y, yerr, TH[0])
        cur, changed, asked = 0, False, set()
        nontrivial = False
        for t, op in enumerate(ops):
            got = hist_call(gp, op, Q, TH)
            nev[0] += 1
            if op[0] == "H":
                changed = changed or op[1] != cur
                cur = op[1]
                continue
            if op[0] == "M":
                continue
            nontrivial = nontrivial or changed or (op[1] in asked) or any(o[0] == "M" for o in ops[:t])
            asked.add(op[1])
            if not compare(ops, t, cur, changed, got):
                return False
        # final audit: the three predictions at the first query, whatever the last call was
        for kd in ("G", "S", "C"):
            aops = ops + [[kd, 0]]
            got = hist_call(gp, aops[-1], Q, TH)
            nev[0] += 1
            if not compare(aops, len(ops), cur, changed, got, audit=True):
                return False
        if nontrivial or changed:
            tags.add("history:" + ">".join(op[0] + (str(op[1]) if op[0] in "HM" else "") for op in ops))
        return True

    alphabet = hist_alphabet(case)
    count = [0]

    # breadth first, so that the first counterexample of a block is a shortest one; a failing history is not extended
    frontier = [[list(op) for op in case["prefix"]]]
    while frontier:
        nxt = []
        for ops in frontier:
            count[0] += 1
            if run_history(ops) and len(ops) < case["depth"]:
                nxt += [ops + [op] for op in alphabet]
        frontier = nxt
    for f in fails:
        f["occurrences_in_case"] = seen[f["key"]]
    tags.add(f"history-config:k={kname},d={d},n={n},mean={case['mean']},noise={case['noise']},hps={'/'.join(case['hps'])}")
    return {
        "fails": fails[:30],
        "n": nev[0],
        "tags": tags,
        "slack": slack,
        "sample": {"case": case, "histories": count[0], "cond": [r.cond for r in refs]},
    }


# ------------------------------------------------------------------------------------------ histories with re-used caller arrays
# The caller keeps ONE query array B and ONE hyper-parameter array T and re-uses them: between calls it overwrites their
# contents in place and passes the same objects again.  Ops:
#   ["G"] gradient(B)  ["S"] spatial_derivatives(B)  ["C"] __call__(B)        (B itself is passed, not a copy)
#   ["Q", j] the contents of B become query set j, in place (j=0: B[...] = c; j=1: B += c - B; j=2: B *= 0, B += c)
#   ["H", k] T[...] = theta_k in place, then set_hyperparameters(T)            (T is also the array given to the constructor)
# After every query the result must equal that of a FRESH regressor (current contents of T, copied) for a COPY of the current
# contents of B, and the calls must leave B and T as they were.
IFORMS = ["(1,d)", "(2,d)", "(d,)"]


def inplace_contents(X, ls, form):
    pts = dict(query_points(X, ls))
    d = X.shape[1]
    if form == "(2,d)":
        sets = [[pts["outside"], pts["between"]], [pts["between"], pts["centroid"]], [pts["data-point"], pts["far"]]]
        return [np.array(s, dtype=float).reshape(2, d) for s in sets]
    shape = (1, d) if form == "(1,d)" else (d,)
    return [np.array(pts[nm], dtype=float).reshape(shape) for nm in ("between", "outside", "centroid")]


# ["T", k]: T[...] = theta_k in place WITHOUT telling the regressor (the caller re-uses its array for something else): a fitted
# regressor must go on predicting with the vector it was given.  The pinned tree keeps the caller's array by reference
# (GpRegressor.set_hyperparameters: self.hyperpars = hyperpars), so its predictions then mix the new vector (kernel between
# query and data, mean function) with the old one (alpha, L) - e.g. negative gradient variances.  Repair:
# proposed_fixes/C16_hyperparameters-copied.patch.  The op is enumerated only when this switch is on (to be switched on
# with the fix: commit; until then the limitation is listed among the assumptions).
BEHIND_BACK = True


def inplace_alphabet(behind_back=False):
    return [["G"], ["S"], ["C"]] + [["Q", j] for j in range(3)] + [["H", k] for k in range(3)] + ([["T", k] for k in range(3)] if behind_back else [])


def ev_inplace(case):
    """every history that extends case['prefix'] up to case['depth'] ops, for one data set / kernel / mean / query-array form"""
    from mc.ref import gpref_c as R

    d, n, form = case["d"], case["n"], case["form"]
    kname = "+".join(case["kernel"])
    X, y, yerr = build_data(case)
    TH3 = hist_thetas(case)
    TH = [np.array(mt + kt) for mt, kt, _ in TH3]
    CONT = inplace_contents(X, TH3[0][2], form)
    refs = [R.RefGP(X.tolist(), y.tolist(), case["kernel"], kt, case["mean"], mt, None if yerr is None else yerr.tolist()) for mt, kt, _ in TH3]
    if not all(r.ok for r in refs):
        return {"fails": [], "n": 0, "skipped": {"in-place history: cond(G) > 1e10 for one of the hyper-parameter vectors": 1}}
    fails, seen, tags, slack = [], {}, set(), {}
    nev = [0]
    fresh, scales = {}, {}

    def text(ops):
        nm = {"G": "gradient(B)", "S": "spatial_derivatives(B)", "C": "__call__(B)"}
        return [nm[o[0]] if o[0] in nm else (f"B <- query set {o[1]} in place" if o[0] == "Q" else (f"T <- theta_{o[1]} in place; set_hyperparameters(T)" if o[0] == "H" else f"T <- theta_{o[1]} in place (regressor not told)")) for o in ops]

    def bad(key, what, ops):
        seen[key] = seen.get(key, 0) + 1
        if seen[key] == 1:
            fails.append(fail(key, what, history=text(ops), ops=ops, form=form, hyperparameters=[t.tolist() for t in TH], reproduce=dict(case, prefix=ops, depth=len(ops))))

    def call(gp, kd, arg):
        try:
            if kd == "G":
                with lib("gradient", allow=(NotImplementedError,)):
                    r = gp.gradient(arg)
            elif kd == "S":
                with lib("spatial_derivatives", allow=(NotImplementedError,)):
                    r = gp.spatial_derivatives(arg)
            else:
                with lib("__call__"):
                    r = gp(arg)
        except NotImplementedError:
            return "NotImplementedError"
        return tuple(np.asarray(a, float) for a in r)

    def fresh_result(k, kd, Bc):
        key = (k, kd, Bc.tobytes())
        if key not in fresh:
            gp = hist_new_gp(case, X, y, yerr, TH[k])
            fresh[key] = call(gp, kd, Bc.copy())
            nev[0] += 2
        return fresh[key]

    def scale(k, Bc):
        key = (k, Bc.tobytes())
        if key not in scales:
            rows = [refs[k].predict([float(v) for v in p])["scales"] for p in Bc.reshape(-1, d)]
            scales[key] = {
                ("C", 0): np.array([S["mu"] for S in rows]),
                ("C", 1): np.array([S["var"] for S in rows]),
                ("G", 0): np.array([S["dmu"] for S in rows]),
                ("G", 1): np.array([S["gcov"] for S in rows]),
                ("S", 0): np.array([S["dmu"] for S in rows]),
                ("S", 1): np.array([S["dvar"] for S in rows]),
            }
        return scales[key]

    def compare(ops, kd, cur, cls, got, Bc, audit=False):
        want = fresh_result(cur, kd, Bc)
        where = f"after [{'; '.join(text(ops))}] (theta_{cur}, B = {Bc.tolist()}): {'(final audit) ' if audit else ''}{HOPS[kd]}(B)"
        if isinstance(got, str) or isinstance(want, str):
            if got != want if isinstance(got, str) and isinstance(want, str) else True:
                bad(f"inplace/{kname}/{HOPS[kd]}/support/{cls}", f"{where} gave {got if isinstance(got, str) else 'a result'}, a fresh regressor {want if isinstance(want, str) else 'a result'}", ops)
                return False
            return True
        ok = True
        m = Bc.reshape(-1, d).shape[0]
        for o, (g, w) in enumerate(zip(got, want)):
            oname = HOUT[kd][o]
            if g.shape != w.shape:
                bad(f"inplace/{kname}/{HOPS[kd]}/{oname}-shape/{cls}", f"{where}: shape {g.shape}, a fresh regressor returns {w.shape}", ops)
                ok = False
                continue
            sc = scale(cur, Bc)[(kd, o)]
            if kd == "C" and o == 1:
                g, w = g**2, w**2
            try:
                g2, w2 = g.reshape((m,) + sc.shape[1:]), w.reshape((m,) + sc.shape[1:])
            except ValueError:
                g2, w2, sc = g.reshape(-1), w.reshape(-1), float(sc.max())
            tol = C_EPS * EPS * refs[cur].cond * sc
            err = np.abs(g2 - w2)
            r = float(np.max(err / tol)) if np.all(np.asarray(tol) > 0) else (0.0 if float(err.max()) == 0 else float("inf"))
            r = r if r == r else float("inf")
            nm = f"inplace/{HOPS[kd]}/{oname}-vs-fresh"
            slack[nm] = max(slack.get(nm, 0.0), r)
            if not r <= 1.0:
                bad(f"inplace/{kname}/{HOPS[kd]}/{oname}-differs-from-fresh-regressor/{cls}",
                    f"{where}: {oname} {g.tolist()} but a fresh regressor gives {w.tolist()} for a copy of B (max |diff|/tol {r:.3e})", ops)
                ok = False
        return ok

    def run_history(ops):
        T = TH[0].copy()
        B = CONT[0].copy()
        gp = hist_new_gp_noncopy(case, X, y, yerr, T)
        cur = 0
        asked = False  # has B been passed to the regressor with other contents before?
        b_mod, t_mod, t_back = False, False, False
        nontrivial = False

        def query(kd, hist, audit=False):
            Bc, Tc = B.copy(), T.copy()
            got = call(gp, kd, B)
            nev[0] += 1
            okk = True
            if not np.array_equal(B, Bc):
                bad(f"inplace/{kname}/{HOPS[kd]}/query-array-changed-by-the-call", f"after [{'; '.join(text(hist))}]: B was {Bc.tolist()}, is {B.tolist()}", hist)
                B[...] = Bc
                okk = False
            if not np.array_equal(T, Tc):
                bad(f"inplace/{kname}/{HOPS[kd]}/hyperparameter-array-changed-by-the-call", f"after [{'; '.join(text(hist))}]: T was {Tc.tolist()}, is {T.tolist()}", hist)
                T[...] = Tc
                okk = False
            cls = "+".join(c for c, f in (("query-array-rewritten-in-place", b_mod), ("hyperparameter-array-rewritten-in-place", t_mod),
                                          ("hyperparameter-array-overwritten-without-set_hyperparameters", t_back)) if f) or "arrays-not-rewritten"
            return compare(hist, kd, cur, cls, got, Bc, audit) and okk

        for t, op in enumerate(ops):
            if op[0] == "Q":
                c = CONT[op[1]]
                if op[1] == 0:
                    B[...] = c
                elif op[1] == 1:
                    B += c - B
                else:
                    B *= 0.0
                    B += c
                b_mod = b_mod or asked
                continue
            if op[0] == "T":
                t_back = t_back or not np.array_equal(T, TH[op[1]])
                T[...] = TH[op[1]]
                continue
            if op[0] == "H":
                T[...] = TH[op[1]]
                t_back = False
                Tc = T.copy()
                with lib("set_hyperparameters"):
                    gp.set_hyperparameters(T)
                nev[0] += 1
                if not np.array_equal(T, Tc):
                    bad(f"inplace/{kname}/set_hyperparameters/hyperparameter-array-changed-by-the-call", f"after [{'; '.join(text(ops[:t+1]))}]: T was {Tc.tolist()}, is {T.tolist()}", ops[: t + 1])
                    T[...] = Tc
                cur = op[1]
                t_mod = True
                continue
            nontrivial = nontrivial or b_mod or t_mod or t_back
            if not query(op[0], ops[: t + 1]):
                return False
            asked = True
        for kd in ("G", "S", "C"):
            if not query(kd, ops + [[kd]], audit=True):
                return False
            asked = True
        if b_mod or t_mod or t_back:
            tags.add(f"inplace:{form}:" + ">".join(op[0] + (str(op[1]) if len(op) > 1 else "") for op in ops))
        return True

    alphabet = inplace_alphabet(case.get("behind_back", False))
    count = 0
    frontier = [[list(op) for op in case["prefix"]]]
    while frontier:
        nxt = []
        for ops in frontier:
            count += 1
            if run_history(ops) and len(ops) < case["depth"]:
                nxt += [ops + [op] for op in alphabet]
        frontier = nxt
    for f in fails:
        f["occurrences_in_case"] = seen[f["key"]]
    tags.add(f"inplace-config:k={kname},d={d},n={n},mean={case['mean']},noise={case['noise']},form={form}")
    return {"fails": fails[:30], "n": nev[0], "tags": tags, "slack": slack, "sample": {"case": case, "histories": count, "cond": [r.cond for r in refs]}}


def hist_new_gp_noncopy(case, X, y, yerr, T):
    """a regressor whose hyper-parameter argument is the caller's own array T (which the caller goes on re-using)"""
    import inference.gp as G

    kw = dict(kernel=make_kernel(case["kernel"]), mean=getattr(G, MEANS[case["mean"]])())
    if yerr is not None:
        kw["y_err"] = yerr.copy()
    with lib("GpRegressor"):
        return G.GpRegressor(X.copy(), y.copy(), hyperpars=T, **kw)


EVALUATORS = {"config": ev_config, "selftest": ev_selftest, "history": ev_history, "inplace": ev_inplace}


def run(ck):
    # import the heavy modules before the worker pool is forked
    import inference.gp  # noqa: F401
    import inference.gp.acquisition  # noqa: F401
    import mc.ref.gpref_c  # noqa: F401

    seed, quick = ck.seed, ck.quick
    ck.run_cases("selftest", [{}], parallel=False)
    scales = [(1.0, 1.0), [(1e-3, 1e4), (1e3, 1e-2)][seed % 2]] if quick else [(1.0, 1.0), (1e-3, 1e4), (1e3, 1e-2)]
    designs = [seed % 3] if quick else [0, 1, 2]
    vias = ["ctor"] if quick else ["ctor", "set"]
    ns = [3, 6]
    cases = []
    # simplest first: d, n, constant mean, unit hyper-parameters, no noise
    for d, n, mean, hp, noise, (xs, ys), g, via in itertools.product(
        [1, 2, 3], ns, ["C", "L", "Q"], ["unit", "aniso", "short", "long"], ["uniform", "none", "mixed"], scales, designs, vias
    ):
        cases.append({"d": d, "n": n, "design": g, "mean": mean, "kernel": ["SE"], "hp": hp, "noise": noise, "xs": xs, "ys": ys, "via": via, "shift": seed % 4})
    if quick:
        # the set_hyperparameters route (cached alpha, L refreshed) on a slice of the lattice
        for d, mean, hp in itertools.product([1, 2, 3], ["C", "L", "Q"], ["aniso", "short"]):
            cases.append({"d": d, "n": 6, "design": (seed + 1) % 3, "mean": mean, "kernel": ["SE"], "hp": hp, "noise": "uniform", "xs": 1.0, "ys": 1.0, "via": "set", "shift": seed % 4})
    else:
        for d, mean, hp, noise, g in itertools.product([1, 2], ["C", "L", "Q"], ["unit", "aniso", "short"], ["uniform", "mixed"], [0, 1, 2]):
            cases.append({"d": d, "n": 10, "design": g, "mean": mean, "kernel": ["SE"], "hp": hp, "noise": noise, "xs": 1.0, "ys": 1.0, "via": "ctor", "shift": seed % 4})
    # kernels without gradient_terms: NotImplementedError accepted, a returned value must be right
    for kern, d, mean in itertools.product([["RQ"], ["SE", "WN"]], [1, 2], ["C", "L"]):
        cases.append({"d": d, "n": 6, "design": seed % 3, "mean": mean, "kernel": kern, "hp": "aniso", "noise": "uniform", "xs": 1.0, "ys": 1.0, "via": "ctor", "shift": 0})
    # composite kernels (sums with several signal components, each with its own amplitude / length-scales; change-point of two SE):
    # may decline, but a returned value must be the derivative of the prediction = sum of the component derivative kernels
    chp = ["aniso", "unit", "short"]
    for ki, kern in enumerate(COMPOSITES):
        for d, mean in itertools.product([1, 2] if quick else [1, 2, 3], ["C", "L"] if quick else ["C", "L", "Q"]):
            for hp in ([chp[(seed + ki + d) % 3]] if quick else chp):
                cases.append({"d": d, "n": 6, "design": (seed + ki) % 3, "mean": mean, "kernel": kern, "hp": hp, "noise": ["uniform", "mixed"][(ki + d) % 2],
                              "xs": 1.0, "ys": 1.0, "via": "ctor", "shift": 0, "forms": False})
    ck.run_cases("config", cases, chunk=2)
    # ---- call histories on one regressor: every sequence of <= depth calls, compared with fresh regressors after every call
    H4 = ["unit", "aniso", "short", "long"]
    depth, plen = (3, 1) if quick else (4, 2)
    hconf = []
    for i, (d, mean) in enumerate(itertools.product([1, 2, 3], ["C", "L", "Q"])):
        noise = ["uniform", "mixed", "none"][(i + d + seed) % 3]
        menu = H4 if noise != "none" else H4[:3]  # without noise the long length-scales give cond(G) > 1e10 (would be skipped)
        hps = [menu[(seed + i + j) % len(menu)] for j in range(3)]
        for xs, ys in ([(1.0, 1.0)] if quick else [(1.0, 1.0), (1e-3, 1e4)]):
            hconf.append({"d": d, "n": 6 if (i + seed) % 3 else 3, "design": (seed + i) % 3, "mean": mean, "kernel": ["SE"], "noise": noise, "xs": xs, "ys": ys,
                          "shift": seed % 4, "hps": hps, "distractors": not quick})
    for kern, d, mean in itertools.product([["RQ"], ["SE", "WN"]], [1, 2], ["C", "L"]):
        # kernels that decline derivative predictions: the history must decline exactly when a fresh regressor does
        hconf.append({"d": d, "n": 6, "design": seed % 3, "mean": mean, "kernel": kern, "noise": "uniform", "xs": 1.0, "ys": 1.0, "shift": 0,
                      "hps": [H4[(seed + j) % 3] for j in range(3)], "distractors": not quick, "depth_cap": 3})
    hcases = []
    for l in range(plen + 1):  # short histories first, so that the first counterexample is the shortest
        for c in hconf:
            dp = min(depth, c.get("depth_cap", depth))
            for pre in itertools.product(hist_alphabet(c), repeat=l):
                hcases.append(dict(c, prefix=[list(o) for o in pre], depth=l if l < plen else dp))
    ck.run_cases("history", hcases, chunk=1)
    # ---- histories in which the caller re-uses (overwrites in place) its query array and its hyper-parameter array
    iconf = []
    for i, (d, form) in enumerate(itertools.product([1, 2, 3], IFORMS)):
        for mean in (["C", "L", "Q"][(i + seed) % 3],) if quick else ("C", "L", "Q"):
            noise = ["uniform", "mixed"][(i + seed) % 2]
            iconf.append({"d": d, "n": 6 if (i + seed) % 2 else 3, "design": (seed + i) % 3, "mean": mean, "kernel": ["SE"], "noise": noise, "xs": 1.0, "ys": 1.0,
                          "shift": seed % 4, "hps": [H4[(seed + i + j) % 4] for j in range(3)], "form": form})
    icases = []
    for l in range(plen + 1):
        for c in iconf:
            for pre in itertools.product(inplace_alphabet(BEHIND_BACK), repeat=l):
                icases.append(dict(c, prefix=[list(o) for o in pre], depth=l if l < plen else depth, behind_back=BEHIND_BACK))
    ck.run_cases("inplace", icases, chunk=2)
    ck.rule = (
        "cartesian product d{1,2,3} x n{3,6[,10]} x design x mean{Constant,Linear,Quadratic} x hyper-parameter pattern{unit,aniso,short,long} x "
        "noise{none,uniform y_err,mixed y_err 1e-3..1} x (x,y) scale x route{constructor,set_hyperparameters}; 5 query points each (data point, between, "
        "centroid, outside hull, far), single (3 input forms) and batched (m=5, m=2; 2 input forms). A tag is one (kernel,d,n,mean,noise,pattern,query class) "
        "actually compared against both oracles, or a batched layout, or a kernel that declines with NotImplementedError. Call histories: for "
        "d{1,2,3} x mean{C,L,Q} (+ the declining kernels) every sequence of <= depth calls (quick 3, thorough 4) on ONE regressor over {gradient(q), "
        "spatial_derivatives(q), __call__(q) for 3 queries (single (1,d), single (d,), batch of 2 sharing a point), set_hyperparameters(theta_k) for 3 "
        "hyper-parameter vectors incl. different mean parameters [, marginal_likelihood(+gradient)(theta_k) in thorough]}; after every query, and for "
        "all three predictions after the last call, the result must equal that of a fresh regressor (same data, current hyper-parameters) within "
        "64*eps*cond*scale (observed: bit-identical). A history is counted by its call sequence if a query follows a hyper-parameter change, a repeated "
        "query or a likelihood evaluation. Re-used caller arrays: for d{1,2,3} x query-array form{(1,d),(2,d),(d,)} every sequence of <= depth ops over {gradient(B), "
        "spatial_derivatives(B), __call__(B), overwrite B in place with query set 0/1/2 (assignment, +=, *=0 then +=), overwrite T in place with theta_0/1/2 and "
        "set_hyperparameters(T)} on ONE regressor, ONE query array B and ONE hyper-parameter array T (also the constructor argument): every result must equal that of "
        "a fresh regressor for copies of the current contents, and B, T must be left unchanged by the calls. Composite kernels {SE+SE, SE+SE+WN, RQ+SE, SE+RQ, "
        "ChangePoint(SE,SE), ChangePoint+WN} (each signal component with its own amplitude / length-scales) x d x mean x pattern are in the derivative lattice: "
        "NotImplementedError is accepted, a returned value must pass every oracle against the reference (sum of the component derivative kernels)."
    )
    ck.assume("continuous inputs are represented by the listed finite lattice (d<=3, n<=10, scales 1e-3..1e3 in x, 1e-2..1e4 in y); data covariances with cond > 1e10 are skipped and counted")
    ck.assume("the library's relative 1e-12 diagonal regularisation of the data covariance is allowed for in the reference tolerance (2e-12*cond*scale); the Richardson oracle on the real __call__ is unaffected by it")
    ck.assume("re-used caller arrays: a hyper-parameter array that was overwritten is always passed to set_hyperparameters again before the next query "
              "(NOT asserted while BEHIND_BACK is off: that a regressor keeps its fitted state when the caller overwrites the array it passed WITHOUT calling "
              "set_hyperparameters again - the pinned tree keeps that array by reference and then reports inconsistent predictions, e.g. negative gradient variances; "
              "see proposed_fixes/C16_hyperparameters-copied.patch)")
    ck.assume("call histories (first family): copies of the arrays are passed; histories are bounded by the stated depth, three "
              "hyper-parameter vectors and three queries per configuration; the fresh regressor each result is compared with is the object ev_config validates")
    ck.assume("only SquaredExponential implements gradient_terms; RationalQuadratic, ChangePoint and composite kernels decline with NotImplementedError, which the statement permits (if they return, the result is checked)")
