"""C12 – GaussianKDE is a faithful, normalised Gaussian kernel-density estimate.

Engine D.  Enumerated: every multiset of size 3..5 over a 4-letter value alphabet (>= 2 distinct values) and
deterministic quantile samples (normal, t2 heavy tails, bimodal, two with exact ties; n = 50, 1000 quick / 50, 400, 2000, 5000 thorough)
x bandwidth mode {user 0.1/0.5/1/10 x sd, rule of thumb, cross-validated, cross-validated on a scripted sub-sample}
x affine map a in {2^-20, 1, 2^10}, b in {0, 1e6 a}.  Every estimator is evaluated at every dyadic subdivision point
of the data range +-1 ulp (the look-up tree edges are among them; the tree's own edges are added when exposed),
every sample value, a fine grid reaching 10 h beyond the data, and +-1000 h outside.

Oracle: the exact (untruncated) Gaussian kernel sum with the estimator's bandwidth, in numpy (validated against mpmath
at 50 digits on the small samples).  No random draws: `numpy.random.random` used by the sub-sampling branch of the
cross-validation is replaced through the module global `inference.pdf.kde.random` by scripted sequences.

history: ONE estimator and ONE evaluation-array object that the caller re-uses: every sequence block (modification, block)^d,
block in {pdf, cdf, pdf+cdf, cdf+pdf}, modification applied IN PLACE to the caller's array (shift, scale, reverse, sort, refill,
constant fill, free + re-allocate, none); after every call the result must equal bit-for-bit what a new estimator returns for
a new copy of the current contents, lie within the conventions of the exact kernel sum, and the caller's array must be unchanged.
"""
import itertools
import math

import numpy as np

from mc.core import HarnessError, LibFailure, fail, lib
from mc.ref import kde_ref as R

LEVEL = "exploration"

EPS = float(np.finfo(float).eps)

# ---- stated conventions for the approximate clauses (DESIGN.md C12) -------------------------------------------------
TOL_PDF_H = 1e-3  # |pdf - exact| <= 1e-3 / h
TOL_CDF = 5e-4  # |cdf - exact| <= 5e-4
TOL_INT = 1e-3  # |cdf(x) - cdf(x0) - int_x0^x pdf| <= 1e-3  (two cdf errors + dropped mass)
# For orientation: an estimator that drops every kernel further than 3.5 h away can be wrong by at most
# R.dropped_pdf_bound(3.5) = 8.7e-4 / h in the density and R.dropped_cdf_bound(3.5) = 2.3e-4 in the cdf, and
# 2*2.3e-4 + 2*2.3e-4 = 9.3e-4 in (cdf difference - integral of its own density): the conventions sit just above that.

ALPHABET0 = [0.0, 1.0, 2.0, 5.0]
EXTRA_ALPHABETS = [[0.0, 1.0, 3.0, 10.0], [-1.5, 0.0, 0.25, 7.0], [0.1, 0.7, 1.3, 2.9], [-4.0, -1.0, 0.0, 0.5]]
USER_FACTORS = [0.1, 0.5, 1.0, 10.0]
A_EXPS = [0, -20, 10]
B_MULTS = [0.0, 1e6]
SCRIPTS = ["golden", "ascending", "halton3"]


def scripted_random(name):
    """deterministic stand-ins for numpy.random.random(size=n): fixed low-discrepancy / monotone sequences"""

    def golden(size=None):
        n = int(size)
        return (np.arange(1, n + 1) * 0.6180339887498949) % 1.0

    def ascending(size=None):
        n = int(size)
        return (np.arange(n) + 0.5) / n

    def halton3(size=None):
        n = int(size)
        out = np.zeros(n)
        for i in range(n):
            f, r, k = 1.0, 0.0, i + 1
            while k:
                f /= 3.0
                r += f * (k % 3)
                k //= 3
            out[i] = r
        return out

    return {"golden": golden, "ascending": ascending, "halton3": halton3}[name]


def build_sample(spec):
    if spec["kind"] == "multiset":
        v = np.array(spec["values"], dtype=float)
        # a fixed non-sorted arrangement
        return np.concatenate([v[1::2], v[0::2]])
    s = R.quantile_sample(spec["family"], spec["n"])
    return s[R.stride_permutation(s.size, spec.get("stride"))]


def sample_class(spec):
    if spec["kind"] == "multiset":
        v = spec["values"]
        return f"multiset,n={len(v)},distinct={len(set(v))}"
    return f"{spec['family']},n={spec['n']}"


def construct(GaussianKDE, kde_mod, data, bw, a, sd0):
    """build the estimator for one bandwidth mode on (already transformed) data"""
    mode = bw["mode"]
    if mode == "user":
        return GaussianKDE(data, bandwidth=bw["factor"] * sd0 * a)
    if mode == "rule":
        return GaussianKDE(data)
    if mode == "cv":
        return GaussianKDE(data, cross_validation=True)
    if mode == "cv-sub":
        saved = kde_mod.random
        calls = []
        fn = scripted_random(bw["script"])

        def counted(size=None):
            calls.append(size)
            return fn(size=size)

        kde_mod.random = counted
        try:
            k = GaussianKDE(data, cross_validation=True, max_cv_samples=bw["max"])
        finally:
            kde_mod.random = saved
        if not calls:
            # the sub-sampling no longer draws through inference.pdf.kde.random: the seam must be extended
            raise HarnessError("cross-validation sub-sampling did not use the scripted generator (inference.pdf.kde.random)")
        return k
    raise HarnessError(f"unknown bandwidth mode {mode}")


def eval_points(smin, smax, h, distinct, tree_edges):
    """(all points, fine uniform grid).  Everything is computed from the data range and h, not from the estimator."""
    rng = smax - smin
    depth = 0 if rng <= h else int(math.ceil(math.log2(rng / h)))
    depth = min(depth + 1, 11)
    dy = smin + rng * (np.arange(2**depth + 1) / 2.0**depth)
    dy = np.concatenate([dy, np.linspace(smin, smax, 2**depth + 1)])
    if tree_edges is not None and np.size(tree_edges) <= 5000:
        dy = np.concatenate([dy, np.asarray(tree_edges, dtype=float).ravel()])
    dy = np.unique(dy)
    # +-1 ulp neighbours (around 0 a tiny *normal* number, so that the 2^-20 map stays exact)
    dn = np.where(dy == 0.0, -(2.0**-900), np.nextafter(dy, -np.inf))
    up = np.where(dy == 0.0, 2.0**-900, np.nextafter(dy, np.inf))
    edges = np.concatenate([dy, dn, up])
    lo, hi = smin - 10.0 * h, smax + 10.0 * h
    m = int(math.ceil((hi - lo) / (h / 16.0)))
    m = min(max(m, 64), 20000)
    m += m % 2  # even number of intervals -> odd number of nodes
    grid = lo + (hi - lo) * (np.arange(m + 1) / m)
    far = np.array([smin - 1e3 * h, smax + 1e3 * h, smin - 30.0 * h, smax + 30.0 * h])
    pts = np.concatenate([edges, distinct, far])
    return pts, grid, far[:2]


def ev_kde(case):
    """one sample x one bandwidth mode: all affine maps, all oracles"""
    import inference.pdf.kde as kde_mod
    from inference.pdf.kde import GaussianKDE

    spec, bw = case["sample"], case["bw"]
    base = build_sample(spec)
    sd0 = float(np.std(base))
    n = base.size
    bwc = bw["mode"]
    scls = sample_class(spec)
    fails, tags, slack, skipped = [], set(), {}, {}
    nev = 0

    def sl(name, v):
        if v == v and v > slack.get(name, -1.0):
            slack[name] = float(v)

    ref_rows = {}
    for a_exp, b_mult in case["maps"]:
        a = 2.0**a_exp
        b = b_mult * a
        data = a * base + b
        mapname = f"a=2^{a_exp},b={b_mult:g}a"
        detail = dict(sample=spec, bw=bw, a_exp=a_exp, b_mult=b_mult)
        try:
            with lib(f"construct-{bwc}"):
                k = construct(GaussianKDE, kde_mod, data.copy(), bw, a, sd0)
                h = float(k.h)
        except LibFailure as e:
            fails.append(fail(f"construct/{bwc}/raises:{e.exc_type}", f"{scls} {mapname}: {e}", traceback=e.tb, **detail))
            continue
        nev += 1
        if not (h > 0 and math.isfinite(h)):
            fails.append(fail(f"construct/{bwc}/bandwidth-not-positive", f"{scls} {mapname}: h={h}", **detail))
            continue
        if bwc == "user" and h != bw["factor"] * sd0 * a:
            fails.append(fail("construct/user/bandwidth-not-the-one-given", f"{scls} {mapname}: h={h}", **detail))
        srt = np.sort(data)
        smin, smax = float(srt[0]), float(srt[-1])
        distinct = np.unique(srt)
        tree = getattr(k, "tree", None)
        pts, grid, far = eval_points(smin, smax, h, distinct, getattr(tree, "edges", None))
        allx = np.concatenate([pts, grid])
        with lib("pdf-array"):
            p = np.asarray(k(allx.copy()), dtype=float)
        with lib("cdf-array"):
            c = np.asarray(k.cdf(allx.copy()), dtype=float)
        nev += 2
        if p.shape != allx.shape or c.shape != allx.shape:
            fails.append(fail(f"shape/{bwc}/array-output-shape", f"{scls} {mapname}: {p.shape} {c.shape} for {allx.shape}", **detail))
            continue
        ep = R.exact_pdf(srt, h, allx)
        ec = R.exact_cdf(srt, h, allx)
        # validate the numpy reference with mpmath on small samples
        if n <= 5 and a_exp == 0:
            sub = allx[:: max(1, allx.size // 10)]
            mp_p = np.array([float(v) for v in R.exact_pdf_mp(srt, h, sub)])
            mp_c = np.array([float(v) for v in R.exact_cdf_mp(srt, h, sub)])
            if np.abs(mp_p - R.exact_pdf(srt, h, sub)).max() * h > 1e-13 or np.abs(mp_c - R.exact_cdf(srt, h, sub)).max() > 1e-13:
                raise HarnessError("numpy reference KDE disagrees with mpmath")
        # --- non-negative, finite
        if not (np.isfinite(p).all() and np.isfinite(c).all()):
            fails.append(fail(f"value/{bwc}/not-finite", f"{scls} {mapname}", **detail))
            continue
        if (p < 0).any():
            i = int(np.argmin(p))
            fails.append(fail(f"value/{bwc}/pdf-negative", f"{scls} {mapname}: pdf({allx[i]})={p[i]}", x=float(allx[i]), **detail))
        # --- faithful
        dp = np.abs(p - ep) * h
        i = int(np.argmax(dp))
        sl(f"pdf-vs-exact*h/{bwc}", dp[i] / TOL_PDF_H)
        if dp[i] > TOL_PDF_H:
            fails.append(
                fail(f"faithful/{bwc}/pdf", f"{scls} {mapname}: x={allx[i]!r} h={h!r} pdf={p[i]!r} exact={ep[i]!r} |diff|*h={dp[i]:.3g} > {TOL_PDF_H}", x=float(allx[i]), h=h, **detail)
            )
        dc = np.abs(c - ec)
        i = int(np.argmax(dc))
        sl(f"cdf-vs-exact/{bwc}", dc[i] / TOL_CDF)
        if dc[i] > TOL_CDF:
            fails.append(fail(f"faithful/{bwc}/cdf", f"{scls} {mapname}: x={allx[i]!r} h={h!r} cdf={c[i]!r} exact={ec[i]!r} |diff|={dc[i]:.3g} > {TOL_CDF}", x=float(allx[i]), h=h, **detail))
        # --- cdf non-decreasing, 0 .. 1
        rt = 2.0 * (4.0 + math.log2(n)) * EPS  # rounding of two sums of n terms <= 1
        order = np.argsort(allx, kind="stable")
        d = np.diff(c[order])
        i = int(np.argmin(d))
        sl(f"cdf-decrease/{bwc}", max(0.0, -d[i]) / rt)
        if d[i] < -rt:
            xs = allx[order]
            fails.append(fail(f"cdf/{bwc}/decreasing", f"{scls} {mapname}: cdf({xs[i]!r})={c[order][i]!r} > cdf({xs[i+1]!r})={c[order][i+1]!r}", x=float(xs[i]), h=h, **detail))
        with lib("cdf-far"):
            cf = np.asarray(k.cdf(far.copy()), dtype=float)
        nev += 1
        sl(f"cdf-far-left/{bwc}", abs(cf[0]) / rt)
        sl(f"cdf-far-right/{bwc}", abs(cf[1] - 1.0) / rt)
        if abs(cf[0]) > rt:
            fails.append(fail(f"cdf/{bwc}/not-0-far-left", f"{scls} {mapname}: cdf(min-1000h)={cf[0]!r}", h=h, **detail))
        if abs(cf[1] - 1.0) > rt:
            fails.append(fail(f"cdf/{bwc}/not-1-far-right", f"{scls} {mapname}: cdf(max+1000h)={cf[1]!r}", h=h, **detail))
        if c.min() < -rt or c.max() > 1.0 + rt:
            fails.append(fail(f"cdf/{bwc}/outside-0-1", f"{scls} {mapname}: range [{c.min()!r},{c.max()!r}]", h=h, **detail))
        # --- cdf is the integral of the density (own density, fine grid)
        pg, cg = p[pts.size :], c[pts.size :]
        step = float(grid[1] - grid[0])
        if step <= 0.5 * h:
            cum = R.cumulative_simpson(pg, step)
            tol_i = TOL_INT + (8.0 / 3.0) * R.dropped_pdf_bound(3.5) * (step / h) + 1e-5
            di = np.abs((cg - cg[0]) - cum)
            i = int(np.argmax(di))
            sl(f"cdf-vs-integral/{bwc}", di[i] / tol_i)
            if di[i] > tol_i:
                fails.append(fail(f"integral/{bwc}/cdf-not-integral-of-pdf", f"{scls} {mapname}: x={grid[i]!r}: cdf-cdf0={cg[i]-cg[0]!r} integral={cum[i]!r}", x=float(grid[i]), h=h, **detail))
            tot = cum[-1]
            sl(f"normalisation/{bwc}", abs(tot - 1.0) / tol_i)
            if abs(tot - 1.0) > tol_i:
                fails.append(fail(f"integral/{bwc}/pdf-not-normalised", f"{scls} {mapname}: integral of pdf over data range +-10h = {tot!r}", h=h, **detail))
        else:
            skipped["integral: grid coarser than h/2"] = skipped.get("integral: grid coarser than h/2", 0) + 1
        # --- order of evaluation points, scalar input
        perm = R.stride_permutation(allx.size, case.get("stride"))
        with lib("pdf-permuted"):
            p2 = np.asarray(k(allx[perm]), dtype=float)
        with lib("cdf-permuted"):
            c2 = np.asarray(k.cdf(allx[perm]), dtype=float)
        nev += 2
        if not np.array_equal(p2, p[perm]):
            j = int(np.argmax(np.abs(p2 - p[perm])))
            fails.append(fail(f"order/{bwc}/pdf-depends-on-order-of-points", f"{scls} {mapname}: x={allx[perm][j]!r}: {p2[j]!r} vs {p[perm][j]!r}", **detail))
        if not np.array_equal(c2, c[perm]):
            j = int(np.argmax(np.abs(c2 - c[perm])))
            fails.append(fail(f"order/{bwc}/cdf-depends-on-order-of-points", f"{scls} {mapname}: x={allx[perm][j]!r}: {c2[j]!r} vs {c[perm][j]!r}", **detail))
        idx = np.unique(np.concatenate([np.arange(0, pts.size, max(1, pts.size // 12)), pts.size + np.arange(0, grid.size, max(1, grid.size // 6))]))
        for j in idx:
            xv = allx[j]
            for form, obj in (("float", float(xv)), ("0d", np.array(xv)), ("len1", np.array([xv])), ("list", [float(xv), float(xv)])):
                with lib(f"pdf-{form}"):
                    ps = k(obj)
                with lib(f"cdf-{form}"):
                    cs = k.cdf(obj)
                nev += 2
                psv, csv = np.asarray(ps, dtype=float).ravel(), np.asarray(cs, dtype=float).ravel()
                want = 2 if form == "list" else 1
                if psv.size != want or csv.size != want:
                    fails.append(fail(f"scalar/{bwc}/{form}-output-size", f"{scls} {mapname}: sizes {psv.size},{csv.size}", **detail))
                    continue
                if not (np.all(psv == p[j]) and np.all(csv == c[j])):
                    fails.append(fail(f"scalar/{bwc}/{form}-differs-from-array", f"{scls} {mapname}: x={xv!r}: pdf {psv.tolist()} vs {p[j]!r}, cdf {csv.tolist()} vs {c[j]!r}", x=float(xv), **detail))
        # --- integer-valued evaluation points (python int, integer arrays and lists) must give what the same floats give
        lo_i, hi_i = int(np.floor(srt[0])) - 1, int(np.ceil(srt[-1])) + 1
        if hi_i - lo_i <= 4000:
            ints = np.unique(np.linspace(lo_i, hi_i, min(9, hi_i - lo_i + 1)).round().astype(np.int64))
            with lib("pdf-float-of-ints"):
                pf = np.asarray(k(ints.astype(float)), dtype=float)
                cf = np.asarray(k.cdf(ints.astype(float)), dtype=float)
            for form, obj in (("int-array", ints.copy()), ("int-list", [int(v) for v in ints]), ("python-int", int(ints[len(ints) // 2]))):
                with lib(f"pdf-{form}"):
                    pi_ = np.asarray(k(obj), dtype=float).ravel()
                with lib(f"cdf-{form}"):
                    ci_ = np.asarray(k.cdf(obj), dtype=float).ravel()
                nev += 2
                wp, wc = (pf, cf) if form != "python-int" else (pf[len(ints) // 2 : len(ints) // 2 + 1], cf[len(ints) // 2 : len(ints) // 2 + 1])
                if pi_.shape != wp.shape or ci_.shape != wc.shape or not (np.array_equal(pi_, wp) and np.array_equal(ci_, wc)):
                    fails.append(fail(f"scalar/{bwc}/{form}-differs-from-float-points", f"{scls} {mapname}: points {ints.tolist()}: pdf {pi_.tolist()} vs {wp.tolist()}, cdf {ci_.tolist()} vs {wc.tolist()}", **detail))
        # --- order / container of the sample
        # (the scripted sub-sample is drawn by position, so that mode is tied to the order by construction)
        if bwc != "cv-sub" and ((a_exp, b_mult) in ((0, 0.0), (-20, 1e6)) or n <= 5):
            variants = [("reversed", data[::-1].copy()), ("sorted", srt.copy()), ("list", [float(v) for v in data])]
            if spec["kind"] == "multiset" and a_exp == 0 and all(float(v).is_integer() for v in data):
                variants.append(("intlist", [int(v) for v in data]))
            probe = allx[idx]
            for vname, obj in variants:
                if bwc == "cv" and n > 400 and vname != "reversed":
                    continue
                with lib(f"construct-{bwc}-{vname}"):
                    k2 = construct(GaussianKDE, kde_mod, obj, bw, a, sd0)
                    pv = np.asarray(k2(probe.copy()), dtype=float)
                    cv = np.asarray(k2.cdf(probe.copy()), dtype=float)
                nev += 3
                if float(k2.h) != h or not np.array_equal(pv, p[idx]) or not np.array_equal(cv, c[idx]):
                    fails.append(fail(f"order/{bwc}/depends-on-sample-{vname}", f"{scls} {mapname}: h {k2.h!r} vs {h!r}; max pdf diff {np.abs(pv-p[idx]).max()!r}", **detail))
        nreg = len(getattr(k, "slices", ())) or "?"
        tags.add(f"{scls}|{bwc}{bw.get('factor', bw.get('script', ''))}|{mapname}|regions={nreg}")
        ref_rows[(a_exp, b_mult)] = dict(h=h, a=a, b=b, pts=pts, grid=grid, p=p, c=c, k=k, data=data)

    # ---------------------------------------------------------------- covariance under x -> a x + b
    base_row = ref_rows.get((0, 0.0))
    if base_row is not None:
        h0 = base_row["h"]
        x0 = np.concatenate([base_row["pts"], base_row["grid"]])
        for (a_exp, b_mult), row in ref_rows.items():
            if (a_exp, b_mult) == (0, 0.0):
                continue
            a, b, h = row["a"], row["b"], row["h"]
            mapname = f"a=2^{a_exp},b={b_mult:g}a"
            detail = dict(sample=spec, bw=bw, a_exp=a_exp, b_mult=b_mult)
            # bandwidth: exact homogeneity up to rounding.  a is a power of two, so for b = 0 the only inexact steps
            # are log/exp in the cross-validated search; for b != 0 the data themselves are rounded to eps*|b|.
            delta = EPS * (abs(b_mult) + np.abs(base).max())  # perturbation of the data, base units
            tol_h = 64.0 * EPS * (1.0 + abs(math.log(h)) + abs(math.log(h0))) if bwc.startswith("cv") else 8.0 * EPS
            if b != 0.0:
                # rule of thumb: relative change of the sd <= ~2*delta/sd; cross-validation: the score is a smooth
                # function of the data, its maximiser over a fixed grid of log h moves only if two grid scores tie
                tol_h += 64.0 * delta / sd0
            rel = abs(h / (a * h0) - 1.0)
            sl(f"cov-bandwidth/{bwc}/{'shift' if b else 'scale'}", rel / tol_h)
            if rel > tol_h:
                fails.append(fail(f"covariance/{bwc}/bandwidth", f"{scls} {mapname}: h={h!r} but a*h(base)={a*h0!r} (rel {rel:.3g} > {tol_h:.3g})", h=h, h_base=h0, **detail))
                continue
            if b == 0.0:
                # the estimate itself: pdf'(a x) a = pdf(x), cdf'(a x) = cdf(x); sensitivity of a retained kernel to
                # ln h is at most (1 + z^2) <= 1 + 4.5^2, kernels sum to <= 0.4/h
                xs = a * x0
                with lib("pdf-array"):
                    pt = np.asarray(row["k"](xs), dtype=float) * a
                with lib("cdf-array"):
                    ct = np.asarray(row["k"].cdf(xs), dtype=float)
                nev += 2
                tol_p = (32.0 * tol_h * 0.4 + 8.0 * EPS) / h0
                tol_c = 32.0 * tol_h + 8.0 * EPS * (4.0 + math.log2(n))
                dpv = np.abs(pt - base_row["p"])
                dcv = np.abs(ct - base_row["c"])
                i, j = int(np.argmax(dpv)), int(np.argmax(dcv))
                sl(f"cov-pdf/{bwc}", dpv[i] / tol_p)
                sl(f"cov-cdf/{bwc}", dcv[j] / tol_c)
                if dpv[i] > tol_p:
                    fails.append(fail(f"covariance/{bwc}/pdf-under-scaling", f"{scls} {mapname}: x={x0[i]!r}: a*pdf'(a x)={pt[i]!r} vs pdf(x)={base_row['p'][i]!r}", x=float(x0[i]), **detail))
                if dcv[j] > tol_c:
                    fails.append(fail(f"covariance/{bwc}/cdf-under-scaling", f"{scls} {mapname}: x={x0[j]!r}: cdf'(a x)={ct[j]!r} vs cdf(x)={base_row['c'][j]!r}", x=float(x0[j]), **detail))
            # (for b != 0 the estimate at a x + b is compared with the exact estimate of the transformed data above;
            #  with the covariant bandwidth that is the covariance of the estimate to the truncation bound)
    return {"fails": fails[:30], "n": nev, "tags": tags, "slack": slack, "skipped": skipped, "sample": {"sample": spec, "bw": bw, "n_maps_ok": len(ref_rows)}}


# ---------------------------------------------------------------------------------------------------------------------
# call histories on ONE estimator with ONE evaluation-array object that the caller modifies in place between calls
EVAL_BLOCKS = [["pdf"], ["cdf"], ["pdf", "cdf"], ["cdf", "pdf"]]
MODS = ["shift", "scale", "reverse", "sort", "refill", "fill", "realloc", "none"]
HIST_LENGTHS = [33, 1]


def history_contents(kind, smin, smax, h, distinct, m, perm):
    """the contents menus, computed from the data range and h only"""
    rng = smax - smin
    if kind == "grid":
        return (smin - 2.0 * h + (rng + 4.0 * h) * (np.arange(m) / max(m - 1, 1)))[perm] if m > 1 else np.array([smin + 0.25 * rng])
    if kind == "refill":
        vals = np.concatenate([distinct, [smin - 30.0 * h, smax + 30.0 * h, smin - 1e3 * h, smax + 1e3 * h], 0.5 * (distinct[1:] + distinct[:-1])])
        return np.resize(vals[::-1], m).astype(float)
    raise HarnessError(kind)


def apply_mod(x, mod, smin, smax, h, distinct, perm):
    """modify the caller's array IN PLACE (same object); ('realloc' is done by the caller: it frees the object first)"""
    rng = smax - smin
    if mod == "shift":
        x += 0.37 * rng + h
    elif mod == "scale":
        x -= smin
        x *= 0.5
        x += smin
    elif mod == "reverse":
        x[:] = x[::-1].copy()
    elif mod == "sort":
        x.sort()
    elif mod == "refill":
        x[:] = history_contents("refill", smin, smax, h, distinct, x.size, perm)
    elif mod == "fill":
        x.fill(smin + 0.625 * rng)
    elif mod != "none":
        raise HarnessError(mod)
    return x


def ev_history(case):
    """one sample x one bandwidth mode x one first block of calls: every continuation (modification, block of calls)*"""
    import inference.pdf.kde as kde_mod
    from inference.pdf.kde import GaussianKDE

    spec, bw = case["sample"], case["bw"]
    base = build_sample(spec)
    sd0 = float(np.std(base))
    bwc = bw["mode"]
    scls = sample_class(spec)
    fails, tags, slack = [], set(), {}
    nev = 0
    seen = set()
    fresh_cache = {}

    def sl(name, v):
        if v == v and v > slack.get(name, -1.0):
            slack[name] = float(v)

    for a_exp, b_mult in case["maps"]:
        a = 2.0**a_exp
        data = a * base + b_mult * a
        mapname = f"a=2^{a_exp},b={b_mult:g}a"
        srt = np.sort(data)
        smin, smax = float(srt[0]), float(srt[-1])
        distinct = np.unique(srt)

        def fresh():
            with lib(f"construct-{bwc}"):
                return construct(GaussianKDE, kde_mod, data.copy(), bw, a, sd0)

        for m in case["lengths"]:
            perm = R.stride_permutation(m, case.get("stride")) if m > 1 else np.array([0])
            for tail in itertools.product(*[MODS if i % 2 == 0 else range(len(EVAL_BLOCKS)) for i in range(2 * case["depth"])]):
                hist = [case["first"]] + [t if isinstance(t, str) else EVAL_BLOCKS[t] for t in tail]
                detail = dict(sample=spec, bw=bw, a_exp=a_exp, b_mult=b_mult, length=m, history=hist)
                k = fresh()
                h = float(k.h)
                nreg = len(getattr(k, "slices", ())) or 0
                x = np.array(history_contents("grid", smin, smax, h, distinct, m, perm))
                last_mod = "start"
                for step in hist:
                    if step == "realloc":
                        # the old object is freed first, so the new one may get the same address / id
                        new = history_contents("refill", smin, smax, h, distinct, m, perm)[::-1].tolist()
                        x = None
                        x = np.array(new)
                        last_mod = step
                        continue
                    if isinstance(step, str):
                        x = apply_mod(x, step, smin, smax, h, distinct, perm)
                        last_mod = step
                        continue
                    for meth in step:
                        before = x.copy()
                        with lib(f"history-{meth}"):
                            got = np.asarray(k(x) if meth == "pdf" else k.cdf(x), dtype=float)
                        # what a new estimator (nothing else ever asked of it) returns for a new array with these contents:
                        # a function of the contents only, computed once per distinct contents, each time by its own new estimator
                        ck_ = (a_exp, b_mult, meth, before.tobytes())
                        if ck_ not in fresh_cache:
                            kf = fresh()
                            with lib(f"fresh-{meth}"):
                                fw = np.asarray(kf(before.copy()) if meth == "pdf" else kf.cdf(before.copy()), dtype=float)
                            fresh_cache[ck_] = (fw, R.exact_pdf(srt, h, before) if meth == "pdf" else R.exact_cdf(srt, h, before))
                            nev += 1
                        want, exact = fresh_cache[ck_]
                        nev += 1
                        if not np.array_equal(x, before):
                            key = f"history/{bwc}/caller-array-changed-by-{meth}"
                            if key not in seen:
                                seen.add(key)
                                fails.append(fail(key, f"{scls} {mapname}: the evaluation array passed to {meth} was modified by the call", **detail))
                            x[:] = before
                        if got.shape != want.shape or not np.array_equal(got, want):
                            key = f"history/{bwc}/{meth}-after-{last_mod}-differs-from-fresh-estimator"
                            if key not in seen:
                                seen.add(key)
                                d = float(np.abs(got - want).max()) if got.shape == want.shape else float("nan")
                                fails.append(fail(key, f"{scls} {mapname}: history {hist}: {meth} of the re-used array differs from a fresh estimator on a copy of its contents (max |diff| {d!r}, h={h!r})", h=h, **detail))
                        # and against the exact kernel sum (the property's own terms), on the current contents
                        if got.shape == want.shape:
                            dv = float(np.abs(got - exact).max()) * (h / TOL_PDF_H if meth == "pdf" else 1.0 / TOL_CDF)
                            sl(f"history-{meth}-vs-exact/{bwc}", dv)
                            if not dv <= 1.0:
                                key = f"history/{bwc}/{meth}-after-{last_mod}-not-faithful"
                                if key not in seen:
                                    seen.add(key)
                                    fails.append(fail(key, f"{scls} {mapname}: history {hist}: {meth} deviates from the exact kernel sum by {dv:.3g} x the convention", h=h, **detail))
                    if last_mod != "start":
                        tags.add(f"history|{scls}|{bwc}|{mapname}|len={m}|after-{last_mod}|{'+'.join(step)}|regions={'many' if nreg > 2 else nreg}")
    return {"fails": fails[:30], "n": nev, "tags": tags, "slack": slack, "sample": {"sample": spec, "bw": bw, "first": case["first"]}}


# ----------------------------------------------------------------------------- the estimator owns its sample (added)
# "For any sample ... the density returned is ... the exact Gaussian kernel-density estimate" of the sample the estimator was BUILT FROM:
# what the caller does with its own array afterwards (unit conversion in place, re-using the buffer for the next chain) is not an input of
# pdf / cdf.  The sample is handed over as an ndarray in ascending, descending and scrambled order (and as a column, a strided view, a list).
OWN_ORDERS = ["ascending", "descending", "scrambled"]
OWN_FORMS = ["flat-array", "strided-view", "(n,1)-array", "list"]
OWN_MODS = ["scale", "reverse", "fill", "shift", "scramble"]
OWN_WHEN = ["before-any-call", "between-calls"]


def own_new_contents(v, mod):
    """what the caller writes into its container (from the current numbers v, 1-D)"""
    if mod == "scale":
        return v * 1000.0
    if mod == "reverse":
        return v[::-1].copy()
    if mod == "fill":
        return np.full(v.size, float(v[v.size // 2]) + 0.125)
    if mod == "shift":
        return v + (3.0 * float(v.max() - v.min()) + 1.0)
    if mod == "scramble":
        return v[R.stride_permutation(v.size, 7)].copy()[::-1] * 0.5
    raise HarnessError(mod)


def ev_owns(case):
    import inference.pdf.kde as kde_mod
    from inference.pdf.kde import GaussianKDE

    spec, bw = case["sample"], case["bw"]
    bwc = bw["mode"]
    scls = sample_class(spec)
    base0 = build_sample(spec)
    sd0 = float(np.std(base0))
    fails, tags, seen, nev = [], set(), set(), 0

    def add(key, what, **kw):
        if key not in seen:
            seen.add(key)
            fails.append(fail(key, what, sample=spec, bw=bw, **kw))

    def reads(k, x):
        out = {}
        with lib("owns-h"):
            out["h"] = np.asarray(float(k.h))
        with lib("owns-pdf"):
            out["pdf"] = np.asarray(k(x.copy()), dtype=float)
        with lib("owns-cdf"):
            out["cdf"] = np.asarray(k.cdf(x.copy()), dtype=float)
        return out

    for order in OWN_ORDERS:
        srt = np.sort(base0)
        given = {"ascending": srt, "descending": srt[::-1].copy(), "scrambled": srt[R.stride_permutation(srt.size, case.get("stride") or 7)].copy()}[order]
        if order == "scrambled" and (np.array_equal(given, srt) or np.array_equal(given, srt[::-1])):
            given = np.concatenate([srt[1::2], srt[0::2]])
        smin, smax = float(srt[0]), float(srt[-1])

        def container(form):
            if form == "flat-array":
                return given.copy()
            if form == "strided-view":
                big = np.zeros(2 * given.size)
                big[::2] = given
                return big[::2]
            if form == "(n,1)-array":
                return given.reshape(-1, 1).copy()
            return [float(t) for t in given]

        for form in OWN_FORMS:
            # reference read-outs: an estimator built from an equal container that nobody touches afterwards
            try:
                with lib(f"construct-{bwc}-{form}", allow=() if form == "flat-array" else (ValueError, TypeError)):
                    kf = construct(GaussianKDE, kde_mod, container(form), bw, 1.0, sd0)
            except (ValueError, TypeError) as e:
                tags.add(f"owns|{form}: rejected by the constructor ({type(e).__name__})")
                continue
            h = float(kf.h)
            x = np.concatenate([smin - 3.0 * h + (smax - smin + 6.0 * h) * (np.arange(65) / 64.0), np.unique(srt)])
            want = reads(kf, x)
            nev += 4
            # the exact kernel sum of the sample GIVEN (guards "want": the untouched estimator itself is within the conventions)
            if float(np.abs(want["pdf"] - R.exact_pdf(srt, h, x)).max()) * h > TOL_PDF_H or float(np.abs(want["cdf"] - R.exact_cdf(srt, h, x)).max()) > TOL_CDF:
                add(f"owns/{bwc}/untouched-estimator-not-faithful", f"{scls} given in {order} order as {form}: pdf / cdf deviate from the exact kernel sum beyond the conventions", order=order, form=form, h=h)
            for mod in OWN_MODS:
                for when in OWN_WHEN:
                    arr = container(form)
                    cont = type(arr).__name__
                    det = dict(order=order, form=form, overwrite=mod, when=when, h=h)

                    def current():
                        return np.array(arr, dtype=float).reshape(-1)

                    with lib(f"construct-{bwc}"):
                        k = construct(GaussianKDE, kde_mod, arr, bw, 1.0, sd0)
                    nev += 1
                    if not np.array_equal(current(), given):
                        add(f"owns/{bwc}/caller-sample-{cont}-modified-by-the-constructor", f"{scls} given in {order} order as {form}: after GaussianKDE(...) the caller's {cont} holds {current().tolist()[:8]}.. instead of {given.tolist()[:8]}..", **det)
                        continue
                    if when == "between-calls":
                        got = reads(k, x)
                        nev += 3
                        if not np.array_equal(current(), given):
                            add(f"owns/{bwc}/caller-sample-{cont}-modified-by-a-call", f"{scls} given in {order} order as {form}: pdf / cdf / h changed the caller's {cont}", **det)
                            continue
                        for q in ("h", "pdf", "cdf"):
                            if got[q].shape != want[q].shape or not np.array_equal(got[q], want[q]):
                                add(f"owns/{bwc}/{q}-differs-between-two-estimators-built-from-equal-containers", f"{scls} given in {order} order as {form}: {q} differs from that of an estimator built from an equal {cont}", **det)
                    new = own_new_contents(given, mod)
                    if isinstance(arr, list):
                        arr[:] = [float(t) for t in new]
                    else:
                        arr[...] = new.reshape(arr.shape)
                    got = reads(k, x)
                    nev += 3
                    for q in ("h", "pdf", "cdf"):
                        if got[q].shape != want[q].shape or not np.array_equal(got[q], want[q]):
                            d = float(np.abs(got[q] - want[q]).max()) if got[q].shape == want[q].shape else float("nan")
                            add(f"owns/{bwc}/{q}-changes-when-the-caller-overwrites-its-sample-{cont}-afterwards",
                                f"{scls} given in {order} order as {form}; the caller then overwrote its own {cont} in place ({mod}, {when}): {q} changed by up to {d!r} (h={h!r}) from the "
                                f"estimate of the sample the estimator was built from", max_abs_change=d, **det)
                    if not np.array_equal(current(), new):
                        add(f"owns/{bwc}/caller-sample-{cont}-modified-by-a-call", f"{scls} given in {order} order as {form}: after the caller wrote new numbers ({mod}) into its {cont}, pdf / cdf / h changed them", **det)
                    tags.add(f"owns|{scls}|{bwc}|given-{order}|{form}|overwrite={mod}|{when}")
    return {"fails": fails[:30], "n": nev, "tags": tags, "sample": {"sample": spec, "bw": bw}}


EVALUATORS = {"owns": ev_owns, "multiset": ev_kde, "quantile": ev_kde, "history": ev_history}


def run(ck):
    seed, quick = ck.seed, ck.quick
    maps = [[ae, bm] for ae in A_EXPS for bm in B_MULTS]
    maps3 = [[0, 0.0], [-20, 1e6], [10, 0.0]]  # quick tier: the heavier blocks use three of the six maps
    stride = [None, 7, 11, 13][seed % 4]
    alphabets = [ALPHABET0, EXTRA_ALPHABETS[seed % len(EXTRA_ALPHABETS)]] if quick else [ALPHABET0] + EXTRA_ALPHABETS
    bws = [{"mode": "user", "factor": f} for f in USER_FACTORS] + [{"mode": "rule"}, {"mode": "cv"}]
    cases = []
    for ai, A in enumerate(alphabets):
        sizes = (3, 4, 5) if (ai == 0 or not quick) else (3,)
        for n in sizes:
            for mi, ms in enumerate(itertools.combinations_with_replacement(A, n)):
                if len(set(ms)) < 2:
                    continue
                for bi, bw in enumerate(bws):
                    if quick and n == 5 and (bi + mi + seed) % 2:
                        continue  # quick tier: size-5 multisets take every second bandwidth mode (rotating) and three maps
                    mp = maps3 if (quick and n == 5) else maps
                    cases.append({"sample": {"kind": "multiset", "values": list(ms)}, "bw": bw, "maps": mp, "stride": stride})
    ck.run_cases("multiset", cases)
    # quantile samples
    fams = ["normal", "t2", "bimodal", "ties", "ties-skew"]
    big = 1000 if quick else 2000
    qcases = []
    sizes = (50, big) if quick else (50, 400, big, 5000)
    for fam in fams:
        for n in sizes:
            if quick and n == big and fam == ["ties", "ties-skew"][seed % 2]:
                continue
            spec = {"kind": "quantile", "family": fam, "n": n, "stride": stride}
            if n > 2000 and fam in ("bimodal", "ties-skew"):
                continue
            for bw in bws:
                if n > 2000 and (bw["mode"] == "cv" or bw.get("factor") in (0.5, 1.0)):
                    continue  # full cross-validation is quadratic in n; n = 5000 goes through the sub-sampled mode below
                mp = maps3 if (quick and n == big and bw["mode"] == "user") else maps
                qcases.append({"sample": spec, "bw": bw, "maps": mp, "stride": stride})
            if n >= big:
                scripts = [SCRIPTS[seed % len(SCRIPTS)]] if (quick or n > 2000) else SCRIPTS
                for sc in scripts:
                    for mx in ([300] if quick else [300, n - 1]):
                        if mx > 2000:
                            continue
                        qcases.append({"sample": spec, "bw": {"mode": "cv-sub", "script": sc, "max": mx}, "maps": maps, "stride": stride})
    # a bulk with far outliers and bandwidths far below the range (range / h in the thousands: deep look-up trees)
    for n in ((82,) if quick else (42, 82, 302)):
        spec = {"kind": "quantile", "family": "outliers", "n": n, "stride": stride}
        for f in (0.001, 0.004) if quick else (0.0005, 0.001, 0.004, 0.02):
            qcases.append({"sample": spec, "bw": {"mode": "user", "factor": f}, "maps": maps3, "stride": stride})
        qcases.append({"sample": spec, "bw": {"mode": "rule"}, "maps": maps3, "stride": stride})
    # the heavy cross-validated blocks are split in two (each keeps the base map for the covariance oracle)
    split = []
    for c in qcases:
        if c["sample"]["n"] >= 1000 and c["bw"]["mode"].startswith("cv") and len(c["maps"]) == 6:
            split.append(dict(c, maps=[c["maps"][0], c["maps"][1], c["maps"][2]]))
            split.append(dict(c, maps=[c["maps"][0], c["maps"][3], c["maps"][4], c["maps"][5]]))
        else:
            split.append(c)
    qcases = split
    # heaviest first so the pool stays busy
    qcases.sort(key=lambda c: -(c["sample"]["n"] * (10 if c["bw"]["mode"].startswith("cv") else 1)))
    ck.run_cases("quantile", qcases, chunk=1)
    # call histories: one estimator, one evaluation-array object modified in place between the calls
    hsamples = [
        {"kind": "multiset", "values": [0.0, 0.0, 1.0, 5.0]},
        {"kind": "multiset", "values": list(alphabets[-1][:3]) + [alphabets[-1][3]] * 2},
        {"kind": "quantile", "family": "normal", "n": 50, "stride": stride},
        {"kind": "quantile", "family": "bimodal", "n": 50, "stride": stride},
        {"kind": "quantile", "family": "outliers", "n": 82, "stride": stride},
    ]
    hbws = [{"mode": "user", "factor": 0.1}, {"mode": "user", "factor": 1.0}, {"mode": "rule"}, {"mode": "cv"}]
    if quick:
        # quick tier: one multiset (rotating with the seed), the bimodal and the deep-tree sample; three bandwidth modes
        hsamples = [hsamples[seed % 2], hsamples[3], hsamples[4]]
        hbws = [hbws[0], hbws[2], hbws[3]]
    hcases = []
    for spec in hsamples:
        for bw in hbws:
            if bw["mode"] == "cv" and spec.get("family") == "outliers":
                continue
            heavy = bw["mode"] == "cv" and not quick
            for first in EVAL_BLOCKS:
                hcases.append(
                    {
                        "sample": spec,
                        "bw": bw,
                        "first": first,
                        "depth": 1 if quick else 2,
                        "maps": [[0, 0.0]] if heavy else [[0, 0.0], [-20, 1e6]],
                        "lengths": HIST_LENGTHS[:1] if heavy else HIST_LENGTHS,
                        "stride": stride,
                    }
                )
    ck.run_cases("history", hcases, chunk=1)
    # the estimator owns its sample (added): sample handed over in ascending / descending / scrambled order, then overwritten by the caller
    osamples = [
        {"kind": "multiset", "values": [0.0, 0.0, 1.0, 5.0]},
        {"kind": "multiset", "values": list(alphabets[-1])},
        {"kind": "multiset", "values": list(alphabets[-1][:3]) + [alphabets[-1][3]] * 2},
        {"kind": "quantile", "family": "normal", "n": 50, "stride": stride},
        {"kind": "quantile", "family": "bimodal", "n": 50, "stride": stride},
        {"kind": "quantile", "family": "ties", "n": 50, "stride": stride},
        {"kind": "quantile", "family": "outliers", "n": 82, "stride": stride},
    ]
    if not quick:
        osamples.append({"kind": "quantile", "family": "t2", "n": 400, "stride": stride})
    obws = [{"mode": "user", "factor": 0.1}, {"mode": "user", "factor": 1.0}, {"mode": "rule"}, {"mode": "cv"}]
    ocases = [{"sample": sp, "bw": bw, "stride": stride} for sp in osamples for bw in obws if not (bw["mode"] == "cv" and sp.get("family") == "outliers")]
    ck.run_cases("owns", ocases, chunk=1)
    ck.rule = (
        "(ownership of the sample; evaluator owns, keys owns/<bandwidth mode>/<h|pdf|cdf>-changes-when-the-caller-overwrites-its-sample-<ndarray|list>-afterwards, "
        "owns/../caller-sample-<container>-modified-by-the-constructor, ../caller-sample-<container>-modified-by-a-call, ../<q>-differs-between-two-estimators-built-from-equal-containers, "
        "../untouched-estimator-not-faithful) three multisets and four quantile samples (n = 50, 82; thorough: + t2 n = 400) x {user 0.1 sd, user 1 sd, rule of thumb, cross-validated} x the sample handed over "
        "in {ascending, descending, scrambled} order x as {flat ndarray, strided view, (n,1) ndarray, list} (a non-flat form may be refused with ValueError / TypeError) x the caller overwriting that very "
        "object IN PLACE with {x1000, reversed, constant fill, shifted beyond the range, scrambled and halved} x {before any call, between two rounds of calls}: h, pdf and cdf on a 65-point grid reaching 3h beyond "
        "the data plus every sample value must afterwards equal bit for bit those of an estimator built from an equal container nobody touched (itself within the conventions of the exact kernel sum of "
        "the sample given); the caller's container must hold exactly what the caller put there after the constructor and after every call; distinct = (sample class, bandwidth mode, order, form, overwrite, when).  "
        "(call histories) on ONE estimator and ONE evaluation-array object: every sequence block (modification, block)^d with block in "
        "{pdf, cdf, pdf+cdf, cdf+pdf}, modification in {shift, scale, reverse, sort, refill, fill with a constant, free and re-allocate, none} "
        "applied IN PLACE to the caller's array, d = 1 (quick) / 2 (thorough), array lengths 33 and 1, for two multisets and three quantile samples "
        "x {user 0.1 sd, user 1 sd, rule of thumb, cross-validated} x two affine maps (quick tier: one multiset rotating with the seed, the bimodal and the far-outlier sample, three bandwidth modes): every result must equal bit-for-bit what a fresh estimator "
        "returns for a fresh copy of the current contents, be within the conventions of the exact kernel sum, and the caller's array must be unchanged by the call.  "
        "(single calls) "
        "every multiset of size 3..5 (>=2 distinct values) over the listed 4-letter alphabets, and quantile samples "
        "{normal, t2, bimodal, two tie-rich} x n in {50, 1000} (quick) / {50, 400, 2000, 5000} (thorough); x bandwidth mode {user 0.1/0.5/1/10 sd, rule of thumb, cross-validated, "
        "cross-validated on a scripted sub-sample} x affine maps a in {2^-20,1,2^10}, b in {0,1e6 a} (quick tier: three of the six maps and every second bandwidth mode, rotating with the seed, for size-5 multisets; three maps for user bandwidths at n=1000); evaluation points: all dyadic "
        "subdivision points of the data range (+-1 ulp) down to below the bandwidth, all sample values, a grid of step <= h/16 reaching 10h "
        "beyond the data, +-30h and +-1000h. A case is distinct by (sample class, bandwidth mode, map, number of look-up regions)."
    )
    ck.assume("ownership: the property speaks of the estimate of the sample the estimator was constructed from, so in-place changes the caller makes to its own array / list after construction are not "
              "inputs of pdf / cdf / h; 'identical read-outs' is bit for bit (same code, same numbers)")
    ck.assume("samples are the listed deterministic ones (n <= 5000); bandwidths between 0.1 and 10 sample standard deviations")
    ck.assume("sub-sampling inside the cross-validation is driven by scripted sequences installed as inference.pdf.kde.random; invariance to the sample order is not asserted for that mode (the sub-sample is positional)")
    ck.assume("conventions for the approximate clauses: |pdf-exact| <= 1e-3/h, |cdf-exact| <= 5e-4, |cdf difference - integral of pdf| <= 1e-3")
    ck.extra["alphabets"] = alphabets
    ck.extra["tolerances"] = {"pdf_times_h": TOL_PDF_H, "cdf": TOL_CDF, "integral": TOL_INT, "worst_case_dropping_beyond_3.5h": [R.dropped_pdf_bound(3.5), R.dropped_cdf_bound(3.5)]}
