"""C07 – Hamiltonian trajectories: reversible, volume preserving, energy error O(eps^2), kinetic
energy consistent with the momentum law, finite-difference gradient.

Engine D.  The chain's own trajectory map ``chain.run_leapfrog(t0.copy(), r0.copy(), n)`` (with
``chain.ES.epsilon`` set) is driven over a lattice of (t0, r0) for every configuration of
potential x dimension x step size x step count x temperature x mass specification x bounds.
Oracles are properties of the map, not equality with a reference integrator:

* reversibility   Phi(flip Phi(z)) = flip z
* volume          |det dPhi/dz| = 1 by central differences (two step sizes; stencils that straddle a
                  fold are moved)
* energy          with H = K_law(r) - logp(t)/T, where K_law(r) = |L^-1 r|^2/2 is the kinetic energy
                  of the law the momenta are drawn from (L probed with a scripted generator that
                  returns basis vectors from ``normal``): the error at fixed n*eps falls by 4 when eps
                  is halved on wall-free trajectories, and converges to 0 on trajectories that fold
* kinetic         chain.kinetic_energy / chain.hamiltonian agree with K_law (L^T M^-1 L = I)
* accept          take_step with a scripted generator accepts exactly when u <= exp(H0 - H1) with that H
* fd              without a gradient: the internal estimate approximates the true gradient on a lattice
                  that includes zero coordinates and points on the walls, never evaluates the density
                  outside the bounds, and its trajectories are reversible and energy-convergent
"""
import itertools
import math

import numpy as np

from mc.core import HarnessError, fail, lib
from mc.ref import c07_ref as R

LEVEL = "exploration"
EPS = R.EPS

T0 = [-0.4, 0.1, 0.55]  # lattice of start coordinates (inside the tight box, off its walls)
Z0 = [-1.2, 0.7]  # lattice of standardised momenta (r0 = L z)
TOL_REV = 1e-9  # rounding of <= 80 steps (n*eps*cond ~ 1e-13) leaves 4 orders; a broken map errs by O(eps)
TOL_DET = 1e-6  # central differences h=1e-5: truncation h^2 |Phi'''| ~ 1e-9, rounding eps/h ~ 1e-10 per entry
RATIO = (3.4, 4.6)  # eps -> eps/2 at fixed n*eps: 4 + O((eps w)^2)
CONV = 0.5  # E(eps/4) <= CONV * E(eps): first-order convergence would give 0.25


def make_chain(P, d, T, mass_kind, bounds_kind, use_grad=True, start=None):
    from inference.mcmc import HamiltonianChain

    im, IM, mclass = R.inverse_mass(mass_kind, d)
    bx = R.box(bounds_kind, d)
    kw = {}
    if im is not None:
        kw["inverse_mass"] = im
    if bx is not None:
        if d == 2:  # both documented forms of the bounds argument
            from inference.mcmc import Bounds

            with lib("Bounds"):
                kw["bounds"] = Bounds(lower=bx[0].copy(), upper=bx[1].copy())
        else:
            kw["bounds"] = (bx[0].copy(), bx[1].copy())
    if use_grad:
        kw["grad"] = P.grad
    if start is None:
        start = np.array(T0[1:] + T0[:1])[:d]
    with lib("HamiltonianChain"):
        chain = HamiltonianChain(posterior=P.posterior, start=np.array(start, dtype=float), temperature=T, display_progress=True, **kw)
    return chain, IM, mclass, bx


def momentum_law(chain, d, mclass, fails, slack):
    """L with r = L z for z ~ N(0, I): probed with basis vectors; linearity checked with three more."""
    cols = []
    for i in range(d):
        e = np.zeros(d)
        e[i] = 1.0
        with lib("sample_momentum"):
            cols.append(np.array(chain.mass.sample_momentum(R.VecRng([e])), dtype=float))
    L = np.array(cols).T
    if L.shape != (d, d) or not np.isfinite(L).all():
        fails.append(fail(f"kinetic/{mclass}/momentum-law-shape", f"momentum for basis draws has shape {L.shape}"))
        return None
    probes = [np.zeros(d), np.arange(1.0, d + 1.0) * np.array([1.0, -2.0, 0.5])[:d], -np.ones(d)]
    for z in probes:
        with lib("sample_momentum"):
            r = np.array(chain.mass.sample_momentum(R.VecRng([z])), dtype=float)
        e = float(np.abs(r - L @ z).max() / (16 * EPS * (1 + np.abs(L).sum())))
        slack["momentum law linear"] = max(slack.get("momentum law linear", 0.0), e)
        if e > 1:
            fails.append(fail(f"kinetic/{mclass}/momentum-law-not-linear", f"z={z.tolist()}: r={r.tolist()}, L z={(L @ z).tolist()}"))
            return None
    if abs(np.linalg.det(L)) < 1e-12:
        fails.append(fail(f"kinetic/{mclass}/momentum-law-degenerate", f"L={L.tolist()}"))
        return None
    return L


def k_law(L, r):
    z = np.linalg.solve(L, r)
    return 0.5 * float(z @ z)


def leap(chain, t, r, n):
    with lib("run_leapfrog"):
        a, b = chain.run_leapfrog(np.array(t, dtype=float), np.array(r, dtype=float), int(n))
    return np.array(a, dtype=float), np.array(b, dtype=float)


def lattice(d, L, seed, quick):
    pts = []
    tl = list(itertools.product(range(len(T0)), repeat=d))
    if d == 3:
        tl = [ix for ix in tl if sum(ix) % 3 == seed % 3]
    for ix in tl:
        for iz, zx in enumerate(itertools.product(Z0, repeat=d)):
            if quick and d == 3 and (iz + sum(ix)) % 2 != seed % 2:
                continue  # quick, d=3: half of the momentum sign patterns (alternating with the start point)
            z = np.array(zx) * (1.0 + 0.25 * np.arange(d))
            pts.append((np.array([T0[i] for i in ix]), L @ z))
    return pts


def jac_det(chain, t0, r0, n, h):
    d = t0.size
    z0 = np.concatenate([t0, r0])
    J = np.zeros((2 * d, 2 * d))
    for i in range(2 * d):
        e = np.zeros(2 * d)
        e[i] = h
        a = np.concatenate(leap(chain, (z0 + e)[:d], (z0 + e)[d:], n))
        b = np.concatenate(leap(chain, (z0 - e)[:d], (z0 - e)[d:], n))
        J[:, i] = (a - b) / (2 * h)
    return J


def inside_all(points, bx):
    if bx is None:
        return True
    lo, up = bx
    return all(((p >= lo) & (p <= up)).all() for p in points)


def first_order_constant(P, IM, T, bx, t0, r0, tau, h0):
    """B with |dH| <= B*eps for a trajectory of duration tau that folds at the walls of the box (see ev_traj)"""
    lo, up = bx
    d = t0.size
    axes = [np.linspace(lo[i], up[i], 7) for i in range(d)]
    gmax = np.zeros(d)
    lpmax = -math.inf
    for pt in itertools.product(*axes):
        pt = np.array(pt)
        gmax = np.maximum(gmax, np.abs(P.dlogp(pt)))
        lpmax = max(lpmax, P.logp(pt))
    lpmax = max(lpmax, P.logp(np.clip(P.mu, lo, up)))
    kmax = 1.2 * (h0 + lpmax / T) + 1e-12  # kinetic energy available anywhere in the box
    vmax = np.sqrt(2.0 * kmax * np.diag(IM))
    nb = np.floor(tau * vmax / (up - lo)) + 1.0
    return float((nb * (1.2 * gmax / T) * vmax).sum())


def ev_traj(case):
    R.self_test_gradients()
    d, T, n = case["d"], case["T"], case["n"]
    P = R.Potential(case["pot"], d)
    chain, IM, mclass, bx = make_chain(P, d, T, case["mass"], case["bounds"])
    Pf = R.Potential(case["pot"], d)
    free, _, _, _ = make_chain(Pf, d, T, case["mass"], "none")
    fails, slack, tags, skipped = [], {}, set(), {}
    nev = 0
    L = momentum_law(chain, d, mclass, fails, slack)
    if L is None:
        return {"fails": fails, "n": 1}
    # ---- kinetic energy of the chain vs the law the momenta are drawn from
    G = np.zeros((d, d))
    with lib("kinetic_energy"):
        kd = [float(chain.kinetic_energy(L[:, i].copy())) for i in range(d)]
        for i in range(d):
            for j in range(d):
                G[i, j] = kd[i] if i == j else float(chain.kinetic_energy(L[:, i] + L[:, j])) - kd[i] - kd[j]
    G = G + np.diag(kd)  # diagonal: 2K(L_i) = L_i^T M^-1 L_i
    condL = float(np.linalg.cond(L)) ** 2
    tolG = 64 * EPS * condL
    eG = float(np.abs(G - np.eye(d)).max())
    slack["L^T M^-1 L = I"] = eG / tolG
    if eG > tolG:
        fails.append(fail(f"kinetic/{mclass}/not-the-law-of-the-momenta", f"L^T M^-1 L = {G.tolist()} (M^-1 from chain.kinetic_energy, L from sample_momentum), expected I",
                          observed=G.tolist(), L=L.tolist()))
    # step size relative to the stiffest frequency
    wmax = math.sqrt(P.max_curvature(2.5) * float(np.linalg.eigvalsh(IM).max()) / T)
    eps = case["eps_rel"] / wmax
    bclass = {"none": "free", "wide": "bounded", "tight": "bounded"}[case["bounds"]]

    def H(t, r):
        return k_law(L, r) - P.logp(t) / T

    groups = {"wallfree": [], "folded": []}
    pts = lattice(d, L, case["seed"], case["quick"])
    worst_rev = {}
    for ip, (t0, r0) in enumerate(pts):
        # ---- classification with the unbounded twin at the three resolutions
        wf = True
        folded_now = False
        if bx is not None:
            for kk in (1, 2, 4):
                free.ES.epsilon = eps / kk
                Pf.glog.clear()
                Pf.record = True
                leap(free, t0, r0, n * kk)
                Pf.record = False
                out = not inside_all(Pf.glog, bx)
                if out:
                    wf = False
                if kk == 1:
                    folded_now = out
        cls = f"{bclass}{'-folded' if folded_now else ''}+{mclass}"
        # ---- reversibility
        chain.ES.epsilon = eps
        t1, r1 = leap(chain, t0, r0, n)
        t2, r2 = leap(chain, t1, -r1, n)
        nev += 2
        if not (np.isfinite(t1).all() and np.isfinite(r1).all()):
            fails.append(fail(f"trajectory/{cls}/non-finite", f"t0={t0.tolist()} r0={r0.tolist()} eps={eps} n={n}"))
            continue
        scale = 1.0 + max(np.abs(t0).max(), np.abs(r0).max(), np.abs(t1).max(), np.abs(r1).max())
        erev = max(np.abs(t2 - t0).max(), np.abs(r2 + r0).max()) / scale
        slack[f"reversibility {cls}"] = max(slack.get(f"reversibility {cls}", 0.0), erev / TOL_REV)
        if erev > TOL_REV and erev > worst_rev.get(cls, (0,))[0]:
            worst_rev[cls] = (erev, t0, r0, t1, r1, t2, r2)
        # ---- the chain's own Hamiltonian is the one of the momentum law
        if ip < 4:
            with lib("hamiltonian"):
                hc = float(chain.hamiltonian(t1.copy(), r1.copy()))
            eh = abs(hc - H(t1, r1)) / (64 * EPS * condL * (1.0 + abs(hc) + k_law(L, r1)))
            slack["chain.hamiltonian = K_law - logp/T"] = max(slack.get("chain.hamiltonian = K_law - logp/T", 0.0), eh)
            if eh > 1 and not any(f["key"].startswith("kinetic/") for f in fails):
                fails.append(fail(f"kinetic/{mclass}/hamiltonian-differs", f"chain.hamiltonian(t,r)={hc!r}, K_law(r) - logp(t)/T = {H(t1, r1)!r} at t={t1.tolist()} r={r1.tolist()} T={T}"))
        # ---- energy
        h0 = H(t0, r0)
        dH = [H(t1, r1) - h0]
        for kk in (2, 4):
            chain.ES.epsilon = eps / kk
            a, b = leap(chain, t0, r0, n * kk)
            nev += 1
            dH.append(H(a, b) - h0)
        chain.ES.epsilon = eps
        groups["wallfree" if wf else "folded"].append((f"{bclass}+{mclass}" if wf else f"{bclass}-folded+{mclass}", dH, t0, r0))
        # ---- volume
        if d < 3 or ip % 2 == 0:
            hh = 1e-5
            tt = t0.copy()
            done = False
            for attempt in range(4):
                J1 = jac_det(chain, tt, r0, n, hh)
                J2 = jac_det(chain, tt, r0, n, 2 * hh)
                nev += 8 * d
                if np.abs(J1 - J2).max() <= 1e-5 * (1.0 + np.abs(J1).max()):
                    done = True
                    break
                # a stencil point straddles a fold (entries scale like 1/h): move the base point
                tt = t0 + (attempt + 1) * 3e-3 * np.array([1.0, -0.618, 0.382])[:d]
                skipped["det stencil moved off a fold"] = skipped.get("det stencil moved off a fold", 0) + 1
            if not done:
                skipped["det not measurable (stencil straddles folds)"] = skipped.get("det not measurable (stencil straddles folds)", 0) + 1
            else:
                det = abs(float(np.linalg.det(J1)))
                slack[f"volume {cls}"] = max(slack.get(f"volume {cls}", 0.0), abs(det - 1.0) / TOL_DET)
                if abs(det - 1.0) > TOL_DET:
                    fails.append(fail(f"volume/{cls}/det-not-1", f"|det dPhi/dz| = {det!r} at t0={tt.tolist()} r0={r0.tolist()} eps={eps!r} n={n}", observed=det))
                tags.add(f"volume {cls} d={d}")
        tags.add(f"{case['pot']} d={d} {cls} T={T} n={n} eps_rel={case['eps_rel']}")
    for cls, (erev, t0, r0, t1, r1, t2, r2) in worst_rev.items():
        fails.append(fail(f"reversibility/{cls}", f"t0={t0.tolist()} r0={r0.tolist()} eps={eps!r} n={n}: forward to t={t1.tolist()} r={r1.tolist()}, "
                          f"flip, forward again gives t={t2.tolist()} r={r2.tolist()} (error {erev:.3g}, allowed {TOL_REV})", t0=t0.tolist(), r0=r0.tolist(), eps=eps, n=n))
    # ---- energy oracles, aggregated over the lattice (a single trajectory may have a vanishing leading term)
    smooth = {}
    for ik, kk in enumerate((1, 2, 4)):
        allw = [abs(x[ik]) for (c2, x, a, b) in groups["wallfree"]]
        # size of the smooth (second-order) part: wall-free trajectories of this configuration, else eps^2 * typical energy
        smooth[kk] = max(allw) if allw else (case["eps_rel"] / kk) ** 2
    bycls = {}
    for grp, lst in groups.items():
        for cls, dH, t0, r0 in lst:
            bycls.setdefault((grp, cls), []).append(dH)
    for (grp, cls), lst in bycls.items():
        A = np.array(lst)
        E = np.sqrt((A * A).mean(axis=0))
        hs = 1.0 + abs(H(pts[0][0], pts[0][1]))
        if grp == "wallfree":
            if len(lst) < 2:
                skipped["energy ratio: fewer than 2 wall-free trajectories"] = skipped.get("energy ratio: fewer than 2 wall-free trajectories", 0) + 1
                continue
            if E[2] < 1e4 * EPS * hs:
                skipped["energy ratio: error at rounding level"] = skipped.get("energy ratio: error at rounding level", 0) + 1
                continue
            ratio = float(E[1] / E[2])
            mid = 0.5 * (RATIO[0] + RATIO[1])
            slack[f"energy ratio {cls}"] = max(slack.get(f"energy ratio {cls}", 0.0), abs(ratio - mid) / (0.5 * (RATIO[1] - RATIO[0])))
            if not (RATIO[0] <= ratio <= RATIO[1]):
                fails.append(fail(f"energy/{cls}/not-second-order", f"rms energy error over {len(lst)} wall-free trajectories: eps={eps!r}: {E[0]:.4g}, eps/2: {E[1]:.4g}, eps/4: {E[2]:.4g}; "
                                  f"ratio E(eps/2)/E(eps/4) = {ratio:.3f}, expected in {RATIO}", observed=E.tolist()))
            tags.add(f"energy-ratio {cls}")
        else:
            # every fold costs at most eps*|F_i|*|v_i| (the kick is lumped at the step ends while the wall is met inside the step);
            # the number of folds is bounded by the path length: |dH(eps/k)| <= 2*B*eps/k + smooth part
            worst = 0.0
            wcase = None
            for (dH, t0, r0) in [(x, a, b) for (c2, x, a, b) in groups["folded"] if c2 == cls]:
                Bc = first_order_constant(P, IM, T, bx, t0, r0, n * eps, H(t0, r0))
                for kk, v in zip((1, 2, 4), dH):
                    allowed = 2.0 * Bc * eps / kk + 10.0 * smooth[kk]
                    if abs(v) / allowed > worst:
                        worst, wcase = abs(v) / allowed, (kk, v, allowed, t0, r0)
            slack[f"energy first-order bound {cls}"] = max(slack.get(f"energy first-order bound {cls}", 0.0), worst)
            if worst > 1.0:
                kk, v, allowed, t0, r0 = wcase
                fails.append(fail(f"energy/{cls}/exceeds-first-order-bound", f"t0={t0.tolist()} r0={r0.tolist()} n*eps={n * eps!r}: energy error {v:.4g} at eps={eps / kk!r} "
                                  f"(allowed {allowed:.4g} = 2*B*eps + smooth part); rms over {len(lst)} folding trajectories eps, eps/2, eps/4: {E.tolist()}", observed=E.tolist()))
            tags.add(f"energy-folded {cls}")
    return {"fails": fails, "n": nev, "tags": tags, "slack": slack, "skipped": skipped,
            "sample": {"case": case, "eps": eps, "L": L.tolist(), "points": len(pts)}}



def ev_accept(case):
    """take_step with a scripted generator: the first proposal is accepted exactly when u <= exp(H0 - H1), H built
    from the kinetic energy of the law the momentum was drawn from."""
    d, T = case["d"], case["T"]
    fails, slack, tags = [], {}, set()
    nev = 0
    z1 = np.array(case["z1"], dtype=float)[:d]
    z2 = np.array([0.3, -0.4, 0.2])[:d]

    def fresh(us):
        P = R.Potential(case["pot"], d)
        chain, IM, mclass, bx = make_chain(P, d, T, case["mass"], case["bounds"], start=np.array(case["start"], dtype=float)[:d])
        wmax = math.sqrt(P.max_curvature(2.5) * float(np.linalg.eigvalsh(IM).max()) / T)
        chain.ES.epsilon = case["eps_rel"] / wmax
        chain.steps = case["steps"]
        return P, chain, mclass

    P, chain, mclass = fresh(None)
    L = momentum_law(chain, d, mclass, fails, slack)
    if L is None:
        return {"fails": fails, "n": 1}
    t0 = np.array(case["start"], dtype=float)[:d]

    def H(t, r):
        return k_law(L, r) - P.logp(t) / T

    def attempt_lengths(glog):
        starts = [i for i, g in enumerate(glog) if np.array_equal(g, t0)]
        if not starts or starts[0] != 0:
            raise HarnessError("cannot identify the proposals of take_step from the gradient calls")
        ends = starts[1:] + [len(glog)]
        return [e - b - 1 for b, e in zip(starts, ends)]

    # thresholds for every step count the jitter could choose
    thr = {}
    for m in range(1, 2 * case["steps"] + 1):
        a, b = leap(chain, t0, L @ z1, m)
        thr[m] = math.exp(min(H(t0, L @ z1) - H(a, b), 50.0))
    us = [0.0, 0.5, 0.999999]
    for m, a in thr.items():
        if a < 1.0:
            us += [a * (1 - 1e-6), a * (1 + 1e-6)]
    for u in sorted(set(us)):
        if not (0.0 <= u < 1.0):
            continue
        P, chain, mclass = fresh(None)
        chain.rng = R.VecRng([z1, z2, z2, z2], us=[u, 0.0, 0.0, 0.0])
        P.record = True
        with lib("take_step"):
            chain.take_step()
        P.record = False
        nev += 1
        new = np.array(chain.theta[-1], dtype=float)
        ns = attempt_lengths(P.glog)
        n1 = ns[0]
        a1, b1 = leap(chain, t0, L @ z1, n1)
        acc = math.exp(min(H(t0, L @ z1) - H(a1, b1), 50.0))
        accepted_first = len(ns) == 1
        if accepted_first:
            if np.abs(new - a1).max() > 1e-12 * (1 + np.abs(a1).max()):
                fails.append(fail(f"accept/{mclass}/recorded-point-is-not-the-proposal", f"u={u!r}: recorded {new.tolist()}, trajectory end {a1.tolist()}"))
                continue
        band = abs(u / acc - 1.0) <= 1e-9 if acc > 0 else False
        expect_accept = acc >= 1.0 or u <= acc
        tags.add(f"accept {mclass} T={T} first-proposal={'accepted' if accepted_first else 'rejected'} a{'>=' if acc >= 1 else '<'}1")
        if not band and expect_accept != accepted_first:
            fails.append(
                fail(f"accept/{mclass}/decision-not-exp(H0-H1)-of-the-momentum-law",
                     f"start {t0.tolist()}, momentum L z with z={z1.tolist()}, {n1} steps, T={T}: exp(H0-H1) = {acc!r} with K = |L^-1 r|^2/2; "
                     f"u={u!r} was {'accepted' if accepted_first else 'rejected'}", u=u, accept_probability=acc)
            )
    return {"fails": fails[:10], "n": nev, "tags": tags, "slack": slack}


def ev_fd(case):
    """no gradient supplied: chain.grad (the internal estimate) against the analytic gradient on a lattice with zero
    coordinates and wall points; density never evaluated outside the bounds; energy of its trajectories converges."""
    d, T = case["d"], case["T"]
    P = R.Potential(case["pot"], d)
    chain, IM, mclass, bx = make_chain(P, d, T, case["mass"], case["bounds"], use_grad=False)
    fails, slack, tags = [], {}, set()
    nev = 0
    bcl = "free" if bx is None else "bounded"
    if bx is None:
        coords = [[-0.4, 0.0, 1e-6, 0.55]] * d
    else:
        coords = [[float(bx[0][i]), -0.4, 0.0, 0.55, float(bx[1][i])] for i in range(d)]
    seen = set()
    gtol_max = 0.0
    for pt in itertools.product(*coords):
        t = np.array(pt, dtype=float)
        kind = "zero-coordinate" if (t == 0).any() else ("on-wall" if bx is not None and ((t == bx[0]) | (t == bx[1])).any() else "generic")
        P.plog.clear()
        P.record = True
        with lib("grad"):
            g = np.array(chain.grad(t.copy()), dtype=float)
        P.record = False
        nev += 1
        if bx is not None:
            bad = [q for q in P.plog if not ((q >= bx[0]) & (q <= bx[1])).all()]
            if bad and "out" not in seen:
                seen.add("out")
                fails.append(fail("fd/evaluates-density-outside-bounds", f"gradient estimate at t={t.tolist()} evaluated the posterior at {bad[0].tolist()!r}, "
                                  f"bounds [{bx[0].tolist()},{bx[1].tolist()}]", t=t.tolist()))
        true = P.dlogp(t)
        Hd = np.abs(np.diag(P.hess(t)))
        tol = 1e-3 * (np.abs(true) + Hd * (1.0 + np.abs(t)))
        gtol_max = max(gtol_max, float(tol.max()))
        with np.errstate(invalid="ignore"):
            err = np.abs(g - true) / tol
        worst = float(np.nanmax(err)) if np.isfinite(err).any() else math.inf
        if not np.isfinite(g).all():
            worst = math.inf
        if worst < math.inf:
            slack[f"fd gradient {kind}"] = max(slack.get(f"fd gradient {kind}", 0.0), worst)
        if worst > 1.0:
            # classify: exactly the tempered gradient?
            if np.isfinite(g).all() and T != 1.0 and np.abs(g - true / T).max() <= tol.max():
                key = "fd/gradient-is-tempered"
            elif not np.isfinite(g).all():
                key = f"fd/{kind}/non-finite"
            else:
                key = f"fd/{kind}/inaccurate"
            if key not in seen:
                seen.add(key)
                fails.append(fail(key, f"t={t.tolist()} T={T}: estimate {g.tolist()}, gradient of the log-density {true.tolist()} (allowed {tol.tolist()})", t=t.tolist(), observed=g.tolist(), expected=true.tolist()))
        tags.add(f"fd {case['pot']} d={d} {bcl} {kind} T={T}")
    # ---- trajectories of the gradient-free chain: energy converges (down to the accuracy of the estimate)
    L = momentum_law(chain, d, mclass, fails, slack)
    if case.get("traj", True) and L is not None:
        wmax = math.sqrt(P.max_curvature(2.5) * float(np.linalg.eigvalsh(IM).max()) / T)
        eps = case["eps_rel"] / wmax
        n = case["n"]
        dH = []
        vmax = 0.0
        for t0, r0 in lattice(d, L, case["seed"], True)[:: (1 if d < 3 else 3)]:
            h0 = k_law(L, r0) - P.logp(t0) / T
            row = []
            for kk in (1, 4):
                chain.ES.epsilon = eps / kk
                a, b = leap(chain, t0, r0, n * kk)
                nev += 1
                row.append(k_law(L, b) - P.logp(a) / T - h0)
            vmax = max(vmax, float(np.abs(IM @ r0).max()))
            dH.append(row)
        A = np.array(dH)
        if not np.isfinite(A).all():
            fails.append(fail(f"fd/trajectory/{bcl}/non-finite-energy", f"eps={eps!r} n={n} T={T} mass={mclass}"))
        else:
            E = np.sqrt((A * A).mean(axis=0))
            floor = 2.0 * n * eps * vmax * gtol_max / T  # work done by an admissible gradient error along the path
            allowed = CONV * E[0] + floor
            slack[f"fd energy convergence {bcl}"] = max(slack.get(f"fd energy convergence {bcl}", 0.0), float(E[1] / allowed))
            if E[1] > allowed:
                fails.append(fail(f"fd/trajectory/{bcl}/energy-not-convergent/{'T=1' if T == 1.0 else 'T>1'}", f"mass={mclass} T={T} n*eps={n * eps!r}: rms energy error {E[0]:.4g} at eps={eps!r}, {E[1]:.4g} at eps/4 "
                                  f"(allowed {allowed:.4g})", observed=E.tolist()))
            tags.add(f"fd-trajectory {bcl}+{mclass} T={T}")
    return {"fails": fails, "n": nev, "tags": tags, "slack": slack}


EVALUATORS = {"traj": ev_traj, "accept": ev_accept, "fd": ev_fd}

EPS_RELS = [0.01, 0.1, 0.3]
NS = [1, 2, 5, 20]
TS = [1.0, 2.5]
DS = [1, 2, 3]


# ----------------------------------------------------------------------------- histories: re-estimated mass, reload (added)
def ev_masshist(case):
    """After the mass is re-estimated from the samples (estimate_mass, diagonal or full) - and again after save -> load -
    the chain's trajectory map, kinetic energy and momentum law must be exactly those of a FRESH chain constructed with
    that inverse mass: one consistent mass everywhere (the statement's 'kinetic energy ... is the one under which the
    momenta are drawn', for every accepted mass specification, at any point of a chain's life)."""
    import os
    import tempfile

    from inference.mcmc import HamiltonianChain

    d, T, diagonal, bounded, steps0 = case["d"], case["T"], case["diagonal"], case["bounded"], case["steps"]
    A = np.array([[2.0, 0.6, 0.1], [0.6, 1.0, -0.2], [0.1, -0.2, 1.5]])[:d, :d]

    def post(t):
        return -0.5 * float(t @ A @ t) - 0.05 * float((t ** 4).sum())

    def grad(t):
        return -(A @ t) - 0.2 * t ** 3

    lo, hi = np.full(d, -1.6), np.full(d, 1.9)
    fails, tags = [], set()
    n = 0

    def build(inv_mass=None):
        kw = {}
        if inv_mass is not None:
            kw["inverse_mass"] = inv_mass
        if bounded:
            kw["bounds"] = (lo.copy(), hi.copy())
        c = HamiltonianChain(posterior=post, grad=grad, start=np.array([0.3, -0.2, 0.5])[:d], temperature=T, epsilon=0.25, display_progress=True, **kw)
        c.steps = 4
        return c

    with lib("construct"):
        ch = build()
    ch.rng = np.random.default_rng(case["seed"])
    with lib("advance"):
        for _ in range(steps0):
            ch.take_step()
    with lib("estimate_mass"):
        ch.estimate_mass(burn=0, diagonal=diagonal)
        im = np.array(ch.mass.inv_mass, dtype=float, copy=True)
    objs = [("after-estimate_mass", ch)]
    fd, path = tempfile.mkstemp(suffix=".npz")
    os.close(fd)
    try:
        with lib("save-load"):
            ch.save(path)
            objs.append(("after-estimate_mass+reload", HamiltonianChain.load(path, posterior=post, grad=grad)))
    finally:
        os.unlink(path)
    with lib("fresh"):
        fresh = build(inv_mass=im.copy())
    pts = [(np.array([0.2, -0.4, 0.7])[:d], np.array([1.0, -0.6, 0.4])[:d]), (np.array([-0.9, 0.8, 0.1])[:d], np.array([-0.5, 1.2, -1.0])[:d])]
    for label, obj in objs:
        obj.ES.epsilon = fresh.ES.epsilon = 0.2
        for t0, r0 in pts:
            for nst in (1, 3, 7):
                a1, b1 = leap(obj, t0, r0, nst)
                a2, b2 = leap(fresh, t0, r0, nst)
                n += 2
                if not (np.allclose(a1, a2, rtol=1e-12, atol=1e-14) and np.allclose(b1, b2, rtol=1e-12, atol=1e-14)):
                    fails.append(fail(f"history/{label}/{'diagonal' if diagonal else 'full'}-mass/trajectory-differs-from-fresh-chain-with-that-mass",
                                      f"n={nst}: end point {a1.tolist()} vs {a2.tolist()}", config=case))
                    break
            with lib("kinetic_energy"):
                k1, k2 = float(obj.kinetic_energy(r0.copy())), float(fresh.kinetic_energy(r0.copy()))
            if abs(k1 - k2) > 1e-12 * (1 + abs(k2)):
                fails.append(fail(f"history/{label}/{'diagonal' if diagonal else 'full'}-mass/kinetic-energy-differs-from-fresh-chain-with-that-mass", f"{k1!r} vs {k2!r}", config=case))
        # momentum law: same draws from the same generator state
        g1, g2 = np.random.default_rng(5), np.random.default_rng(5)
        with lib("sample_momentum"):
            m1, m2 = np.array(obj.mass.sample_momentum(g1)), np.array(fresh.mass.sample_momentum(g2))
        if not np.allclose(m1, m2, rtol=1e-12, atol=1e-14):
            fails.append(fail(f"history/{label}/{'diagonal' if diagonal else 'full'}-mass/momentum-law-differs-from-fresh-chain-with-that-mass", f"{m1.tolist()} vs {m2.tolist()}", config=case))
        tags.add(f"masshist:{label}:{'diagonal' if diagonal else 'full'}:d={d}:bounded={bounded}")
    return {"fails": fails[:6], "n": n, "tags": tags}


EVALUATORS["masshist"] = ev_masshist


# ----------------------------------------------------------------------------- steep log-densities (added)
def ev_steep(case):
    """Narrow log-densities (standard deviation 1e-4 .. 1e-8, gradients of 1e4 .. 1e16) with a matching inverse mass: the
    unbounded trajectory map is still reversible and its energy error still shrinks fourfold when the step is halved."""
    from inference.mcmc import HamiltonianChain

    d, sdv, T = case["d"], case["sd"], case["T"]
    A = np.array([1.0, 2.5, 0.4])[:d] / sdv ** 2
    mu = np.array([0.2, -0.1, 0.3])[:d]

    def post(t):
        z = np.asarray(t, dtype=float) - mu
        return -0.5 * float((A * z * z).sum())

    def grad(t):
        return -A * (np.asarray(t, dtype=float) - mu)

    fails, tags, slack = [], set(), {}
    n = 0
    with lib("HamiltonianChain"):
        ch = HamiltonianChain(posterior=post, grad=grad, start=mu + 0.3 * sdv, temperature=T, inverse_mass=np.full(d, sdv ** 2) if d > 1 else float(sdv ** 2), display_progress=True)
    for t0s, r0s in ((np.array([0.7, -1.1, 0.4])[:d], np.array([1.0, 0.6, -0.8])[:d]), (np.array([-1.5, 0.2, 2.0])[:d], np.array([-0.3, 1.4, 0.5])[:d])):
        t0 = mu + t0s * sdv
        r0 = r0s / sdv  # momenta have scale 1/sd under inverse mass sd^2

        def H(t, r):
            return 0.5 * float((r * r).sum()) * sdv ** 2 - post(t) / T

        errs = []
        for eps, nst in ((0.2, 6), (0.1, 12), (0.05, 24)):
            ch.ES.epsilon = eps * math.sqrt(T)
            a, b = leap(ch, t0, r0, nst)
            n += 1
            errs.append(abs(H(a, b) - H(t0, r0)))
            ab, bb = leap(ch, a, -b, nst)
            n += 1
            rev = max(np.abs(ab - t0).max() / sdv, np.abs(bb + r0).max() * sdv)
            slack["steep-reversibility"] = max(slack.get("steep-reversibility", 0.0), rev / 1e-8)
            if rev > 1e-8:
                fails.append(fail("steep/reversibility", f"sd={sdv:g} d={d} T={T}: forward, flip, forward misses the start by {rev:.3g} (in units of the width)", config=case))
        # second order means a factor 16 over two halvings; the error of ONE end point oscillates with the phase, so only a
        # factor 6 is demanded here (the fourfold ratio proper is asserted on rms errors by the trajectory evaluator)
        if errs[0] > 1e-9 and not errs[2] <= errs[0] / 6.0:
            fails.append(fail("steep/energy-error-does-not-shrink-with-the-step", f"sd={sdv:g} d={d} T={T}: energy errors {errs} at steps 0.2, 0.1, 0.05", config=case))
        if errs[0] > 0.5:
            fails.append(fail("steep/energy-error-large", f"sd={sdv:g} d={d} T={T}: energy error {errs[0]:.3g} at step 0.2 of the period scale", config=case))
    tags.add(f"steep:sd={sdv:g}:d={d}:T={T}")
    return {"fails": fails[:4], "n": n, "tags": tags, "slack": slack}


EVALUATORS["steep"] = ev_steep


def run(ck):
    seed, quick = ck.seed, ck.quick
    # ---- trajectories
    cases = []
    k = 0
    for d in DS:
        for mass in R.MASSES:
            for b in R.BOUNDS:
                if quick:
                    # quick: every (d, mass, bounds) with 4 (d=3: 2) of the 96 combinations of the other four axes, rotated by seed
                    for j in range(4 if d < 3 else 2):
                        k += 1
                        idx = (seed * 37 + k * 13 + j * 29) % 96
                        pot, er, T = R.POTENTIALS[idx % 4], EPS_RELS[(idx // 4) % 3], TS[(idx // 12) % 2]
                        n = ([5, 20, 5, 20] if b == "tight" else NS)[(idx // 24) % 4]
                        cases.append({"pot": pot, "d": d, "T": T, "n": n, "mass": mass, "bounds": b, "eps_rel": er, "seed": seed, "quick": True})
                else:
                    for pot in R.POTENTIALS:
                        for er in EPS_RELS:
                            for n in NS:
                                for T in TS:
                                    cases.append({"pot": pot, "d": d, "T": T, "n": n, "mass": mass, "bounds": b, "eps_rel": er, "seed": seed, "quick": False})
    # simplest first (the first counterexample recorded is then the smallest)
    cases.sort(key=lambda c: (c["d"], c["n"], R.MASSES.index(c["mass"]), R.BOUNDS.index(c["bounds"])))
    ck.run_cases("traj", cases, chunk=1)
    ck.run_cases("steep", [dict(d=d, sd=sd, T=T) for d in (1, 2, 3) for sd in (1e-4, 1e-6, 1e-8) for T in (1.0, 2.5)])
    ck.run_cases("masshist", [dict(d=d, T=T, diagonal=dg, bounded=b, steps=st, seed=3 + ck.seed) for d in (1, 2, 3) for T in (1.0, 2.5) for dg in (True, False)
                              for b in (False, True) for st in ((12,) if ck.quick else (6, 12, 40)) if not (d == 1 and not dg)], chunk=2)
    # ---- acceptance rule
    acases = []
    k = 0
    for d in DS:
        for mass in R.MASSES:
            for b in (["none", "tight"] if not quick else [["none", "tight"][(seed + d + R.MASSES.index(mass)) % 2]]):
                for T in TS:
                    k += 1
                    pots = R.POTENTIALS if not quick else [R.POTENTIALS[(seed + k) % 4]]
                    for pot in pots:
                        acases.append({"pot": pot, "d": d, "T": T, "mass": mass, "bounds": b, "steps": 5, "eps_rel": 0.35,
                                       "z1": [[1.1, -0.8, 0.6], [-0.5, 1.4, -1.0]][(seed + k) % 2], "start": [0.1, -0.4, 0.55]})
    ck.run_cases("accept", acases, chunk=1)
    # ---- gradient-free chains
    fcases = []
    k = 0
    for d in DS:
        for b in R.BOUNDS:
            for T in TS:
                for pot in R.POTENTIALS:
                    k += 1
                    masses = R.MASSES if not quick else [R.MASSES[(seed + k) % 5]]
                    for mass in masses:
                        # trajectories of the gradient-free chain only where no wall is met (folds are the business of "traj")
                        fcases.append({"pot": pot, "d": d, "T": T, "mass": mass, "bounds": b, "eps_rel": 0.3, "n": 5, "seed": seed, "traj": b != "tight"})
    ck.run_cases("fd", fcases, chunk=1)
    # vacuity guards: folds, wall-free ratios, both outcomes of the acceptance rule and zero coordinates must have been exercised
    for needle in ("bounded-folded+", "energy-ratio free+", "energy-folded bounded-folded+", "volume bounded-folded+", "first-proposal=accepted", "first-proposal=rejected", "zero-coordinate", "on-wall"):
        if not ck.fails and not any(needle in t for t in ck.tags):  # (with violations on record the run is not vacuous)
            raise HarnessError(f"vacuous exploration: no case exercised '{needle}'")
    ck.rule = (
        "potential {diag, corr, quartic, sharp(log cosh)} x d {1,2,3} x step (relative to the stiffest frequency) {.01,.1,.3} x n {1,2,5,20} x T {1,2.5} x "
        "mass {default, scalar .3, vector, matrix-diagonal, matrix-full} x bounds {none, wide, tight}; thorough = full product, quick = every (d, mass, bounds) "
        "with 4 (d=3: 2) seed-rotated combinations of the remaining axes (and, for d=3, half of the momentum lattice); per configuration the lattice (t0 in {-.4,.1,.55}^d) x (r0 = L z, z in {-1.2,.7}^d scaled per axis) "
        "(d=3: the third of the t0 lattice with index sum = seed mod 3). A configuration is distinct by (potential, d, wall class free/bounded/bounded-folded, mass class, T, n, step); "
        "wall-free vs folded is decided with the unbounded twin of the chain at eps, eps/2, eps/4. accept: scripted generator, u on both sides (1e-6) of every threshold; "
        "fd: gradient lattice {-.4,0,1e-6,.55}^d (free) / {lower,-.4,0,.55,upper}^d (bounded)."
    )
    ck.assume("step sizes are relative to the stiffest frequency of the configuration (eps*w <= 0.3), so the eps^2 regime is reached; energy ratio measured between eps/2 and eps/4")
    ck.assume("eps^2 is asserted on wall-free trajectories; on folding trajectories the error is bounded by the derived first-order constant 2*B*eps (a wall met inside a step is first order for any step-granular integrator)")
    ck.assume("volume: central differences with h=1e-5 and 2e-5; a stencil straddling a fold is moved by up to 3 x 3e-3 and otherwise counted as skipped")
    ck.assume("finite-difference lattice does not contain non-zero coordinates below 1e-6 in magnitude; reversibility is not asserted for gradient-free chains (round-off of the estimate is not a smooth function of the position)")
    ck.assume("accept: the proposals of one take_step are identified from the gradient calls (a trajectory starts with a gradient at the current point)")
