"""C13 – sample_hdi returns the shortest interval holding the requested fraction.

Engine D: every sample in A^n (A a 4- or 5-letter value alphabet, n = 2..7/8) x fractions,
brute-force oracle over all pairs of sample values; 2-D inputs, permutations, dtypes,
containers, affine maps, input immutability.
"""
import bisect
import itertools

import numpy as np

from mc.core import fail, lib

LEVEL = "exploration"

FRACTIONS = [0.05, 0.1, 0.2, 1.0 / 3.0, 0.5, 0.68, 0.9, 0.95, 0.999]
ALPHABETS = [
    [0.0, 1.0, 2.0, 3.0],
    [0.1, 0.7, 1.3, 2.9],
    [-1.5, 0.0, 0.25, 7.0],
    [-3.0, -1.0, 1e-3, 1e3],
]


def brute(sample, f):
    """All pairs (a<=b) of sample values: (width, count of sample points in [a,b])."""
    s = sorted(float(v) for v in sample)
    n = len(s)
    out = []
    for i in range(n):
        a = s[i]
        first = bisect.bisect_left(s, a)
        for j in range(i, n):
            b = s[j]
            out.append((b - a, bisect.bisect_right(s, b) - first))
    return out


def check_interval(sample, f, lo, hi, tag, tol=0.0):
    """The three clauses of the statement for one reported interval; returns list of fails."""
    s = np.asarray(sample, dtype=float)
    fails = []
    if not (np.any(s == lo) and np.any(s == hi)):
        fails.append(fail(f"{tag}/endpoints-not-sample-values", f"interval [{lo},{hi}] of {sample} f={f}", sample=list(sample), fraction=f))
        return fails
    cnt = int(((s >= lo) & (s <= hi)).sum())
    if cnt < f * len(s) - 1e-12:
        fails.append(fail(f"{tag}/holds-less-than-fraction", f"[{lo},{hi}] holds {cnt}/{len(s)} < {f}", sample=list(sample), fraction=f))
    w = hi - lo
    best = min(wd for wd, c in brute(sample, f) if c >= cnt)
    if best < w - tol:
        fails.append(fail(f"{tag}/not-shortest", f"[{lo},{hi}] width {w} but width {best} holds as many ({cnt})", sample=list(sample), fraction=f))
    return fails


def ev_block(case):
    from inference.pdf.hdi import sample_hdi

    A = case["alphabet"]
    n = case["n"]
    prefix = case["prefix"]
    fails, tags, nev = [], set(), 0
    for rest in itertools.product(range(len(A)), repeat=n - len(prefix)):
        idx = list(prefix) + list(rest)
        sample = [A[i] for i in idx]
        arr = np.array(sample)
        for f in case["fractions"]:
            before = arr.copy()
            with lib("sample_hdi-1d"):
                r = sample_hdi(arr, f)
            nev += 1
            if not (arr == before).all():
                fails.append(fail("hdi1d/input-modified", f"{sample} f={f}", sample=sample, fraction=f))
            r = np.asarray(r)
            if r.shape != (2,):
                fails.append(fail("hdi1d/shape", f"shape {r.shape}", sample=sample, fraction=f))
                continue
            fs = check_interval(sample, f, float(r[0]), float(r[1]), "hdi1d")
            fails += fs
            L = int(f * n)
            ties = len(set(sample)) < n
            tags.add(f"n={n},L={L},ties={ties},zero_width={r[0]==r[1]}")
    return {"fails": fails[:20], "n": nev, "tags": tags, "sample": {"sample": sample, "fraction": f, "interval": r.tolist()}}


def ev_variants(case):
    """permutations, 2-D columns, dtypes/containers, affine maps for one multiset."""
    from inference.pdf.hdi import sample_hdi

    sample = case["sample"]
    n = len(sample)
    fails, tags, nev = [], set(), 0
    arr = np.array(sample, dtype=float)
    for f in case["fractions"]:
        with lib("sample_hdi-1d"):
            base = np.asarray(sample_hdi(arr.copy(), f))
        # permutations
        perms = itertools.permutations(range(n)) if n <= 5 else [np.roll(range(n), k) for k in range(n)] + [list(range(n))[::-1]]
        for p in perms:
            q = arr[list(p)]
            with lib("sample_hdi-perm"):
                r = np.asarray(sample_hdi(q, f))
            nev += 1
            if not np.array_equal(r, base):
                fails.append(fail("perm/result-depends-on-order", f"{q.tolist()} -> {r.tolist()} vs {base.tolist()}", sample=q.tolist(), fraction=f))
                break
        tags.add(f"perm,n={n}")
        # containers / dtypes
        for name, obj in (
            ("list", [float(v) for v in sample]),
            ("tuple", tuple(float(v) for v in sample)),
            ("float32", arr.astype(np.float32)),
        ):
            with lib(f"sample_hdi-{name}"):
                r = np.asarray(sample_hdi(obj, f), dtype=float)
            nev += 1
            if name == "float32":
                # widths are formed in float32 by the code: ties may resolve differently than in float64, so the
                # statement's clauses are checked directly with a float32-rounding allowance instead of equality
                s32 = arr.astype(np.float32).astype(float)
                fails += check_interval(s32.tolist(), f, float(r[0]), float(r[1]), "container/float32", tol=4 * float(np.spacing(np.float32(np.abs(s32).max() + 1))))
            elif not np.array_equal(r, base):
                fails.append(fail(f"container/{name}-differs", f"{sample} f={f}: {r.tolist()} vs {base.tolist()}", sample=sample, fraction=f))
            tags.add(f"container={name}")
        if all(float(v).is_integer() for v in sample):
            for name, obj in (("int64", arr.astype(np.int64)), ("intlist", [int(v) for v in sample])):
                before = obj.copy() if hasattr(obj, "copy") else list(obj)
                with lib(f"sample_hdi-{name}"):
                    r = np.asarray(sample_hdi(obj, f), dtype=float)
                nev += 1
                if not np.array_equal(r, base):
                    fails.append(fail(f"container/{name}-differs", f"{sample} f={f}: {r.tolist()} vs {base.tolist()}", sample=sample, fraction=f))
                if not np.array_equal(np.asarray(before), np.asarray(obj)):
                    fails.append(fail(f"container/{name}-input-modified", f"{sample}", sample=sample, fraction=f))
                tags.add(f"container={name}")
        # affine maps: width scales, result valid on the mapped sample
        for a in (0.5, 2.0, 1024.0):
            for b in (-3.0, 1e6):
                m = a * arr + b
                with lib("sample_hdi-affine"):
                    r = np.asarray(sample_hdi(m, f))
                nev += 1
                fs = check_interval(m.tolist(), f, float(r[0]), float(r[1]), "affine")
                fails += fs
                exp = a * base + b
                if not np.allclose(r, exp, rtol=0, atol=1e-9 * max(1.0, abs(b))):
                    # a different, equally short interval is acceptable only if widths tie
                    if abs((r[1] - r[0]) - a * (base[1] - base[0])) > 1e-9 * max(1.0, abs(b)):
                        fails.append(fail("affine/not-covariant", f"{sample} a={a} b={b}: {r.tolist()} vs {exp.tolist()}", sample=sample, fraction=f))
                tags.add(f"affine a={a} b={b}")
    return {"fails": fails[:20], "n": nev, "tags": tags}


def ev_columns(case):
    """2-D input: all tuples of columns drawn from the listed samples."""
    from inference.pdf.hdi import sample_hdi

    cols = case["columns"]
    fails, tags, nev = [], set(), 0
    for k in (1, 2, 3):
        for combo in itertools.product(range(len(cols)), repeat=k):
            if k == 3 and combo[0] > combo[1]:
                continue
            M = np.array([cols[c] for c in combo], dtype=float).T  # (n, k)
            for f in case["fractions"]:
                before = M.copy()
                with lib("sample_hdi-2d"):
                    R = np.asarray(sample_hdi(M, f))
                nev += 1
                if not np.array_equal(M, before):
                    fails.append(fail("hdi2d/input-modified", f"{M.tolist()}", columns=[cols[c] for c in combo], fraction=f))
                R2 = R.reshape(2, k) if R.size == 2 * k else None
                if R2 is None or (k > 1 and R.shape != (2, k)):
                    fails.append(fail("hdi2d/shape", f"shape {R.shape} for input {M.shape}", columns=[cols[c] for c in combo], fraction=f))
                    continue
                for jj, c in enumerate(combo):
                    with lib("sample_hdi-1d"):
                        r1 = np.asarray(sample_hdi(np.array(cols[c], dtype=float), f))
                    if not np.array_equal(R2[:, jj], r1):
                        fails.append(fail("hdi2d/column-differs-from-1d", f"col {jj} of {M.tolist()} f={f}: {R2[:, jj].tolist()} vs {r1.tolist()}", columns=[cols[c] for c in combo], fraction=f))
                tags.add(f"2d k={k} n={M.shape[0]}")
    return {"fails": fails[:20], "n": nev, "tags": tags}


# ---------------------------------------------------------------------------------------------------------------
# call histories over every container form: the result depends on the CURRENT contents of what is passed, only
# ---------------------------------------------------------------------------------------------------------------
INT_FORMS = ("i1", "i2", "i4", "i8", "u1", "u2", "u4", "u8")
FLOAT_FORMS = ("f8", "f4", "f2", "longdouble")
FORMS_1D = (
    ["list", "tuple", "list-npscalars"]
    + list(FLOAT_FORMS)
    + ["f8-strided", "f8-negstride", "f8-column-of-2d", "f8-readonly-view", "f4-strided"]
    + list(INT_FORMS)
    + ["i8-strided", "intlist"]
)
FORMS_2D = (
    ["nested-lists", "nested-tuples", "list-of-tuples", "tuple-of-lists", "list-of-arrays", "tuple-of-arrays"]
    + ["f8-C", "f8-F", "f8-transposed-view", "f8-strided", "f8-negstride", "f8-readonly-view", "f4-C", "f4-F", "f2-C", "longdouble-C"]
    + [d + "-C" for d in INT_FORMS]
    + ["i8-F", "i4-strided", "nested-intlists"]
)
HISTORY_OPS = ("none", "rescale", "shift", "refill", "reverse", "sort", "other-call")
HISTORY_FRACTIONS = [0.5, 0.2, 0.68, 1.0 / 3.0, 0.95]
_DT = {"f8": np.float64, "f4": np.float32, "f2": np.float16, "longdouble": np.longdouble, "i1": np.int8, "i2": np.int16, "i4": np.int32,
       "i8": np.int64, "u1": np.uint8, "u2": np.uint16, "u4": np.uint32, "u8": np.uint64}


def form_is_int(form):
    return form.split("-")[0] in INT_FORMS or "int" in form


class Held:
    """One container form holding a 1-D (n,) or 2-D (n,k) sample: `obj` is what is passed to sample_hdi, `write(values)`
    replaces the contents IN PLACE (same object identity), `read()` gives the current contents as a float array."""

    def __init__(self, form, values):
        v = np.array(values)
        self.form = form
        self.dim = v.ndim
        head = form.split("-")[0]
        self.mutable = True
        self.arrays = None  # the ndarray(s) through which in-place edits are made
        if head in _DT:
            dt = _DT[head]
            lay = form[len(head) + 1 :]
            if lay in ("", "C"):
                a = np.array(v, dtype=dt, order="C")
                tgt = a
            elif lay == "F":
                a = np.array(v, dtype=dt, order="F")
                tgt = a
            elif lay == "strided":
                big = np.zeros(tuple(2 * s + 1 for s in v.shape), dtype=dt)
                a = big[tuple(slice(1, None, 2) for _ in v.shape)]
                a[...] = v
                tgt = a
            elif lay == "negstride":
                big = np.array(v[::-1], dtype=dt)
                a = big[::-1]
                tgt = a
            elif lay == "transposed-view":
                big = np.array(v.T, dtype=dt, order="C")
                a = big.T
                tgt = a
            elif lay == "column-of-2d":
                big = np.zeros((v.shape[0], 3), dtype=dt)
                a = big[:, 1]
                a[...] = v
                tgt = a
            elif lay == "readonly-view":
                tgt = np.array(v, dtype=dt)
                a = tgt.view()
                a.flags.writeable = False
            else:
                raise ValueError(form)
            assert a.shape == v.shape
            self.obj, self.arrays = a, tgt
        elif form in ("list", "intlist"):
            self.obj = [int(x) if form == "intlist" else float(x) for x in v]
        elif form == "tuple":
            self.obj = tuple(float(x) for x in v)
            self.mutable = False
        elif form == "list-npscalars":
            self.obj = [np.float64(x) for x in v]
        elif form in ("nested-lists", "nested-intlists"):
            self.obj = [[int(x) if "int" in form else float(x) for x in row] for row in v]
        elif form == "nested-tuples":
            self.obj = tuple(tuple(float(x) for x in row) for row in v)
            self.mutable = False
        elif form == "list-of-tuples":
            self.obj = [tuple(float(x) for x in row) for row in v]
        elif form == "tuple-of-lists":
            self.obj = tuple([float(x) for x in row] for row in v)
        elif form in ("list-of-arrays", "tuple-of-arrays"):
            rows = [np.array(row, dtype=float) for row in v]
            self.obj = rows if form.startswith("list") else tuple(rows)
        else:
            raise ValueError(form)

    def read(self):
        if self.arrays is not None:
            return np.array(self.obj, dtype=float)
        return np.array([list(r) for r in self.obj] if self.dim == 2 else list(self.obj), dtype=float)

    def snapshot(self):
        return self.read().tolist()

    def write(self, new):
        """contents <- new, keeping the identity of the outer object (and of inner mutable objects where they exist)"""
        if self.arrays is not None:
            self.arrays[...] = new
            return
        conv = (lambda x: int(x)) if "int" in self.form else (lambda x: float(x))
        if self.dim == 1:
            for i, x in enumerate(new):
                self.obj[i] = np.float64(x) if self.form == "list-npscalars" else conv(x)
            return
        for i, row in enumerate(new):
            r = self.obj[i]
            if isinstance(r, np.ndarray):
                r[...] = row
            elif isinstance(r, list):
                for j, x in enumerate(row):
                    r[j] = conv(x)
            else:  # immutable row inside a mutable list
                self.obj[i] = tuple(conv(x) for x in row)

    def apply(self, op, a, b, refill):
        """one in-place edit; arrays are edited with the numpy in-place operators a caller would use"""
        A = self.arrays
        if op == "rescale":
            if A is not None:
                A *= A.dtype.type(a)
            else:
                self.write(self.read() * a)
        elif op == "shift":
            if A is not None:
                A += A.dtype.type(b)
            else:
                self.write(self.read() + b)
        elif op == "refill":
            self.write(np.array(refill))
        elif op == "reverse":
            if A is not None:
                A[...] = A[::-1].copy()
            elif isinstance(self.obj, list):
                self.obj.reverse()  # 2-D: the row objects change places
            else:
                self.write(self.read()[::-1])
        elif op == "sort":
            if A is not None:
                A.sort(axis=0)
            elif self.dim == 1:
                self.obj.sort()
            else:
                self.write(np.sort(self.read(), axis=0))
        else:
            raise ValueError(op)


def width_tol(form, cur):
    """widths are formed in the sample's own floating type: allow that type's rounding of a width (0 for float64 / integers)"""
    head = form.split("-")[0]
    if head in ("f4", "f2", "longdouble"):
        dt = np.float64 if head == "longdouble" else _DT[head]
        return 4 * float(np.spacing(dt(np.abs(cur).max() + 1)))
    return 0.0


def check_result(held, f, r, tagbase, what):
    """shape + the statement's three clauses per column, on the current contents of the held container"""
    cur = held.read()
    fails = []
    r = np.asarray(r, dtype=float)
    k = 1 if cur.ndim == 1 else cur.shape[1]
    want = (2,) if k == 1 else (2, k)
    if r.shape != want:
        return [fail(f"{tagbase}/shape", f"{what}: result shape {r.shape}, expected {want}", contents=cur.tolist(), fraction=f)]
    cols = cur.reshape(cur.shape[0], k)
    R = r.reshape(2, k)
    tol = width_tol(held.form, cur)
    for j in range(k):
        fs = check_interval(cols[:, j].tolist(), f, float(R[0, j]), float(R[1, j]), tagbase, tol=tol)
        for x in fs:
            x["what"] = f"{what} column {j}: " + x["what"]
            x["contents"] = cur.tolist()
        fails += fs
    return fails


def ev_history(case):
    """Same object passed repeatedly with in-place edits in between, for one container form.  After every call the result
    must be the interval of the contents the object holds AT THAT CALL (brute-force oracle) and the call must not have
    changed them."""
    from inference.pdf.hdi import sample_hdi

    form, A, depth = case["form"], case["alphabet"], case["depth"]
    a, b = case["scale"], case["shift"]
    fails, tags, nev = [], set(), 0
    kind = "ndarray" if form.split("-")[0] in _DT else "sequence"
    key = f"history/{case['dim']}d-{kind}"  # the form itself is named in `what`
    hists = [()]
    for d in range(1, depth + 1):
        hists += list(itertools.product(HISTORY_OPS, repeat=d))
    for si, idx in enumerate(case["samples"]):
        base = np.array(A)[np.array(idx)]
        # the refill contents: another sample of the same shape over the same alphabet (letters advanced position-wise)
        ref = np.array(A)[(np.array(idx) + 1 + np.arange(np.array(idx).size).reshape(np.array(idx).shape)) % len(A)]
        probe = Held(form, base.tolist())
        for hi, hist in enumerate(hists):
            if not probe.mutable and any(op not in ("none", "other-call") for op in hist):
                continue
            h = Held(form, base.tolist())
            trail = []
            for step in range(len(hist) + 1):
                if step > 0:
                    op = hist[step - 1]
                    if op == "other-call":
                        o = Held(form, ref.tolist())
                        fo = HISTORY_FRACTIONS[(hi + step + 2) % len(HISTORY_FRACTIONS)]
                        with lib(f"sample_hdi-history-{case['dim']}d-{kind}"):
                            ro = sample_hdi(o.obj, fo)
                        nev += 1
                        fails += check_result(o, fo, ro, key, f"form {form}, call on a second object after {trail}")
                    elif op != "none":
                        h.apply(op, a, b, ref.tolist())
                    trail.append(op)
                f = HISTORY_FRACTIONS[(hi + step + si) % len(HISTORY_FRACTIONS)]
                before = h.snapshot()
                with lib(f"sample_hdi-history-{case['dim']}d-{kind}"):
                    r = sample_hdi(h.obj, f)
                nev += 1
                if h.snapshot() != before:
                    fails.append(fail(f"{key}/input-modified", f"form {form}: contents {before} changed by the call (history {trail})", history=trail, fraction=f))
                fails += check_result(h, f, r, key, f"form {form}, start {base.tolist()}, history {trail}, f={f}")
                if len(fails) >= 20:
                    return {"fails": fails[:20], "n": nev, "tags": tags}
            tags.add(f"history {case['dim']}d form={form} calls={len(hist) + 1} last={hist[-1] if hist else 'single-call'}")
    return {"fails": fails[:20], "n": nev, "tags": tags}


def ev_dtype_range(case):
    """integer samples using the whole range of their type (the width of an interval need not fit the type)"""
    from inference.pdf.hdi import sample_hdi

    dt = _DT[case["dtype"]]
    info = np.iinfo(dt)
    lo, hi = int(info.min), int(info.max)
    letters = [lo, lo // 2 if lo else hi // 4, 0 if lo else hi // 2, hi // 2 + 1 if lo else hi - 1, hi]
    if case["dtype"] == "i8":  # 64-bit: letters (and all their differences) that a float64 holds exactly, so the statement is unambiguous
        letters = [-(2 ** 63), -(2 ** 62), 0, 2 ** 62 + 2048, 2 ** 63 - 2048]
    elif case["dtype"] == "u8":
        letters = [0, 2 ** 62, 2 ** 63, 2 ** 63 + 2 ** 62 + 2048, 2 ** 64 - 2048]
    fails, tags, nev = [], set(), 0
    for n in case["ns"]:
        for idx in itertools.product(range(len(letters)), repeat=n):
            vals = [letters[i] for i in idx]
            for two_d in (False, True):
                arr = np.array(vals, dtype=dt)
                if two_d:
                    arr = np.stack([arr, arr[::-1]], axis=1)
                for f in case["fractions"]:
                    with lib(f"sample_hdi-{case['dtype']}-full-range"):
                        r = np.asarray(sample_hdi(arr, f), dtype=float)
                    nev += 1
                    cols = arr.reshape(n, -1)
                    R = r.reshape(2, -1)
                    for j in range(cols.shape[1]):
                        fails += check_interval([float(x) for x in cols[:, j]], f, float(R[0, j]), float(R[1, j]), f"dtype-range/{case['dtype']}")
                    if len(fails) >= 20:
                        return {"fails": fails[:20], "n": nev, "tags": tags}
            tags.add(f"dtype-range {case['dtype']} n={n} span_exceeds_type={max(vals) - min(vals) > hi}")
    return {"fails": fails[:20], "n": nev, "tags": tags}


EVALUATORS = {"block": ev_block, "variants": ev_variants, "columns": ev_columns, "history": ev_history, "dtype_range": ev_dtype_range}


def ev_large(case):
    """Large samples (hundreds of thousands of points), where a brute-force pair search is impossible: the three clauses are
    decided on the sorted sample with sliding windows (every window of exactly c consecutive order statistics, c = number of
    points the reported interval holds - an interval between two sample values holding c points contains such a window)."""
    from inference.pdf.hdi import sample_hdi

    n, fam = case["n"], case["family"]
    q = (np.arange(n) + 0.5) / n
    if fam == "gamma2-jitter":
        # an interior optimum and irregular spacings (deterministic jitter), so that neighbouring windows really differ
        from scipy import stats

        base = stats.gamma(2.0).ppf(q) + 2e-3 * np.sin(1.2345 * np.arange(n)) * (1 + np.arange(n) % 3)
    elif fam == "exp":
        base = -np.log1p(-q)
    elif fam == "neg-exp":
        base = np.log1p(-q[::-1]) + 0.0
    else:  # bimodal with ties
        base = np.round(np.where(q < 0.6, np.sqrt(2) * _erfinv(2 * (q / 0.6) - 1), 5.0 + 0.6 * np.sqrt(2) * _erfinv(2 * ((q - 0.6) / 0.4) - 1)), 4)
    base = base[np.isfinite(base)]
    n = base.size
    perm = (np.arange(n) * 7919) % n  # a fixed scrambling (7919 is prime and does not divide n for the listed sizes)
    x = base[perm]
    srt = np.sort(x)
    fails, tags = [], set()
    k = 0
    for f in case["fractions"]:
        before = x.copy()
        with lib("sample_hdi-large"):
            r = np.asarray(sample_hdi(x, f), dtype=float)
        k += 1
        if not np.array_equal(x, before):
            fails.append(fail("large/input-modified", f"n={n} f={f}", n=n, fraction=f))
        lo, hi = float(r[0]), float(r[1])
        i0, i1 = np.searchsorted(srt, lo, "left"), np.searchsorted(srt, hi, "right")
        if not (i0 < n and srt[i0] == lo and i1 > 0 and srt[i1 - 1] == hi):
            fails.append(fail("large/endpoints-not-sample-values", f"n={n} f={f}: [{lo},{hi}]", n=n, fraction=f))
            continue
        cnt = int(i1 - i0)
        if cnt < f * n - 1e-9:
            fails.append(fail("large/holds-less-than-fraction", f"n={n} f={f}: {cnt} points < {f * n}", n=n, fraction=f))
        best = float((srt[cnt - 1 :] - srt[: n - cnt + 1]).min())
        if best < (hi - lo):
            fails.append(fail("large/not-shortest", f"n={n} f={f}: width {hi - lo!r} but a window of {cnt} points has width {best!r}", n=n, fraction=f))
        tags.add(f"large:{fam}:n={'<=2e5' if n <= 200000 else '>2e5'}")
    return {"fails": fails, "n": k, "tags": tags}


def _erfinv(y):
    from scipy.special import erfinv

    return erfinv(np.clip(y, -1 + 1e-16, 1 - 1e-16))


EVALUATORS["large"] = ev_large


def run(ck):
    seed = ck.seed
    quick = ck.quick
    alphabets = [ALPHABETS[0], ALPHABETS[1 + seed % (len(ALPHABETS) - 1)]]
    if not quick:
        alphabets = ALPHABETS
    nmax = 7 if quick else 8
    cases = []
    for ai, A in enumerate(alphabets):
        AA = A if quick or ai > 0 else A + [4.0]
        top = nmax if ai == 0 else nmax - 1
        for n in range(2, top + 1):
            plen = 0 if n <= 4 else (2 if n <= 7 else 3)
            for prefix in itertools.product(range(len(AA)), repeat=plen):
                cases.append({"alphabet": AA, "n": n, "prefix": list(prefix), "fractions": FRACTIONS})
    ck.run_cases("block", cases, chunk=1)
    ck.run_cases("large", [dict(n=n, family=fam, fractions=[0.1, 0.3, 0.5, 0.68, 0.95]) for n in ((100003, 250007) if quick else (100003, 200003, 250007, 1000003))
                           for fam in ("gamma2-jitter", "exp", "neg-exp", "bimodal-ties")], chunk=1)
    # variants on all multisets up to n=5 (6 thorough) over the first alphabet, plus a few long ones
    vcases = []
    for A in alphabets:
        for n in range(2, (5 if quick else 6) + 1):
            for ms in itertools.combinations_with_replacement(A, n):
                # a fixed non-sorted arrangement of the multiset
                arrangement = list(ms[1::2]) + list(ms[0::2])
                vcases.append({"sample": arrangement, "fractions": [0.1, 1.0 / 3.0, 0.5, 0.68, 0.95]})
    q = np.linspace(0.01, 0.99, 41)
    vcases.append({"sample": (-np.log(1 - q)).tolist(), "fractions": [0.2, 0.5, 0.9]})
    vcases.append({"sample": np.tan(np.pi * (q - 0.5)).tolist() + [3.0, 3.0, 3.0], "fractions": [0.2, 0.5, 0.9]})
    ck.run_cases("variants", vcases)
    ccases = []
    for A in alphabets[:2]:
        for n in (2, 3, 4):
            allc = [[A[i] for i in idx] for idx in itertools.product(range(len(A)), repeat=n)]
            step = 1 if n <= 2 else (5 if quick else 2)
            cols = allc[(seed % step) :: step][: (14 if quick else 40)]
            ccases.append({"columns": cols, "fractions": [0.2, 0.5, 0.68, 0.95]})
    ck.run_cases("columns", ccases, chunk=1)
    # call histories: every container form x start samples x every sequence of <= depth in-place edits (7 kinds)
    depth = 2 if quick else 3
    hcases = []
    for dim, forms in ((1, FORMS_1D), (2, FORMS_2D)):
        for form in forms:
            isint = form_is_int(form)
            core = form in ("list", "tuple", "f8", "nested-lists", "nested-tuples", "list-of-arrays", "f8-C", "f8-F")
            fi = forms.index(form)
            for ai, A in enumerate([ALPHABETS[0]] if isint else (alphabets if core else [alphabets[(seed + fi) % len(alphabets)]])):
                head = form.split("-")[0]
                if isint:
                    a, b = 2, 3
                elif head == "f8" or head not in _DT:
                    a, b = (2.0, 0.5, 1024.0)[(seed + ai) % 3], (-3.0, 7.25, 1e6)[(seed + ai) % 3]
                else:
                    a, b = (2.0, 0.5)[(seed + ai) % 2], (-3.0, 7.25)[(seed + ai) % 2]
                if dim == 1:
                    shapes = [((2,), 1), ((3,), 9 if quick else 3), ((5,), 211 if quick else 61), ((6,), 1361 if quick else 409)]
                else:
                    shapes = [((2, 2), 61 if quick else 19), ((3, 2), 1021 if quick else 409), ((4, 3), 5000011 if quick else 2000003)]
                for shape, step in shapes:
                    size = int(np.prod(shape))
                    total = len(A) ** size
                    samples = []
                    for code in range((seed + ai) % step, total, step):
                        digits = [(code // len(A) ** p) % len(A) for p in range(size)]
                        samples.append(np.array(digits).reshape(shape).tolist())
                    for g in range(0, len(samples), 8):
                        hcases.append({"dim": dim, "form": form, "alphabet": A, "samples": samples[g : g + 8], "depth": depth, "scale": a, "shift": b})
    ck.run_cases("history", hcases, chunk=1)
    # integer samples that use the whole range of their type
    rcases = [{"dtype": d, "ns": [2, 3] if quick else [2, 3, 4], "fractions": [0.2, 0.5, 0.68]} for d in ("i1", "u1", "i2", "u2", "i4", "u4", "i8", "u8")]
    ck.run_cases("dtype_range", rcases, chunk=1)
    ck.rule = (
        "every sample in A^n for the listed value alphabets (all of A^n, enumerated), n=2..%d, x 9 fractions, brute-force oracle over all "
        "pairs of sample values; plus all permutations (n<=5), containers/dtypes, 6 affine maps per multiset, and 2-D inputs from all tuples "
        "of columns. Call histories: for each of %d 1-D and %d 2-D container forms (lists/tuples/nested and mixed sequences, lists of arrays, "
        "arrays of float16/32/64/longdouble and all 8 integer types, C/Fortran order, strided, negative-stride, transposed and read-only views) the "
        "SAME object is passed again after every sequence of <= %d steps from {no change, rescale, shift, refill, reverse, sort (all in place), a call "
        "on a second object}, start samples an arithmetic progression through A^n (n=2,3,5,6; 2x2, 3x2, 4x3); after every call the statement's clauses "
        "are checked by brute force against the contents held at that call. Integer samples over 5 letters spanning the full range of int8/16/32 and "
        "uint8/16/32 (all of letters^n, n<=%d, 1-D and 2-D). A case is non-trivial/distinct by (n, L=int(f*n), ties present, zero-width result), by "
        "variant kind, or by (container form, number of calls, last edit)." % (nmax, len(FORMS_1D), len(FORMS_2D), depth, 3 if quick else 4)
    )
    ck.assume("value alphabets are finite (4-5 letters); longer samples only through two quantile samples in the variants evaluator")
    ck.assume("call histories: samples of 2..6 points (up to 4x3 in 2-D); immutable containers (tuples of numbers) only see repeated calls; bool and object arrays are not "
              "treated as accepted dtypes; 64-bit integer samples are not taken to the ends of their range (not representable in the float result)")
    ck.extra["alphabets"] = alphabets
    ck.extra["container_forms"] = {"1d": list(FORMS_1D), "2d": list(FORMS_2D), "history_ops": list(HISTORY_OPS)}
