"""C13 – sample_hdi returns the shortest interval holding the requested fraction.

Engine D: every sample in A^n (A a 4- or 5-letter value alphabet, n = 2..7/8) x fractions,
brute-force oracle over all pairs of sample values; 2-D inputs, permutations, dtypes,
containers, affine maps, input immutability.
"""
import itertools

import numpy as np

from mc.core import fail, lib

LEVEL = "exploration"

FRACTIONS = [0.05, 0.1, 0.2, 1.0 / 3.0, 0.5, 0.68, 0.9, 0.95, 0.999]
ALPHABETS = [
    [0.0, 1.0, 2.0, 3.0],
    [0.1, 0.7, 1.3, 2.9],
    [-1.5, 0.0, 0.25, 7.0],
    [-3.0, -1.0, 1e-3, 1e3],
]


def brute(sample, f):
    """All pairs (a<=b) of sample values: (width, count)."""
    s = np.sort(np.asarray(sample, dtype=float))
    n = len(s)
    out = []
    for i in range(n):
        for j in range(i, n):
            a, b = s[i], s[j]
            cnt = int(((s >= a) & (s <= b)).sum())
            out.append((b - a, cnt))
    return out


def check_interval(sample, f, lo, hi, tag, tol=0.0):
    """The three clauses of the statement for one reported interval; returns list of fails."""
    s = np.asarray(sample, dtype=float)
    fails = []
    if not (np.any(s == lo) and np.any(s == hi)):
        fails.append(fail(f"{tag}/endpoints-not-sample-values", f"interval [{lo},{hi}] of {sample} f={f}", sample=list(sample), fraction=f))
        return fails
    cnt = int(((s >= lo) & (s <= hi)).sum())
    if cnt < f * len(s) - 1e-12:
        fails.append(fail(f"{tag}/holds-less-than-fraction", f"[{lo},{hi}] holds {cnt}/{len(s)} < {f}", sample=list(sample), fraction=f))
    w = hi - lo
    best = min(wd for wd, c in brute(sample, f) if c >= cnt)
    if best < w - tol:
        fails.append(fail(f"{tag}/not-shortest", f"[{lo},{hi}] width {w} but width {best} holds as many ({cnt})", sample=list(sample), fraction=f))
    return fails


def ev_block(case):
    from inference.pdf.hdi import sample_hdi

    A = case["alphabet"]
    n = case["n"]
    prefix = case["prefix"]
    fails, tags, nev = [], set(), 0
    for rest in itertools.product(range(len(A)), repeat=n - len(prefix)):
        idx = list(prefix) + list(rest)
        sample = [A[i] for i in idx]
        arr = np.array(sample)
        for f in case["fractions"]:
            before = arr.copy()
            with lib("sample_hdi-1d"):
                r = sample_hdi(arr, f)
            nev += 1
            if not (arr == before).all():
                fails.append(fail("hdi1d/input-modified", f"{sample} f={f}", sample=sample, fraction=f))
            r = np.asarray(r)
            if r.shape != (2,):
                fails.append(fail("hdi1d/shape", f"shape {r.shape}", sample=sample, fraction=f))
                continue
            fs = check_interval(sample, f, float(r[0]), float(r[1]), "hdi1d")
            fails += fs
            L = int(f * n)
            ties = len(set(sample)) < n
            tags.add(f"n={n},L={L},ties={ties},zero_width={r[0]==r[1]}")
    return {"fails": fails[:20], "n": nev, "tags": tags, "sample": {"sample": sample, "fraction": f, "interval": r.tolist()}}


def ev_variants(case):
    """permutations, 2-D columns, dtypes/containers, affine maps for one multiset."""
    from inference.pdf.hdi import sample_hdi

    sample = case["sample"]
    n = len(sample)
    fails, tags, nev = [], set(), 0
    arr = np.array(sample, dtype=float)
    for f in case["fractions"]:
        with lib("sample_hdi-1d"):
            base = np.asarray(sample_hdi(arr.copy(), f))
        # permutations
        perms = itertools.permutations(range(n)) if n <= 5 else [np.roll(range(n), k) for k in range(n)] + [list(range(n))[::-1]]
        for p in perms:
            q = arr[list(p)]
            with lib("sample_hdi-perm"):
                r = np.asarray(sample_hdi(q, f))
            nev += 1
            if not np.array_equal(r, base):
                fails.append(fail("perm/result-depends-on-order", f"{q.tolist()} -> {r.tolist()} vs {base.tolist()}", sample=q.tolist(), fraction=f))
                break
        tags.add(f"perm,n={n}")
        # containers / dtypes
        for name, obj in (
            ("list", [float(v) for v in sample]),
            ("tuple", tuple(float(v) for v in sample)),
            ("float32", arr.astype(np.float32)),
        ):
            with lib(f"sample_hdi-{name}"):
                r = np.asarray(sample_hdi(obj, f), dtype=float)
            nev += 1
            if name == "float32":
                # widths are formed in float32 by the code: ties may resolve differently than in float64, so the
                # statement's clauses are checked directly with a float32-rounding allowance instead of equality
                s32 = arr.astype(np.float32).astype(float)
                fails += check_interval(s32.tolist(), f, float(r[0]), float(r[1]), "container/float32", tol=4 * float(np.spacing(np.float32(np.abs(s32).max() + 1))))
            elif not np.array_equal(r, base):
                fails.append(fail(f"container/{name}-differs", f"{sample} f={f}: {r.tolist()} vs {base.tolist()}", sample=sample, fraction=f))
            tags.add(f"container={name}")
        if all(float(v).is_integer() for v in sample):
            for name, obj in (("int64", arr.astype(np.int64)), ("intlist", [int(v) for v in sample])):
                before = obj.copy() if hasattr(obj, "copy") else list(obj)
                with lib(f"sample_hdi-{name}"):
                    r = np.asarray(sample_hdi(obj, f), dtype=float)
                nev += 1
                if not np.array_equal(r, base):
                    fails.append(fail(f"container/{name}-differs", f"{sample} f={f}: {r.tolist()} vs {base.tolist()}", sample=sample, fraction=f))
                if not np.array_equal(np.asarray(before), np.asarray(obj)):
                    fails.append(fail(f"container/{name}-input-modified", f"{sample}", sample=sample, fraction=f))
                tags.add(f"container={name}")
        # affine maps: width scales, result valid on the mapped sample
        for a in (0.5, 2.0, 1024.0):
            for b in (-3.0, 1e6):
                m = a * arr + b
                with lib("sample_hdi-affine"):
                    r = np.asarray(sample_hdi(m, f))
                nev += 1
                fs = check_interval(m.tolist(), f, float(r[0]), float(r[1]), "affine")
                fails += fs
                exp = a * base + b
                if not np.allclose(r, exp, rtol=0, atol=1e-9 * max(1.0, abs(b))):
                    # a different, equally short interval is acceptable only if widths tie
                    if abs((r[1] - r[0]) - a * (base[1] - base[0])) > 1e-9 * max(1.0, abs(b)):
                        fails.append(fail("affine/not-covariant", f"{sample} a={a} b={b}: {r.tolist()} vs {exp.tolist()}", sample=sample, fraction=f))
                tags.add(f"affine a={a} b={b}")
    return {"fails": fails[:20], "n": nev, "tags": tags}


def ev_columns(case):
    """2-D input: all tuples of columns drawn from the listed samples."""
    from inference.pdf.hdi import sample_hdi

    cols = case["columns"]
    fails, tags, nev = [], set(), 0
    for k in (1, 2, 3):
        for combo in itertools.product(range(len(cols)), repeat=k):
            if k == 3 and combo[0] > combo[1]:
                continue
            M = np.array([cols[c] for c in combo], dtype=float).T  # (n, k)
            for f in case["fractions"]:
                before = M.copy()
                with lib("sample_hdi-2d"):
                    R = np.asarray(sample_hdi(M, f))
                nev += 1
                if not np.array_equal(M, before):
                    fails.append(fail("hdi2d/input-modified", f"{M.tolist()}", columns=[cols[c] for c in combo], fraction=f))
                R2 = R.reshape(2, k) if R.size == 2 * k else None
                if R2 is None or (k > 1 and R.shape != (2, k)):
                    fails.append(fail("hdi2d/shape", f"shape {R.shape} for input {M.shape}", columns=[cols[c] for c in combo], fraction=f))
                    continue
                for jj, c in enumerate(combo):
                    with lib("sample_hdi-1d"):
                        r1 = np.asarray(sample_hdi(np.array(cols[c], dtype=float), f))
                    if not np.array_equal(R2[:, jj], r1):
                        fails.append(fail("hdi2d/column-differs-from-1d", f"col {jj} of {M.tolist()} f={f}: {R2[:, jj].tolist()} vs {r1.tolist()}", columns=[cols[c] for c in combo], fraction=f))
                tags.add(f"2d k={k} n={M.shape[0]}")
    return {"fails": fails[:20], "n": nev, "tags": tags}


EVALUATORS = {"block": ev_block, "variants": ev_variants, "columns": ev_columns}


def run(ck):
    seed = ck.seed
    quick = ck.quick
    alphabets = [ALPHABETS[0], ALPHABETS[1 + seed % (len(ALPHABETS) - 1)]]
    if not quick:
        alphabets = ALPHABETS
    nmax = 7 if quick else 8
    cases = []
    for ai, A in enumerate(alphabets):
        AA = A if quick or ai > 0 else A + [4.0]
        top = nmax if ai == 0 else nmax - 1
        for n in range(2, top + 1):
            plen = 0 if n <= 4 else (2 if n <= 7 else 3)
            for prefix in itertools.product(range(len(AA)), repeat=plen):
                cases.append({"alphabet": AA, "n": n, "prefix": list(prefix), "fractions": FRACTIONS})
    ck.run_cases("block", cases, chunk=1)
    # variants on all multisets up to n=5 (6 thorough) over the first alphabet, plus a few long ones
    vcases = []
    for A in alphabets:
        for n in range(2, (5 if quick else 6) + 1):
            for ms in itertools.combinations_with_replacement(A, n):
                # a fixed non-sorted arrangement of the multiset
                arrangement = list(ms[1::2]) + list(ms[0::2])
                vcases.append({"sample": arrangement, "fractions": [0.1, 1.0 / 3.0, 0.5, 0.68, 0.95]})
    q = np.linspace(0.01, 0.99, 41)
    vcases.append({"sample": (-np.log(1 - q)).tolist(), "fractions": [0.2, 0.5, 0.9]})
    vcases.append({"sample": np.tan(np.pi * (q - 0.5)).tolist() + [3.0, 3.0, 3.0], "fractions": [0.2, 0.5, 0.9]})
    ck.run_cases("variants", vcases)
    ccases = []
    for A in alphabets[:2]:
        for n in (2, 3, 4):
            allc = [[A[i] for i in idx] for idx in itertools.product(range(len(A)), repeat=n)]
            step = 1 if n <= 2 else (5 if quick else 2)
            cols = allc[(seed % step) :: step][: (14 if quick else 40)]
            ccases.append({"columns": cols, "fractions": [0.2, 0.5, 0.68, 0.95]})
    ck.run_cases("columns", ccases, chunk=1)
    ck.rule = (
        "every sample in A^n for the listed value alphabets (all of A^n, enumerated), n=2..%d, x 9 fractions, brute-force oracle over all "
        "pairs of sample values; plus all permutations (n<=5), containers/dtypes, 6 affine maps per multiset, and 2-D inputs from all tuples "
        "of columns. A case is non-trivial/distinct by (n, L=int(f*n), ties present, zero-width result) or by variant kind." % nmax
    )
    ck.assume("value alphabets are finite (4-5 letters); longer samples only through two quantile samples in the variants evaluator")
    ck.extra["alphabets"] = alphabets
