"""C15 – advancing a sampler adds exactly the requested number of samples.

Engine C + B: advance(m) for every m in [0, 260] on fresh and already-advanced chains, all pairs (m1, m2) in [0,30]^2,
interleaved take_step; a pool of chains advanced through a fake Pool that executes the tasks in EVERY order (arguments
pickled in and out) compared with the same chains advanced serially, plus a real multiprocessing Pool run; run_for
under a virtual clock for per-evaluation costs from microseconds to minutes and budgets from 1 s to 1 h.
"""
import contextlib
import io
import itertools
import pickle

import numpy as np

from mc.core import HarnessError, fail, lib

LEVEL = "model_checking"
SAMPLERS = ("MetropolisChain", "GibbsChain", "PcaChain", "HamiltonianChain", "EnsembleSampler")


def post(t):
    t = np.asarray(t, dtype=float)
    return float(-0.5 * ((t - 0.3) ** 2).sum())


def grad(t):
    return -(np.asarray(t, dtype=float) - 0.3)


def make(kind, seed, d=2, walkers=4, display=False, fn=post):
    from inference.mcmc import EnsembleSampler, GibbsChain, HamiltonianChain, PcaChain
    from inference.mcmc.gibbs import MetropolisChain

    start = np.array([0.5, -0.2, 0.4][:d])
    if kind == "EnsembleSampler":
        pos = np.array([[0.5, -0.2], [1.0, 0.4], [-0.6, 0.8], [0.1, -0.9], [0.9, 0.3]])[:walkers, :d].copy()
        ch = EnsembleSampler(posterior=fn, starting_positions=pos, display_progress=display)
    elif kind == "HamiltonianChain":
        ch = HamiltonianChain(posterior=fn, grad=grad, start=start, epsilon=0.3, display_progress=display)
        ch.steps = 2
    else:
        cls = {"GibbsChain": GibbsChain, "PcaChain": PcaChain, "MetropolisChain": MetropolisChain}[kind]
        ch = cls(posterior=fn, start=start, widths=np.full(d, 0.8), display_progress=display)
    ch.rng = np.random.default_rng(seed)
    for i, p in enumerate(getattr(ch, "params", [])):
        p.rng = np.random.default_rng(100 * seed + i)
    return ch


def counts(ch, kind):
    """(reported length, stored samples, stored probabilities)"""
    if kind == "EnsembleSampler" and ch.sample is None:
        return (int(ch.chain_length), 0, 0)
    return (int(ch.chain_length), int(np.asarray(ch.get_sample(burn=0)).shape[0]), int(np.asarray(ch.get_probabilities(burn=0)).shape[0]))


def ev_advance(case):
    kind, display = case["sampler"], case["display"]
    walkers = case.get("walkers", 4)
    unit = walkers if kind == "EnsembleSampler" else 1
    fails, fkeys, tags = [], set(), set()
    n = 0

    def add_fail(key, what, **kw):
        if key not in fkeys:
            fkeys.add(key)
            fails.append(fail(key, what, config={k: v for k, v in case.items() if k != "seqs"}, **kw))

    for seq in case["seqs"]:
        with lib("construct"):
            ch = make(kind, 3, d=case.get("d", 2), walkers=walkers, display=display)
        c0 = counts(ch, kind)
        hist = []
        for op in seq:
            before = counts(ch, kind)
            try:
                with contextlib.redirect_stdout(io.StringIO()):
                    with lib("advance" if op != "s" else "take_step"):
                        if op == "s":
                            if kind == "EnsembleSampler":
                                ch.advance(1)
                            else:
                                ch.take_step()
                        else:
                            ch.advance(op)
            except Exception as e:
                first = "fresh" if not hist else "advanced"
                add_fail(f"advance/{kind}/raises/{'m=0' if op == 0 else 'm>0'}/{first}", f"after {hist}: advance({op}): {e}"[:400], seq=seq)
                break
            hist.append(op)
            n += 1
            m = 1 if op == "s" else op
            after = counts(ch, kind)
            if after[0] - before[0] != m * unit:
                cls = "m=0" if m == 0 else ("m<100" if m < 100 else ("m%100=0" if m % 100 == 0 else "m>100"))
                add_fail(f"advance/{kind}/reported-length-not-increased-by-m/{cls}", f"after {hist}: length {before[0]} -> {after[0]}, requested {m} x {unit}", seq=seq)
            if not (after[0] == after[1] == after[2]):
                add_fail(f"advance/{kind}/length-differs-from-stored-samples-or-probabilities", f"after {hist}: length {after[0]}, samples {after[1]}, probabilities {after[2]}", seq=seq)
            tags.add(f"{kind}:{'m=0' if m == 0 else 'm<100' if m < 100 else 'm%100=0' if m % 100 == 0 else 'm>100'}:{'fresh' if len(hist) == 1 else 'advanced'}")
    return {"fails": fails, "n": n, "states": n, "transitions": n, "tags": tags}


# --------------------------------------------------------------------------- pool
class FakePool:
    """multiprocessing.Pool stand-in: tasks are pickled in and out and executed in a prescribed order."""

    order = None
    log = None

    def __init__(self, processes=None):
        self.processes = processes

    def map(self, func, iterable, chunksize=None):
        items = list(iterable)
        order = FakePool.order if FakePool.order is not None else list(range(len(items)))
        res = [None] * len(items)
        for i in order:
            f, a = pickle.loads(pickle.dumps((func, items[i])))
            res[i] = pickle.loads(pickle.dumps(f(a)))
        return res

    def imap(self, func, iterable, chunksize=None):
        return iter(self.map(func, iterable))

    def imap_unordered(self, func, iterable, chunksize=None):
        # results in COMPLETION order, which here is the prescribed execution order
        items = list(iterable)
        order = FakePool.order if FakePool.order is not None else list(range(len(items)))
        out = []
        for i in order:
            f, a = pickle.loads(pickle.dumps((func, items[i])))
            out.append(pickle.loads(pickle.dumps(f(a))))
        return iter(out)

    def starmap(self, func, iterable, chunksize=None):
        return self.map(lambda args: func(*args), iterable)

    def close(self):
        pass

    def join(self):
        pass

    def terminate(self):
        pass


def chain_state(ch, kind):
    kind = type(ch).__name__  # (what the object IS: a pool that hands chains back in another order must not crash the harness)
    if kind == "EnsembleSampler":
        return (np.array(ch.walker_positions).tobytes(), None if ch.sample is None else ch.sample.tobytes(), None if ch.sample_probs is None else ch.sample_probs.tobytes(),
                int(ch.chain_length), pickle.dumps(ch.rng.bit_generator.state))
    st = (np.asarray(ch.get_sample(burn=0)).tobytes(), np.asarray(ch.get_probabilities(burn=0)).tobytes(), int(ch.chain_length), pickle.dumps(ch.rng.bit_generator.state))
    return st + tuple(pickle.dumps(p.rng.bit_generator.state) for p in getattr(ch, "params", []))


def ev_pool(case):
    import inference.mcmc.parallel as PAR

    kinds, n, display = case["kinds"], case["n"], case["display"]
    fails, fkeys, tags = [], set(), set()
    cnt = 0

    def add_fail(key, what, **kw):
        if key not in fkeys:
            fkeys.add(key)
            fails.append(fail(key, what, config=case, **kw))

    # serial reference
    with lib("serial"):
        sd = (lambda i: 10) if case.get("same_seed") else (lambda i: 10 + i)
        ref = [make(k, sd(i), display=display) for i, k in enumerate(kinds)]
        with contextlib.redirect_stdout(io.StringIO()):
            for n_ in n:
                for c in ref:
                    c.advance(n_)
    ref_state = [chain_state(c, k) for c, k in zip(ref, kinds)]
    saved = PAR.Pool
    PAR.Pool = FakePool
    try:
        for order in itertools.permutations(range(len(kinds))):
            FakePool.order = list(order)
            try:
                with contextlib.redirect_stdout(io.StringIO()):
                    with lib("ChainPool"):
                        pool = PAR.ChainPool([make(k, sd(i), display=display) for i, k in enumerate(kinds)])
                        for n_ in n:
                            pool.advance(n_)
                        out = pool.chains
            except Exception as e:
                add_fail(f"pool/display={display}/raises", f"order {order}: {e}"[:500], order=list(order))
                continue
            cnt += 1
            st = [chain_state(c, k) for c, k in zip(out, kinds)]
            if st != ref_state:
                add_fail("pool/state-differs-from-serial-advance", f"order {order}: chains {[i for i in range(len(kinds)) if st[i] != ref_state[i]]} differ", order=list(order))
            tags.add(f"pool:size={len(kinds)}:display={display}")
    finally:
        PAR.Pool = saved
        FakePool.order = None
    return {"fails": fails, "n": cnt, "states": cnt, "transitions": cnt * len(kinds), "tags": tags}


def ev_realpool(case):
    """one run on a real multiprocessing Pool (main process only)"""
    import inference.mcmc.parallel as PAR

    kinds, n, display = case["kinds"], case["n"], case["display"]
    fails = []
    ref = [make(k, 10 + i, display=display) for i, k in enumerate(kinds)]
    with contextlib.redirect_stdout(io.StringIO()):
        for c in ref:
            c.advance(n)
        try:
            with lib("real-ChainPool"):
                pool = PAR.ChainPool([make(k, 10 + i, display=display) for i, k in enumerate(kinds)])
                try:
                    pool.advance(n)
                    out = pool.chains
                finally:
                    pool.pool.close()
                    pool.pool.terminate()
        except Exception as e:
            return {"fails": [fail(f"pool/real/display={display}/raises", f"{e}"[:500], config=case)], "n": 1}
    if [chain_state(c, k) for c, k in zip(out, kinds)] != [chain_state(c, k) for c, k in zip(ref, kinds)]:
        # volatile: the operating system's scheduling of the real pool workers is not owned by the harness, so this observation need not repeat
        fails.append(fail("pool/real/state-differs-from-serial-advance", "real Pool result differs from serial", config=case, volatile=True))
    return {"fails": fails, "n": 1, "states": 1, "transitions": len(kinds), "traces": 1, "tags": {f"realpool:size={len(kinds)}:display={display}"}}


# --------------------------------------------------------------------------- timed runs under a virtual clock
class Spin(BaseException):
    pass


class Clock:
    def __init__(self):
        self.t = 1000.0
        self.reads_since_step = 0
        self.readings = []
        self.steps = 0

    def __call__(self):
        self.reads_since_step += 1
        self.readings.append((self.t, self.steps))
        if self.reads_since_step > 10000:
            raise Spin()
        return self.t


def ev_runfor(case):
    import inference.mcmc.base as BASE
    import inference.mcmc.utilities as UT

    kind, costs, budget, display = case["sampler"], case["costs"], case["budget_s"], case["display"]
    fails, tags = [], set()
    clock = Clock()

    k = [0]

    per_step = case.get("cost_per", "evaluation") == "step"
    armed = [True]

    def slow_post(t):
        if armed[0] and not per_step:
            clock.t += costs[k[0] % len(costs)]
            k[0] += 1
        return post(t)

    saved = (BASE.time, UT.time)
    BASE.time = clock
    UT.time = clock
    try:
        with lib("construct"):
            ch = make(kind, 4, d=1, display=display, fn=slow_post)
        # count whole steps through the public counter
        orig_step = getattr(ch, "take_step", None)
        if orig_step is not None:
            def counted():
                orig_step()
                if armed[0]:
                    if per_step:
                        clock.t += costs[k[0] % len(costs)]
                        k[0] += 1
                    clock.steps += 1
                    clock.reads_since_step = 0
            ch.take_step = counted
        if case.get("pre_advance"):
            # a chain with a history: advanced at zero virtual cost before the timed run
            armed[0] = False
            with contextlib.redirect_stdout(io.StringIO()):
                with lib("pre-advance"):
                    ch.advance(case["pre_advance"])
            armed[0] = True
            clock.readings.clear()
            clock.reads_since_step = 0
        t_start = clock.t
        c0 = counts(ch, kind)
        kw = {"minutes": budget / 60.0} if budget < 3600 else {"hours": budget / 3600.0}
        if case.get("days"):
            kw = {"days": int(budget // 86400), "hours": int((budget % 86400) // 3600), "minutes": (budget % 3600) / 60.0}
        label = f"{kind}/cost={'slower-than-1s' if max(costs) >= 1 else 'faster-than-1s'}"
        try:
            with contextlib.redirect_stdout(io.StringIO()):
                with lib("run_for"):
                    ch.run_for(**kw)
        except Spin:
            fails.append(fail(f"run_for/{label}/stops-stepping-and-spins-before-budget-used",
                              f"10000 clock readings without a step; budget {budget}s, costs {costs}, {clock.steps} steps taken, virtual time used {clock.t - t_start:.3g}s", config=case))
            return {"fails": fails, "n": 1, "states": 1, "transitions": clock.steps, "tags": tags}
        except Exception as e:
            from mc.core import LibFailure

            fails.append(fail(f"run_for/{kind}/raises", f"{e}"[:400], config=case))
            return {"fails": fails, "n": 1, "states": 1, "transitions": clock.steps, "tags": tags}
        end = t_start + budget
        if clock.t < end:
            fails.append(fail(f"run_for/{label}/returns-before-budget-used", f"returned at +{clock.t - t_start:.6g}s of {budget}s", config=case))
        # after the first reading at or past the deadline no further step
        past = [s for (t, s) in clock.readings if t >= end]
        if past and clock.steps != past[0]:
            fails.append(fail(f"run_for/{label}/steps-taken-after-deadline-was-seen", f"{clock.steps - past[0]} steps after the first clock reading past the deadline", config=case))
        c1 = counts(ch, kind)
        if not (c1[0] == c1[1] == c1[2]) or c1[0] - c0[0] != clock.steps:
            fails.append(fail(f"run_for/{label}/counters-inconsistent-after-timed-run", f"{c0} -> {c1}, {clock.steps} steps", config=case))
        if clock.steps == 0:
            fails.append(fail(f"run_for/{label}/no-step-taken", "returned without stepping", config=case))
        tags.add(f"{label}:budget={budget}:steps={'1' if clock.steps == 1 else '<20' if clock.steps < 20 else '>=20'}")
        if case.get("fresh_steps") is not None and clock.steps != case["fresh_steps"]:
            fails.append(fail(f"run_for/{kind}/number-of-steps-depends-on-history-before-the-timed-run",
                              f"a chain advanced by {case['pre_advance']} steps beforehand takes {clock.steps} steps in the timed run, a fresh chain {case['fresh_steps']} (same cost per step, same budget)", config=case))
    finally:
        BASE.time, UT.time = saved
    return {"fails": fails, "n": 1, "states": 1, "transitions": clock.steps, "tags": tags,
            "sample": {"sampler": kind, "costs": costs, "budget": budget, "steps": clock.steps}}


def ev_ptadvance(case):
    """ParallelTempering.advance(n, swap_interval): every chain advanced by exactly n (shared with C08's arithmetic evaluator)"""
    from checks.c08 import ev_arith

    return ev_arith(case)


EVALUATORS = {"advance": ev_advance, "pool": ev_pool, "realpool": ev_realpool, "runfor": ev_runfor, "ptadvance": ev_ptadvance}


_PT = {"clock": None, "cost": 0.0}


def _pt_slow_post(t):
    # module-level (the chains that carry it are pickled by return_chains)
    _PT["clock"].t += _PT["cost"]
    _PT["clock"].reads_since_step = 0
    return post(t)


def ev_ptrunfor(case):
    """ParallelTempering.run_for under the virtual clock (module-global time() of inference.mcmc.parallel replaced), workers as
    fake processes under the serial schedule: it terminates, returns only once the budget is used, and every chain has been
    advanced by the same whole number of swap intervals."""
    import inference.mcmc.parallel as PAR
    from mc.sched import run_serial_schedule

    N, cost, budget, si = case["N"], case["cost"], case["budget_s"], case["swap_interval"]
    clock = Clock()
    fails = []

    _PT["clock"], _PT["cost"] = clock, cost
    slow_post = _pt_slow_post

    def parent(PARm, out):
        from inference.mcmc import GibbsChain

        chains = []
        for i in range(N):
            c = GibbsChain(posterior=slow_post, start=np.array([0.3 + 0.2 * i]), widths=np.array([0.8]), temperature=1.0 + i, display_progress=True)
            c.rng = np.random.default_rng(40 + i)
            c.params[0].rng = np.random.default_rng(400 + i)
            chains.append(c)
        pt = PARm.ParallelTempering(chains)
        pt.rng = np.random.default_rng(7)
        t0 = clock.t
        kw = {"minutes": budget / 60.0} if budget < 3600 else {"hours": budget / 3600.0}
        pt.run_for(swap_interval=si, **kw)
        out["elapsed"] = clock.t - t0
        ch = pt.return_chains()
        pt.shutdown()
        out["len"] = [c.chain_length for c in ch]

    saved = PAR.time
    PAR.time = clock
    try:
        try:
            out, done, excs = run_serial_schedule(parent)
        except Spin:
            return {"fails": [fail("ptrun_for/spins-without-stepping", f"10000 clock readings without a posterior evaluation (cost {cost}, budget {budget})", config=case)], "n": 1}
    finally:
        PAR.time = saved
    for e in excs.values():
        if isinstance(e, HarnessError):
            raise e
    if excs or not done:
        return {"fails": [fail("ptrun_for/raises-or-blocks", "; ".join(f"{k}: {type(e).__name__}: {e}" for k, e in excs.items())[:400] or "blocked", config=case)], "n": 1}
    L = out["len"]
    if len(set(L)) != 1 or (L[0] - 1) % si != 0 or L[0] <= 1:
        fails.append(fail("ptrun_for/chains-not-advanced-by-the-same-whole-number-of-swap-intervals", f"lengths {L}, swap_interval {si}", config=case))
    if out["elapsed"] < budget:
        fails.append(fail("ptrun_for/returns-before-budget-used", f"{out['elapsed']:.4g}s of {budget}s", config=case))
    return {"fails": fails, "n": 1, "states": 1, "transitions": int(sum(L)), "tags": {f"ptrun_for:N={N}:cost={'>1s' if cost * si >= 1 else '<1s'}-per-cycle:cycles={'1' if L[0] - 1 == si else 'many'}"},
            "sample": {"config": case, "lengths": L, "elapsed": out["elapsed"]}}


EVALUATORS["ptrunfor"] = ev_ptrunfor


def ev_hardstep(case):
    """A chain whose step sometimes cannot be completed within max_attempts (hard walls, large step size, few attempts):
    advance(m) either adds exactly m samples or fails loudly (the documented 'Failed to take step' error) with consistent
    counters - it never returns normally having added fewer."""
    from inference.mcmc import HamiltonianChain

    def wall_post(t):
        t = np.asarray(t, dtype=float)
        return -0.5 * float((t ** 2).sum()) if np.all(np.abs(t) < 0.8) else -np.inf

    def wall_grad(t):
        return -np.asarray(t, dtype=float)

    fails, tags = [], set()
    n = 0
    for seed in case["seeds"]:
        with lib("construct"):
            ch = HamiltonianChain(posterior=wall_post, grad=wall_grad, start=np.array([0.1, -0.2]), epsilon=case["eps"], display_progress=False)
        ch.steps = 5
        ch.max_attempts = case["max_attempts"]
        ch.rng = np.random.default_rng(seed)
        for m in case["ms"]:
            before = counts(ch, "HamiltonianChain")
            raised = None
            try:
                with contextlib.redirect_stdout(io.StringIO()):
                    ch.advance(m)
            except ValueError as e:
                raised = str(e)
            except Exception as e:  # anything else escaping is an observation
                fails.append(fail("hardstep/HamiltonianChain/raises-unexpected", f"{type(e).__name__}: {e}"[:300], config=case))
                break
            n += 1
            after = counts(ch, "HamiltonianChain")
            if not (after[0] == after[1] == after[2]):
                fails.append(fail("hardstep/HamiltonianChain/counters-inconsistent", f"{after}", config=case))
            if raised is None:
                if after[0] - before[0] != m:
                    fails.append(fail("hardstep/HamiltonianChain/advance-returned-normally-with-fewer-samples-than-requested",
                                      f"advance({m}) added {after[0] - before[0]} samples (max_attempts={case['max_attempts']}, eps={case['eps']})", config=case))
                tags.add("hardstep:completed")
            else:
                if "maximum allowed attempts" not in raised and "Failed to take step" not in raised:
                    fails.append(fail("hardstep/HamiltonianChain/raises-unexpected", raised[:300], config=case))
                tags.add("hardstep:failed-loudly")
                break
    return {"fails": fails[:4], "n": n, "states": n, "transitions": n, "tags": tags}


EVALUATORS["hardstep"] = ev_hardstep


def run(ck):
    q = ck.quick
    ac = []
    ms = list(range(0, 261)) if not q else list(range(0, 131)) + [199, 200, 201, 250, 260]
    for kind in SAMPLERS:
        for display in (False, True):
            if display and kind not in ("GibbsChain", "EnsembleSampler"):
                continue
            seqs = [[m] for m in ms] + [[7, m] for m in ms[:: (3 if q else 1)]]
            R = 12 if q else 30
            seqs += [[a, b] for a in range(0, R + 1) for b in range(0, R + 1)]
            seqs += [["s", 5, "s", 0, "s"], [0, 0, "s"], ["s", "s", 100, 1], [101, "s", 99]]
            if display:
                seqs = seqs[::5]
            for i in range(0, len(seqs), 60):
                for walkers in ((3, 5) if kind == "EnsembleSampler" and not display else (4,)):
                    ac.append(dict(sampler=kind, display=display, seqs=seqs[i : i + 60], walkers=walkers))
    # one-parameter chains across the first adaptation / direction update
    for kind in SAMPLERS:
        if kind != "EnsembleSampler":
            ac.append(dict(sampler=kind, display=False, d=1, seqs=[[m] for m in (0, 1, 99, 100, 101, 260)] + [[100, 60]], walkers=4))
    ck.run_cases("advance", ac, chunk=2)
    pt_ns = list(range(0, 61)) + [99, 100, 101, 130, 523] if q else list(range(0, 131)) + [523, 1007]
    ck.run_cases("ptadvance", [dict(N=2 + (si % 2), si=si, ns=pt_ns[k::4]) for si in ((1, 2, 3, 7, 10) if q else range(1, 13)) for k in range(4)], chunk=1)
    pc = []
    for size in (1, 2, 3, 4):
        for display in (False, True):
            kinds = [SAMPLERS[(i + ck.seed) % 5] for i in range(size)] if size > 1 else ["GibbsChain"]
            pc.append(dict(kinds=kinds, n=[7, 0, 12] if size < 4 else [5], display=display))
    pc.append(dict(kinds=["GibbsChain", "GibbsChain", "HamiltonianChain"], n=[130], display=False))
    # chains that happen to carry identical generator states (same seed) are still advanced exactly as they are one after another
    pc.append(dict(kinds=["GibbsChain", "GibbsChain", "GibbsChain"], n=[9, 4], display=False, same_seed=True))
    pc.append(dict(kinds=["HamiltonianChain", "HamiltonianChain"], n=[6], display=True, same_seed=True))
    ck.run_cases("pool", pc, chunk=1)
    ck.run_cases("realpool", [dict(kinds=["GibbsChain", "PcaChain", "HamiltonianChain"], n=9, display=False),
                              dict(kinds=["EnsembleSampler", "GibbsChain"], n=4, display=True)], parallel=False)
    rc = []
    costs = [[1e-3], [0.1], [2.0], [30.0], [600.0], [0.1, 2.0], [30.0, 1e-3], [0.7, 1.4]]
    for kind in ("GibbsChain", "PcaChain", "HamiltonianChain", "MetropolisChain"):
        for c in costs:
            for budget in (1.0, 60.0, 3600.0):
                if budget / min(c) > 40000:
                    continue
                rc.append(dict(sampler=kind, costs=c, budget_s=budget, display=False))
    rc.append(dict(sampler="GibbsChain", costs=[2.0], budget_s=60.0, display=True))
    rc.append(dict(sampler="GibbsChain", costs=[900.0], budget_s=2 * 86400.0 + 5400.0, display=False, days=True))
    rc.append(dict(sampler="HamiltonianChain", costs=[0.01], budget_s=30.5, display=False))
    rc.append(dict(sampler="EnsembleSampler", costs=[0.1], budget_s=60.0, display=False))
    rc.append(dict(sampler="GibbsChain", costs=[1e-6], budget_s=0.02 * 60, display=False))
    res = ck.run_cases("runfor", rc)
    ck.run_cases("hardstep", [dict(eps=e, max_attempts=a, ms=[3, 10, 40], seeds=list(range(1 + ck.seed, 7 + ck.seed))) for e in (0.3, 1.5, 4.0) for a in (1, 2, 5)])
    # differential oracle: with a constant cost per step the number of steps of a timed run is a function of the clock only,
    # so a chain with a long history must take exactly as many steps as a fresh one
    ck.run_cases("ptrunfor", [dict(N=N, cost=c, budget_s=b, swap_interval=si) for N in (1, 2, 3) for c in (0.004, 0.3, 5.0) for b, si in ((12.0, 3), (90.0, 10), (1.0, 1))
                              if b / c < 30000]
                 + [dict(N=2, cost=600.0, budget_s=90000.0, swap_interval=2), dict(N=1, cost=900.0, budget_s=2 * 86400.0 + 1800.0, swap_interval=1),
                    dict(N=2, cost=0.004, budget_s=0.5, swap_interval=3), dict(N=1, cost=0.01, budget_s=61.25, swap_interval=2)])
    hc = []
    for kind in ("GibbsChain", "HamiltonianChain"):
        for c, budget in (([2.0], 60.0), ([0.1], 60.0), ([30.0], 3600.0), ([0.013], 1.0)):
            base = dict(sampler=kind, costs=c, budget_s=budget, display=False, cost_per="step")
            r = ck.run_cases("runfor", [base], parallel=False)[0]
            if "sample" in r and not r["fails"]:
                for pre in (150, 2000 if not q else 700):
                    hc.append(dict(base, pre_advance=pre, fresh_steps=r["sample"]["steps"]))
    ck.run_cases("runfor", hc)
    ck.rule = ("advance(m) for every m in the listed range on fresh and advanced chains, all (m1,m2) pairs, interleaved take_step, per sampler; ChainPool through a fake Pool in every task "
               "order vs. serial advance (+ real Pool runs); run_for under a virtual clock over (cost per evaluation, budget). Distinct non-trivial = (sampler, m class, fresh/advanced), pool sizes, run_for classes")
    ck.assume("virtual clock advanced by the posterior call; Pool tasks are executed one at a time in every order (workers are separate processes); EnsembleSampler.run_for is enumerated once (it is inherited but has no take_step to call: recorded known finding)")
