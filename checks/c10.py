"""C10 – covariance and mean functions are valid, gradients exact, composites concatenate.

Engine D.  Every element of  {kernel composition} x {(n, d)} x {point design} x {hyper-parameter pattern}
is evaluated by the real classes and compared with mc.ref.gpref_a, in which the kernels are re-implemented from the
documented formulas (docstrings) and the partial derivatives are complex-step derivatives of those formulas.

Oracles (each with its own key):
  layout/..      number of hyper-parameters, labels, bounds: concatenation of the components' in order
  value/..       build_covariance == documented formula on the data (+ noise variances + jitter in [0,1e-10 K_ii])
  pairwise/..    __call__(x,x) == documented formula without the index-delta terms; builder == pairwise + diagonal terms
  block/..       __call__(u,v) with different sizes gives the (m,n) block, K(v,u) = K(u,v)^T
  sym/.. psd/..  symmetric, positive semi-definite
  grad/..        covariance_and_gradients: K == build_covariance, every gradient == exact partial derivative
  compose/..     composite value / gradient list == sum / concatenation of stand-alone component instances; pairwise __call__ of a sum
                 (on x,x and on rectangular blocks) == sum over its NON-noise components, each evaluated stand-alone with ITS OWN slice of
                 theta (compose/<family>/pairwise-not-sum-of-signal-components-with-own-parameters), with a noise component (WhiteNoise,
                 HeteroscedasticNoise) in every position: first, middle, last, twice, nested, inside / around a change-point
  compose/.. (evaluator userbounds)  every given / not-given combination of hyperpar_bounds per component of a sum / constructor-built
                 composite / ChangePoint and of location_bounds x width_bounds of a ChangePoint: what the user gave is what the composite
                 reports at its positions (../component-bounds-given-by-user-not-kept, compose/ChangePoint/location-bounds-given-by-user-not-kept,
                 ../width-bounds-given-by-user-not-kept, ../location-width-bounds-order); not given: the stand-alone component's own estimate
                 (../component-bounds-not-given-differ-from-stand-alone-estimate) resp. any valid interval (../default-<location|width>-bounds-invalid)
  mean/..        build_mean == __call__ at the data == formula; gradients == exact partial derivatives
  history/..     differential: in every short history of constructions (+, ChangePoint, CompositeCovariance on live objects incl.
                 earlier composites) and uses (pass_spatial_data, estimate_hyperpar_bounds, evaluations) every live object keeps
                 exactly the n_params / labels / bounds / value / gradients of a freshly built object of its own expression
                 (history/<family of the changed object>/<attribute>/exposed-by:<operation kind>)
                 (evaluator redata) the same with pass_spatial_data called AGAIN on every live object with different data of the same shape, of
                 another shape, and back to the first data, in every pair of positions of the history: every object must equal a fresh
                 object given the CURRENT data (history/<family>/<attribute>/exposed-by:new-data-same-shape | new-data-other-shape | back-to-first-data)
  xscale/<any of value, pairwise, block, sym, psd, grad, compose>   the same oracles with ALL coordinates multiplied by 1e-9, 1e-7, 1e-4, 1e4, 1e9 and the
                 length-scales, change-point locations and widths scaled along (reference on the same floats)
  extreme/..     extreme-but-legal regimes (change-point widths 1e-6..1e2 data ranges, locations at / beyond the data edges, length-scales
                 1e-3..1e3 ranges, amplitudes exp(+-10), points >= 1e3 widths from the change-point): results finite, values and gradients
                 equal the documented formula in mpmath entry by entry (extreme/<family>/<what>/non-finite, ../builder-vs-formula-offdiag,
                 ../call-vs-formula, ../block-vs-formula, extreme/<owner>/gradient-<kind>, sym / psd / diagonal terms)
"""
import json

import numpy as np

from mc.core import HarnessError, LibFailure, fail, lib
from mc.ref import gpref_a as R

LEVEL = "exploration"
EPS = float(np.finfo(float).eps)
JIT = 1e-10  # documented jitter: "small values added to the diagonal for stability", allowed range [0, JIT*K_ii]

KERNELS = [
    "SE",
    "RQ",
    "WN",
    "HN",
    ["add", "SE", "WN"],
    ["add", "RQ", "WN"],
    ["add", "SE", "HN"],
    ["add", "SE", "RQ"],
    ["cp", 0, "SE", "SE"],
    ["cp", 0, "SE", "RQ"],
    ["cp", 0, "SE", "SE", "SE"],
    ["cp", 0, ["add", "SE", "WN"], "RQ"],
    ["add", ["cp", 0, "SE", "SE"], "WN"],
    ["add", "SE", "RQ", "WN"],
    ["comp", "SE", ["comp", "RQ", "WN"]],
    ["comp", ["comp", "SE", "HN"], ["comp", "RQ"]],
    ["cp", 0, "SE", "RQ", "SE"],
    ["cp", 0, "SE", "RQ", "SE", "RQ"],
    ["cp", 0, "RQ", "RQ", "RQ", "RQ"],
    ["cp", 1, "SE", "RQ"],
    ["cp", 1, "RQ", "SE", "SE"],
    ["cp", 0, "SE", ["cp", 0, "RQ", "SE"]],
    ["cp", 0, ["add", "SE", "HN"], "RQ"],
    ["add", "WN", ["cp", 0, "SE", "SE", "SE"]],
    ["add", ["cp", 0, "SE", "RQ"], ["cp", 0, "RQ", "SE"]],
    ["cp", 0, ["cp", 0, "SE", "SE", "SE"], "RQ"],
    # a noise component in every position of a sum: first, middle, last, two noise terms, nested, inside / around a change-point
    ["add", "WN", "SE"],
    ["add", "HN", "SE"],
    ["add", "SE", "WN", "SE"],
    ["add", "RQ", "HN", "SE"],
    ["add", "WN", "RQ", "WN"],
    ["add", "HN", "WN", "RQ"],
    ["add", "WN", "SE", "HN"],
    ["add", "SE", "WN", "RQ", "HN"],
    ["comp", "WN", ["comp", "HN", "RQ"]],
    ["comp", ["comp", "SE", "WN"], "SE"],
    ["cp", 0, ["add", "WN", "SE"], "RQ"],
    ["cp", 0, "SE", ["add", "HN", "RQ"]],
    ["add", "HN", ["cp", 0, "SE", "RQ"], "SE"],
]
ND_ALL = [(n, d) for d in (1, 2, 3) for n in (1, 2, 3, 4, 5, 6, 8)]
DESIGNS = ["regular", "dups", "clustered", "permuted"]
XSCALES = [1e-4, 1e4, 1e-7, 1e-9, 1e9]  # absolute coordinate scales (units of x), nearest to 1 first


def needs_axis(spec):
    if isinstance(spec, str):
        return 0
    m = max([needs_axis(c) for c in R.children(spec)] + [0])
    return max(m, spec[1]) if spec[0] == "cp" else m


def amp_sum(spec, theta, n, d):
    """D = sum of A^2 over SE/RQ leaves + largest noise variance: the largest magnitude any entry can have"""
    tot = 0.0
    for inf, t in zip(R.param_info(spec, n, d), theta):
        if inf["kind"] == "log-amplitude":
            tot += float(np.exp(2 * t))
    sig = [float(np.exp(2 * t)) for inf, t in zip(R.param_info(spec, n, d), theta) if inf["kind"] in ("log-sigma", "log-sigma-i")]
    return tot, (max(sig) if sig else 0.0)


def pcls(spec, d):
    if R.contains(spec, "HN"):
        return "has-HN"
    return R.family(spec)


def flat_components(spec):
    """component specs of the library object built for a sum spec ('+' flattens composites, the constructor does not)"""
    if R.kind(spec) == "add":
        out = []
        for c in spec[1:]:
            out += flat_components(c) if R.kind(c) in ("add", "comp") else [c]
        return out
    return list(spec[1:])


def label_match(comp_label, part_label):
    return comp_label == part_label or comp_label.endswith(part_label)


def ev_kernel(case):
    spec, n, d = case["spec"], case["n"], case["d"]
    X = R.design(case["design"], n, d, case["seed"])
    theta = R.theta_for(spec, X, case["pattern"])
    name = R.spec_name(spec)
    fam = R.family(spec)
    fails, tags, slack, nev = [], set(), {}, 0
    info = R.param_info(spec, n, d)
    P = len(info)
    det = dict(kernel=name, n=n, d=d, design=case["design"], pattern=case["pattern"])
    # absolute coordinate scale (keys xscale/..): the same configuration in other units of x: every coordinate multiplied by xs, the
    # length-scales, change-point locations and widths carried along; everything below (reference included) works on the scaled floats
    xs = float(case.get("xscale", 1.0))
    if "xscale" in case:
        X = np.ascontiguousarray(X * xs)
        for p_, inf_ in enumerate(info):
            if inf_["kind"] == "log-scale":
                theta[p_] += np.log(xs)
            elif inf_["kind"] in ("cp-location", "cp-width"):
                theta[p_] *= xs
        det["xscale"] = xs

    def sl(key, err, tol):
        r = float(err) / tol if tol > 0 else (0.0 if err == 0 else float("inf"))
        if r > slack.get(key, -1.0):
            slack[key] = r
        return r

    k = R.make_kernel(spec, use_classes=case.get("classes", False))
    with lib("pass_spatial_data"):
        k.pass_spatial_data(X.copy())
    nev += 1
    # ------------------------------------------------------------------ layout
    if k.n_params != P:
        fails.append(fail(f"layout/{fam}/n_params", f"{name}: n_params {k.n_params}, documented layout has {P}", **det))
        return {"fails": fails, "n": nev, "tags": tags}
    labels = list(k.hyperpar_labels)
    if len(labels) != P:
        fails.append(fail(f"layout/{fam}/label-count", f"{name}: {len(labels)} labels for {P} parameters", **det))
    # ------------------------------------------------------------------ reference
    Kref = R.data_cov_float(spec, theta, X)  # with index-delta (noise) terms
    Kpref = R.cross_cov_float(spec, theta, X, X, n)  # without
    Gref = R.data_cov_gradients(spec, theta, X)
    kappa = R.condition_factor(spec, theta, X)
    sp = R.cp_scales(spec, theta, X)
    Dk, Dn = amp_sum(spec, theta, n, d)
    D = Dk + Dn
    tol = 64 * EPS * kappa * D
    th_before = theta.copy()
    X_before = X.copy()
    # ------------------------------------------------------------------ builder value
    with lib("build_covariance"):
        Kb = np.asarray(k.build_covariance(theta))
    nev += 1
    if Kb.shape != (n, n):
        fails.append(fail(f"value/{fam}/builder-shape", f"{name}: build_covariance shape {Kb.shape} for n={n}", **det))
        return {"fails": fails, "n": nev, "tags": tags}
    off = ~np.eye(n, dtype=bool)
    diff = Kb - Kref
    if n > 1:
        e = np.abs(diff[off]).max()
        if sl("value/builder-offdiag", e, tol) > 1:
            fails.append(fail(f"value/{fam}/builder-vs-formula-offdiag", f"{name}: max |K_builder - K_formula| off the diagonal {e:.3e} > {tol:.2e}", theta=theta, X=X, **det))
    dj = np.diag(diff)
    jmax = JIT * np.diag(Kpref)
    lo_bad = (dj < -tol).any()
    hi_bad = (dj > jmax + tol).any()
    sl("value/builder-diag-jitter", max(0.0, float((dj / np.maximum(jmax + tol, 1e-300)).max())), 1.0)
    if lo_bad or hi_bad:
        fails.append(
            fail(
                f"value/{fam}/builder-diagonal-terms",
                f"{name}: diag(K_builder) - (formula + noise variances) = {dj.tolist()} not in [0, 1e-10*K_ii]={jmax.tolist()}",
                theta=theta,
                X=X,
                **det,
            )
        )
    # ------------------------------------------------------------------ pairwise call on the same points
    Kp = None
    try:
        with lib("call(x,x)"):
            Kp = np.asarray(k(X, X, theta))
        nev += 1
    except LibFailure as e:
        fails.append(fail(f"pairwise/{pcls(spec, d)}/raises:{e.exc_type}", f"{name} d={d}: __call__(x, x, theta) raised {e}", traceback=e.tb, **det))
    if Kp is not None:
        if Kp.shape != (n, n):
            fails.append(fail(f"pairwise/{pcls(spec, d)}/shape", f"{name} d={d}: __call__(x,x) has shape {Kp.shape}, expected {(n, n)}", **det))
            Kp = None
    if Kp is not None:
        e = np.abs(Kp - Kpref).max()
        if sl("pairwise/vs-formula", e, tol) > 1:
            fails.append(fail(f"pairwise/{fam}/call-vs-formula", f"{name}: max |K_call - K_formula| {e:.3e} > {tol:.2e}", theta=theta, X=X, **det))
        d2 = Kb - Kp
        if n > 1:
            e = np.abs(d2[off]).max()
            if sl("pairwise/builder-offdiag", e, tol) > 1:
                fails.append(fail(f"pairwise/{fam}/builder-vs-call-offdiag", f"{name}: builder and pairwise evaluation differ off the diagonal by {e:.3e}", theta=theta, X=X, **det))
        noise_ref = np.diag(Kref) - np.diag(Kpref)
        dd = np.diag(d2) - noise_ref
        if (dd < -tol).any() or (dd > JIT * np.diag(Kpref) + tol).any():
            fails.append(fail(f"pairwise/{fam}/builder-vs-call-diagonal-terms", f"{name}: diag(builder - call) - noise variances = {dd.tolist()} not in [0,1e-10 K_ii]", theta=theta, X=X, **det))
        e = np.abs(Kp - Kp.T).max()
        if sl("sym/call", e, 4 * EPS * D) > 1:
            fails.append(fail(f"sym/{fam}/call", f"{name}: __call__(x,x) asymmetric by {e:.3e}", **det))
        lam = float(np.linalg.eigvalsh(0.5 * (Kp + Kp.T)).min())
        if sl("psd/call", max(0.0, -lam), n * tol) > 1:
            fails.append(fail(f"psd/{fam}/call", f"{name}: lambda_min of __call__(x,x) = {lam:.3e}", theta=theta, X=X, **det))
    e = np.abs(Kb - Kb.T).max()
    if sl("sym/builder", e, 4 * EPS * D) > 1:
        fails.append(fail(f"sym/{fam}/builder", f"{name}: build_covariance asymmetric by {e:.3e}", **det))
    lam = float(np.linalg.eigvalsh(0.5 * (Kb + Kb.T)).min())
    if sl("psd/builder", max(0.0, -lam), n * tol) > 1:
        fails.append(fail(f"psd/{fam}/builder", f"{name}: lambda_min of build_covariance = {lam:.3e}", theta=theta, X=X, **det))
    # ------------------------------------------------------------------ rectangular blocks
    if True:
        U = np.vstack([X[: max(1, n // 2)] + 0.071 * xs, X[:1] * 0.5 - 0.3 * xs, X[-1:]])  # m = n//2 + 2 points, one is a data point
        for nameuv, (A, Bm) in (("(m,n)", (U, X)), ("(1,n)", (U[1:2], X)), ("(m,1)", (U, X[:1]))):
            try:
                with lib(f"call{nameuv}"):
                    Kab = np.asarray(k(A, Bm, theta))
                    Kba = np.asarray(k(Bm, A, theta))
                nev += 2
            except LibFailure as e:
                fails.append(fail(f"block/{pcls(spec, d)}/raises:{e.exc_type}", f"{name} d={d}: __call__(u,v) with shapes {A.shape},{Bm.shape} raised {e}", traceback=e.tb, **det))
                continue
            if Kab.shape != (A.shape[0], Bm.shape[0]) or Kba.shape != (Bm.shape[0], A.shape[0]):
                fails.append(fail(f"block/{pcls(spec, d)}/shape", f"{name} d={d}: __call__(u,v) shapes {Kab.shape},{Kba.shape} for u{A.shape} v{Bm.shape}", **det))
                continue
            ref = R.cross_cov_float(spec, theta, A, Bm, n)
            e = np.abs(Kab - ref).max()
            if sl("block/vs-formula", e, tol) > 1:
                fails.append(fail(f"block/{fam}/call-vs-formula", f"{name}: |K(u,v) - formula| {e:.3e} > {tol:.2e} for u{A.shape} v{Bm.shape}", theta=theta, X=X, **det))
            e = np.abs(Kab - Kba.T).max()
            if sl("block/transpose", e, 4 * EPS * D) > 1:
                fails.append(fail(f"block/{fam}/transpose", f"{name}: K(u,v) != K(v,u)^T by {e:.3e}", **det))
            tags.add(f"block{nameuv}")
    # ------------------------------------------------------------------ gradients
    with lib("covariance_and_gradients"):
        Kg, grads = k.covariance_and_gradients(theta)
    nev += 1
    Kg = np.asarray(Kg)
    grads = [np.asarray(g) for g in grads]
    e = np.abs(Kg - Kb).max() if Kg.shape == Kb.shape else float("inf")
    if sl("grad/K-vs-builder", e, 8 * EPS * D) > 1:
        fails.append(fail(f"grad/{fam}/value-differs-from-builder", f"{name}: covariance_and_gradients K differs from build_covariance by {e:.3e}", **det))
    if len(grads) != P:
        fails.append(fail(f"grad/{fam}/count", f"{name}: {len(grads)} gradient matrices for {P} parameters", **det))
    else:
        for p, (g, gr, inf) in enumerate(zip(grads, Gref, info)):
            key = f"grad/{inf['owner']}/{inf['kind']}"
            if g.shape != (n, n):
                fails.append(fail(key + "/shape", f"{name}: gradient {p} has shape {g.shape}", **det))
                continue
            tg = 256 * EPS * kappa * sp[p] * D
            dg = np.abs(g - gr)
            eo = dg[off].max() if n > 1 else 0.0
            ed = np.diag(dg).max()
            r1 = sl(f"grad/{inf['kind']}/offdiag", eo, tg)
            r2 = sl(f"grad/{inf['kind']}/diag", ed, tg + 2 * JIT * sp[p] * Dk)
            if r1 > 1 or r2 > 1:
                fails.append(
                    fail(
                        key,
                        f"{name}: gradient w.r.t. parameter {p} ({inf['kind']} of {inf['path']}, label {labels[p] if p < len(labels) else '?'}) differs from the true "
                        f"partial derivative: off-diag {eo:.3e} (tol {tg:.2e}), diag {ed:.3e}",
                        theta=theta,
                        X=X,
                        param=p,
                        **det,
                    )
                )
            e = np.abs(g - g.T).max()
            if sl("sym/gradient", e, 8 * EPS * sp[p] * D) > 1 and not (r1 > 1 or r2 > 1):
                fails.append(fail(f"sym/{inf['owner']}/gradient-{inf['kind']}", f"{name}: gradient {p} asymmetric by {e:.3e}", **det))
    # inputs not modified
    if not np.array_equal(theta, th_before) or not np.array_equal(X, X_before):
        fails.append(fail(f"value/{fam}/inputs-modified", f"{name}: theta or x modified in place", **det))
    # ------------------------------------------------------------------ composition: stand-alone components
    if not isinstance(spec, str):
        kd = R.kind(spec)
        comps = flat_components(spec) if kd in ("add", "comp") else list(spec[2:])
        objs = []
        for c in comps:
            o = R.make_kernel(c)
            with lib("component.pass_spatial_data"):
                o.pass_spatial_data(X.copy())
            objs.append(o)
        counts = [R.n_params(c, n, d) for c in comps]
        pos = np.concatenate([[0], np.cumsum(counts)]).astype(int)
        # labels
        exp_labels = [l for o in objs for l in o.hyperpar_labels]
        got = labels[: len(exp_labels)]
        if len(got) != len(exp_labels) or not all(label_match(a, b) for a, b in zip(got, exp_labels)):
            fails.append(fail(f"compose/{fam}/labels", f"{name}: labels {labels} are not the components' labels {exp_labels} in order", **det))
        if kd == "cp":
            rest = labels[len(exp_labels) :]
            okl = len(rest) == 2 * (len(comps) - 1) and all(("loc" in rest[2 * q].lower()) and ("width" in rest[2 * q + 1].lower()) for q in range(len(comps) - 1))
            if not okl:
                fails.append(fail(f"compose/{fam}/changepoint-labels", f"{name}: change-point labels {rest}", **det))
        else:
            parts = []
            pg = []
            with lib("component.covariance_and_gradients"):
                for o, a, b in zip(objs, pos[:-1], pos[1:]):
                    Kc, gc = o.covariance_and_gradients(theta[a:b])
                    parts.append(np.asarray(Kc))
                    pg += [np.asarray(g) for g in gc]
            nev += len(objs)
            e = np.abs(sum(parts) - Kb).max()
            if sl("compose/value", e, 8 * EPS * D) > 1:
                fails.append(fail(f"compose/{fam}/value-not-sum-of-components", f"{name}: K differs from the sum of stand-alone components by {e:.3e}", **det))
            if len(pg) != len(grads) or any(np.abs(a - b).max() > 8 * EPS * D * s for a, b, s in zip(pg, grads, sp)):
                fails.append(fail(f"compose/{fam}/gradients-not-concatenated", f"{name}: gradient list is not the concatenation of the components' gradients", **det))
            # pairwise evaluation: the composite's __call__ is the sum over its NON-noise components, each evaluated stand-alone with
            # ITS OWN slice of the hyper-parameter vector (the index-delta terms of the noise components exist only in the builder)
            signal = [(o, a, b) for o, c, a, b in zip(objs, comps, pos[:-1], pos[1:]) if not (isinstance(c, str) and c in R.NOISE)]
            where = ",".join("N" if (isinstance(c, str) and c in R.NOISE) else "S" for c in comps)
            for nameuv, A_, B_ in (("(x,x)", X, X), ("(u,x)", U, X), ("(x,u)", X, U)):
                try:
                    with lib(f"composite.__call__{nameuv}"):
                        Kc_ = np.asarray(k(A_.copy(), B_.copy(), theta.copy()), dtype=float)
                    with lib(f"component.__call__{nameuv}"):
                        Ks_ = sum((np.asarray(o(A_.copy(), B_.copy(), theta[a:b].copy()), dtype=float) for o, a, b in signal), np.zeros((A_.shape[0], B_.shape[0])))
                    nev += 1 + len(signal)
                except LibFailure as e:
                    fails.append(fail(f"compose/{pcls(spec, d)}/pairwise-raises:{e.exc_type}", f"{name} d={d}: pairwise evaluation {nameuv} raised {e}", traceback=e.tb, **det))
                    continue
                e = np.abs(Kc_ - Ks_).max() if Kc_.shape == Ks_.shape else float("inf")
                if sl("compose/pairwise", e, 8 * EPS * D) > 1:
                    fails.append(fail(f"compose/{fam}/pairwise-not-sum-of-signal-components-with-own-parameters",
                                      f"{name} (components signal/noise: {where}): __call__{nameuv} differs from the sum of the stand-alone non-noise components, each with its own slice of theta, by {e:.3e}", theta=theta, X=X, **det))
            if "N" in where:
                tags.add(f"compose-pairwise:{kd}:{where}")
        # bounds (needs n >= 2 and spread in the data for the estimates to exist)
        if n >= 2 and case["design"] != "dups":
            y = R.y_values(X)
            with lib("estimate_hyperpar_bounds"):
                k.estimate_hyperpar_bounds(y)
                for o in objs:
                    o.estimate_hyperpar_bounds(y)
            nev += 1
            got = [tuple(float(v) for v in b) for b in k.bounds]
            exp = [tuple(float(v) for v in b) for o in objs for b in o.bounds]
            if len(got) != P:
                fails.append(fail(f"compose/{fam}/bounds-count", f"{name}: {len(got)} bounds for {P} parameters", **det))
            head = got[: len(exp)]
            if len(head) != len(exp) or not all(np.allclose(a, b, rtol=1e-12, atol=0, equal_nan=True) for a, b in zip(head, exp)):
                fails.append(fail(f"compose/{fam}/bounds-not-concatenated", f"{name}: bounds {head} are not the components' bounds {exp} in order", **det))
            tags.add(f"bounds:{kd}")
    if "xscale" in case:
        for f_ in fails:
            f_["key"] = "xscale/" + f_["key"]
        slack = {"xscale/" + k_: v_ for k_, v_ in slack.items()}
        tags = {f"xscale={xs:g}:{name},d={d},n={n},{case['design']}", f"xscale={xs:g}:family={fam},pattern={case['pattern']}"}
    else:
        tags.add(f"{name},d={d},n={n},{case['design']}")
        tags.add(f"family={fam},pattern={case['pattern']}")
    return {
        "fails": fails[:30],
        "n": nev,
        "tags": tags,
        "slack": slack,
        "sample": {"kernel": name, "n": n, "d": d, "theta": theta.tolist(), "lambda_min": lam, "kappa": kappa},
    }


def ev_userbounds(case):
    """bounds given by the user (to a component, or as location_bounds / width_bounds of a ChangePoint) must be what the composite
    reports at their positions; what was NOT given is the stand-alone component's own estimate (components) or a valid interval
    (change-point location / width).  case: form in sum / comp / cp, given = [bool per component], loc / wid = bool (cp only)."""
    from inference.gp.covariance import ChangePoint, CompositeCovariance, RationalQuadratic, SquaredExponential, WhiteNoise

    n, d = case["n"], case["d"]
    X = R.design("regular", n, d, case["seed"])
    y = R.y_values(X)
    ub = {
        "SE": [(-1.0 - 0.1 * i, 1.5 + 0.2 * i) for i in range(1 + d)],
        "RQ": [(-2.0 + 0.1 * i, 0.5 + 0.3 * i) for i in range(2 + d)],
        "WN": [(-5.5, -0.25)],
    }
    cls_of = {"SE": SquaredExponential, "RQ": RationalQuadratic, "WN": WhiteNoise}
    loc = [(0.1 + 0.2 * q, 0.3 + 0.2 * q) for q in range(3)]
    wid = [(0.01 * (q + 1), 0.5 + 0.1 * q) for q in range(3)]
    fails, tags, nev = [], set(), 0

    def same(a, b):
        return len(a) == len(b) and all(np.allclose(np.asarray(p, float), np.asarray(q, float), rtol=1e-12, atol=0) for p, q in zip(a, b))

    form = case["form"]
    if form == "sum":
        kinds = ["SE", "RQ", "WN"]
    elif form == "comp":
        kinds = ["RQ", "SE"]
    else:
        nk = case["nk"]
        kinds = ["SE" if q % 2 == 0 else "RQ" for q in range(nk)]
    given = list(case.get("given", [True, False, True] if form == "sum" else [True] * len(kinds)))
    loc_given, wid_given = bool(case.get("loc", True)), bool(case.get("wid", True))
    with lib("component constructors"):
        parts = [cls_of[kd](hyperpar_bounds=list(ub[kd])) if g else cls_of[kd]() for kd, g in zip(kinds, given)]
    # what each component says on its own: the given bounds, else the estimate of a stand-alone instance on the same data
    exp = []
    for kd, g in zip(kinds, given):
        if g:
            exp.append(list(ub[kd]))
        else:
            o = cls_of[kd]()
            with lib("stand-alone component.estimate_hyperpar_bounds"):
                o.pass_spatial_data(X.copy())
                o.estimate_hyperpar_bounds(y.copy())
            exp.append([tuple(b) for b in o.bounds])
    with lib("composite constructor"):
        if form == "sum":
            k = parts[0]
            for p_ in parts[1:]:
                k = k + p_
        elif form == "comp":
            k = CompositeCovariance(parts)
        else:
            kw = {}
            if loc_given:
                kw["location_bounds"] = list(loc[: nk - 1])
            if wid_given:
                kw["width_bounds"] = list(wid[: nk - 1])
            k = ChangePoint(kernels=parts, **kw)
    with lib("pass_spatial_data"):
        k.pass_spatial_data(X)
    with lib("estimate_hyperpar_bounds"):
        k.estimate_hyperpar_bounds(y)
    nev += 1
    got = [tuple(b) for b in k.bounds]
    cls = "Sum" if form in ("sum", "comp") else "ChangePoint"
    det = dict(n=n, d=d, form=form, given=given, **({"nk": nk, "location_bounds_given": loc_given, "width_bounds_given": wid_given} if form == "cp" else {}))
    ncomp = sum(len(e) for e in exp)
    total = ncomp + (2 * (nk - 1) if form == "cp" else 0)
    if len(got) != total:
        fails.append(fail(f"compose/{cls}/bounds-count", f"{form}: {len(got)} bounds for {total} parameters: {got}", **det))
        return {"fails": fails, "n": nev, "tags": tags}
    pos = 0
    for q, (kd, g, e) in enumerate(zip(kinds, given, exp)):
        h = got[pos : pos + len(e)]
        pos += len(e)
        if not same(h, e):
            if g:
                fails.append(fail(f"compose/{cls}/component-bounds-given-by-user-not-kept",
                                  f"{form}: component {q} ({kd}) was constructed with hyperpar_bounds={e}, the composite reports {h} at its positions (all: {got})", **det))
            else:
                fails.append(fail(f"compose/{cls}/component-bounds-not-given-differ-from-stand-alone-estimate",
                                  f"{form}: component {q} ({kd}) had no bounds given; a stand-alone instance estimates {e} on the same data, the composite reports {h}", **det))
    if form == "cp":
        tail = got[ncomp:]
        gl, gw = tail[0::2], tail[1::2]
        el, ew = loc[: nk - 1], wid[: nk - 1]
        if loc_given and wid_given and not (same(gl, el) and same(gw, ew)) and sorted(map(tuple, tail)) == sorted(map(tuple, el + ew)):
            fails.append(fail("compose/ChangePoint/location-width-bounds-order", f"change-point bounds {tail} != (location_i, width_i) pairs {[v for pr in zip(el, ew) for v in pr]}", **det))
        else:
            if loc_given and not same(gl, el):
                fails.append(fail("compose/ChangePoint/location-bounds-given-by-user-not-kept",
                                  f"ChangePoint(location_bounds={el}{', width_bounds given' if wid_given else ', width_bounds not given'}): the composite reports location bounds {gl} (all change-point bounds: {tail})", **det))
            if wid_given and not same(gw, ew):
                fails.append(fail("compose/ChangePoint/width-bounds-given-by-user-not-kept",
                                  f"ChangePoint(width_bounds={ew}{', location_bounds given' if loc_given else ', location_bounds not given'}): the composite reports width bounds {gw} (all change-point bounds: {tail})", **det))
        # not given: any valid interval (location: finite, lower < upper; width: 0 < lower < upper)
        for nm_, isg, vals, lo_min in (("location", loc_given, gl, -np.inf), ("width", wid_given, gw, 0.0)):
            if not isg and not all(np.isfinite(b).all() and b[0] < b[1] and b[0] > lo_min for b in (np.asarray(v, float) for v in vals)):
                fails.append(fail(f"compose/ChangePoint/default-{nm_}-bounds-invalid", f"ChangePoint without {nm_}_bounds reports {vals}", **det))
        tags.add(f"userbounds:cp:{nk}:components={''.join('G' if g else '-' for g in given)},location={'G' if loc_given else '-'},width={'G' if wid_given else '-'}")
    else:
        tags.add(f"userbounds:{form}:components={''.join('G' if g else '-' for g in given)}")
    return {"fails": fails, "n": nev, "tags": tags}


def ev_mean(case):
    name, n, d = case["mean"], case["n"], case["d"]
    X = R.design(case["design"], n, d, case["seed"])
    theta = R.mean_theta_for(name, d, case["pattern"])
    P = R.mean_n_params(name, d)
    fails, tags, slack, nev = [], set(), {}, 0
    det = dict(mean=name, n=n, d=d, design=case["design"], pattern=case["pattern"])
    m = R.make_mean(name)
    with lib("mean.pass_spatial_data"):
        m.pass_spatial_data(X.copy())
    if m.n_params != P or len(m.hyperpar_labels) != P:
        fails.append(fail(f"mean/{name}/n_params", f"n_params {m.n_params}, labels {len(m.hyperpar_labels)}, documented {P}", **det))
        return {"fails": fails, "n": 1, "tags": tags}
    with lib("build_mean"):
        bm = np.asarray(m.build_mean(theta), dtype=float)
    with lib("mean_and_gradients"):
        mg, grads = m.mean_and_gradients(theta)
    with lib("mean.__call__(data)"):
        cm = m(X, theta)
    nev += 3
    mg = np.asarray(mg, dtype=float)
    grads = [np.asarray(g, dtype=float) for g in grads]
    if bm.shape != (n,):
        fails.append(fail(f"mean/{name}/build_mean-shape", f"shape {bm.shape} for n={n}", **det))
        return {"fails": fails, "n": nev, "tags": tags}
    try:
        cmb = np.broadcast_to(np.asarray(cm, dtype=float), (n,)) if n > 1 or np.ndim(cm) == 0 else np.asarray(cm, dtype=float).reshape(n)
    except ValueError:
        fails.append(fail(f"mean/{name}/call-shape", f"__call__(x) shape {np.shape(cm)} for n={n}", **det))
        return {"fails": fails, "n": nev, "tags": tags}
    best = None
    Q = np.vstack([X[:1] * 0.5 + 0.2, X[-1:] + 1.3, X[:1]])
    for cname, centre in (("centroid", X.mean(axis=0)), ("origin", np.zeros(d))):
        fl = []
        ref = np.array([float(v) for v in R.mean_eval(R.MB, name, theta, X, centre)])
        basis = R.mean_gradients(name, X, centre, d)
        scale = float(np.max(sum(abs(t) * np.abs(b) for t, b in zip(theta, basis)))) + float(np.abs(X).max()) * float(np.abs(theta[1:]).sum())
        tol = 32 * EPS * max(scale, 1e-300)
        e = np.abs(bm - ref).max()
        s1 = e / tol
        if e > tol:
            fl.append(fail(f"mean/{name}/build_mean-vs-formula", f"build_mean differs from the formula by {e:.3e}", theta=theta, X=X, **det))
        e = np.abs(cmb - bm).max()
        s2 = e / tol
        if e > tol:
            fl.append(fail(f"mean/{name}/call-at-data-vs-build_mean", f"__call__(x_data) differs from build_mean by {e:.3e}", theta=theta, X=X, **det))
        e = np.abs(mg - bm).max()
        if e > tol:
            fl.append(fail(f"mean/{name}/mean_and_gradients-value", f"mean_and_gradients value differs from build_mean by {e:.3e}", **det))
        if len(grads) != P or any(g.shape != (n,) for g in grads):
            fl.append(fail(f"mean/{name}/gradient-count-or-shape", f"{len(grads)} gradients, shapes {[g.shape for g in grads]}", **det))
            s3 = 0.0
        else:
            tg = 32 * EPS * (1.0 + float(np.abs(X).max())) ** 2
            eg = [float(np.abs(g - b).max()) for g, b in zip(grads, basis)]
            s3 = max(eg) / tg
            for p, e in enumerate(eg):
                if e > tg:
                    kindp = "offset" if p == 0 else ("linear" if p <= d else "quadratic")
                    fl.append(fail(f"mean/{name}/gradient-{kindp}", f"gradient {p} differs from the true partial derivative by {e:.3e}", theta=theta, X=X, **det))
        # new points, several shapes
        refq = np.array([float(v) for v in R.mean_eval(R.MB, name, theta, Q, centre)])
        scq = scale + float(np.abs(Q).max()) ** 2 * float(np.abs(theta).sum())
        for shape_name, arg, exp in (("(m,d)", Q, refq), ("(1,d)", Q[1:2], refq[1:2]), ("(d,)", Q[1], refq[1:2])):
            with lib(f"mean.__call__{shape_name}"):
                r = m(arg, theta)
            nev += 1
            r = np.asarray(r, dtype=float)
            try:
                rb = np.broadcast_to(r, exp.shape) if r.ndim == 0 or r.shape == exp.shape else r.reshape(exp.shape)
            except ValueError:
                fl.append(fail(f"mean/{name}/call-shape", f"__call__ on {shape_name} returned shape {r.shape}", **det))
                continue
            e = np.abs(rb - exp).max()
            if e > 32 * EPS * scq:
                fl.append(fail(f"mean/{name}/call-vs-formula", f"__call__ at new points {shape_name} differs from the formula by {e:.3e}", theta=theta, X=X, **det))
        if best is None or len(fl) < len(best[0]):
            best = (fl, cname, max(s1, s2, s3))
    fails += best[0]
    slack["mean/worst"] = best[2]
    tags.add(f"mean={name},d={d},n={n},expansion={best[1]}")
    # linearity: numeric derivative by unit steps is exact for a function linear in theta
    if not fails:
        for p in range(P):
            t2 = theta.copy()
            t2[p] += 1.0
            with lib("build_mean"):
                num = np.asarray(m.build_mean(t2), dtype=float) - bm
            nev += 1
            e = np.abs(num - grads[p]).max()
            if e > 64 * EPS * (np.abs(bm).max() + np.abs(num).max() + 1.0):
                fails.append(fail(f"mean/{name}/gradient-vs-unit-step", f"gradient {p} differs from build_mean(theta+e_p)-build_mean(theta) by {e:.3e}", **det))
    if n >= 2 and case["design"] != "dups":
        with lib("mean.estimate_hyperpar_bounds"):
            m.estimate_hyperpar_bounds(R.y_values(X))
        if len(m.bounds) != P or not all(b[0] < b[1] for b in m.bounds):
            fails.append(fail(f"mean/{name}/bounds", f"bounds {m.bounds} for {P} parameters", **det))
    return {"fails": fails[:20], "n": nev, "tags": tags, "slack": slack}


def ev_selftest(case):
    """harness self-test: float/complex-step reference == 50-digit reference (values and derivatives)"""
    spec, n, d = case["spec"], case["n"], case["d"]
    X = R.design("regular", n, d, case["seed"])
    theta = R.theta_for(spec, X, case["pattern"])
    Kc = R.data_cov_float(spec, theta, X)
    Km = R.to_float(R.data_cov(R.MB, spec, theta, X))
    kap = R.condition_factor(spec, theta, X)
    Dk, Dn = amp_sum(spec, theta, n, d)
    D = Dk + Dn
    if np.abs(Kc - Km).max() > 64 * EPS * kap * D:
        raise HarnessError(f"reference back-ends disagree on values for {R.spec_name(spec)}: {np.abs(Kc - Km).max()}")
    G = R.data_cov_gradients(spec, theta, X)
    sp = R.cp_scales(spec, theta, X)
    h = R.mpf(10) ** (-20)
    for p in range(len(theta)):
        tp = [R.mpf(float(t)) for t in theta]
        tm = list(tp)
        tp[p] = tp[p] + h
        tm[p] = tm[p] - h
        A = R.data_cov(R.MB, spec, tp, X)
        Bm = R.data_cov(R.MB, spec, tm, X)
        num = np.array([[float((a - b) / (2 * h)) for a, b in zip(ra, rb)] for ra, rb in zip(A, Bm)])
        e = np.abs(num - G[p]).max()
        if e > 64 * EPS * kap * sp[p] * D:
            raise HarnessError(f"complex-step derivative disagrees with 50-digit central difference for {R.spec_name(spec)} param {p}: {e}")
    return {"fails": [], "n": 0, "tags": {"selftest"}}


# ------------------------------------------------------------------------------------------ extreme-but-legal regimes
# Lattice: {kernel} x {change-point width / data range} x {change-point location: inside, at the lower / upper data edge,
# one range below / above the data} x {length-scale / range} x {amplitude level}; the data then lie up to 1e6 widths from
# the change-point, and the rectangular blocks add query points exactly 1e3 and 2e3 widths from it and two ranges outside
# the data.  Reference: the documented formulas in mpmath (50 digits) for the values, mpmath complex step (h = 1e-40) for
# the partial derivatives.  Tolerances are entry-wise, from the rounding of the documented formula:
#   a leaf value A^2 g(Z) carries the relative error kappa eps, kappa = 1 + Z (SE), 1 + alpha + alpha ln(1 + Z/alpha) (RQ);
#   a logistic weight f or 1 - f carries an ABSOLUTE error eps (1 - f cancels; |z| f (1-f) <= 0.23), so a change-point
#   entry carries  eps * sum_leaves Kbare_leaf(u,v) (kappa_leaf + number of weight factors);
#   d f / d c = -f(1-f)/w carries eps / w absolutely, d f / d w = z d f / d c carries 40 eps / w (z e^-z where f rounds to 1).
EXT_KERNELS = [
    ["cp", 0, "SE", "SE"],
    ["cp", 0, "SE", "RQ"],
    ["cp", 0, "SE", "SE", "SE"],
    ["cp", 0, ["add", "SE", "WN"], "RQ"],
    ["cp", 0, "SE", ["cp", 0, "RQ", "SE"]],
    ["add", ["cp", 0, "RQ", "SE"], "WN"],
    ["cp", 1, "SE", "RQ"],
    "SE",
    "RQ",
    ["add", "SE", "RQ", "WN"],
]
EXT_WIDTHS = [1.0, 1e-2, 1e2, 1e-4, 1e-6]  # in units of the data range along the change-point axis, simplest first
EXT_LOCS = ["inside", "lower-edge", "upper-edge", "below", "above"]
EXT_SCALES = [1.0, 1e-3, 1e3]  # length-scale / data range
EXT_AMPS = ["pattern", "+10", "-10", "mixed"]
EXT_H = R.mpf(10) ** (-40)
EXT_FLOOR = 1e-300


def ext_theta(spec, X, pattern, reg):
    """hyper-parameters of the regime: the pattern vector with the regime's levels written over it"""
    n, d = X.shape
    theta = R.theta_for(spec, X, pattern)
    lo, hi = X.min(axis=0), X.max(axis=0)
    rng = np.where(hi > lo, hi - lo, 1.0)
    leafno = {}
    for p, inf in enumerate(R.param_info(spec, n, d)):
        kd = inf["kind"]
        if kd == "log-amplitude":
            j = leafno.setdefault(inf["path"], len(leafno))
            if reg["amp"] != "pattern":
                theta[p] = {"+10": 10.0, "-10": -10.0, "mixed": 10.0 if j % 2 == 0 else -10.0}[reg["amp"]]
        elif kd == "log-scale":
            theta[p] = float(np.log(reg["ls"] * rng[inf["dim"]])) + 0.05 * inf["dim"]
        elif kd == "cp-location":
            ax = reg["axis_of"][inf["path"]]
            if inf["cp"] == 0:
                l_, h_, r_ = float(lo[ax]), float(hi[ax]), float(rng[ax])
                theta[p] = {"inside": theta[p], "lower-edge": l_, "upper-edge": h_, "below": l_ - r_, "above": h_ + r_}[reg["loc"]]
        elif kd == "cp-width":
            theta[p] = reg["w"] * float(rng[reg["axis_of"][inf["path"]]])
    return theta


def ext_axes(spec, path=""):
    """{path of a change-point node: its axis}; paths as in R.param_info"""
    if isinstance(spec, str):
        return {}
    here = path + spec[0]
    out = {here: spec[1]} if spec[0] == "cp" else {}
    for j, c in enumerate(R.children(spec)):
        out.update(ext_axes(c, f"{here}{j}>"))
    return out


def ext_leaves(spec, n, d, path="", pos=0, nf=0):
    """[(leaf kind, first parameter, path, number of weight factors on it)] in parameter order"""
    k = R.kind(spec)
    here = path + k
    if k in R.LEAVES:
        return [(k, pos, here, nf)]
    out = []
    for j, c in enumerate(R.children(spec)):
        out += ext_leaves(c, n, d, f"{here}{j}>", pos, nf + (4 if k == "cp" else 0))
        pos += R.n_params(c, n, d)
    return out


def ev_extreme(case):
    spec, n, d, reg = case["spec"], case["n"], case["d"], dict(case["regime"])
    X = R.design(case["design"], n, d, case["seed"])
    reg["axis_of"] = ext_axes(spec)
    theta = ext_theta(spec, X, case["pattern"], reg)
    name, fam = R.spec_name(spec), R.family(spec)
    info = R.param_info(spec, n, d)
    P = len(info)
    fails, seen, tags, slack, skipped, nev = [], {}, set(), {}, {}, 0
    det = dict(kernel=name, n=n, d=d, design=case["design"], pattern=case["pattern"], regime=case["regime"], theta=theta, X=X)

    def bad(key, what, **kw):
        seen[key] = seen.get(key, 0) + 1
        if seen[key] == 1:
            fails.append(fail(key, what, **det, **kw))

    def sl(key, err, tol):
        with np.errstate(all="ignore"):
            r = float(np.max(np.asarray(err, float) / np.asarray(tol, float)))
        r = r if r == r else float("inf")
        if r > slack.get(key, -1.0):
            slack[key] = r
        return r

    # ------------------------------------------------------------------ points: the data, and a block of query points
    cpn = [p for p, inf in enumerate(info) if inf["kind"] == "cp-location" and inf["cp"] == 0]
    lo, hi = X.min(axis=0), X.max(axis=0)
    rng = np.where(hi > lo, hi - lo, 1.0)
    U = [X[0].copy(), lo - 2.0 * rng, hi + 2.0 * rng]
    if cpn:
        p0 = cpn[0]
        ax = reg["axis_of"][info[p0]["path"]]
        c0, w0 = float(theta[p0]), float(theta[p0 + 1])
        for mult in (1e3, -1e3, 2e3, -2e3, 0.5):
            q = X[n // 2].copy()
            q[ax] = c0 + mult * w0
            U.append(q)
    U = np.array(U)

    # ------------------------------------------------------------------ reference (mpmath) and entry-wise bounds
    th_mp = [R.mpf(float(t)) for t in theta]
    fval = R.bind(R.MB, spec, th_mp, n, d)
    fder = []
    for p in range(P):
        tp = list(th_mp)
        tp[p] = R.mp.mpc(th_mp[p], EXT_H)
        fder.append(R.bind(R.MCB, spec, tp, n, d))
    PX, PU = R._pts(R.MB, X), R._pts(R.MB, U)

    def ref_matrix(PA, PB, same, with_grads):
        na, nb = len(PA), len(PB)
        K = np.zeros((na, nb))
        G = [np.zeros((na, nb)) for _ in range(P)] if with_grads else []
        for i in range(na):
            for j in range(i if same else 0, nb):
                K[i, j] = float(fval(PA[i], PB[j], i, j, same))
                for p in range(P if with_grads else 0):
                    G[p][i, j] = float(fder[p](PA[i], PB[j], i, j, same).imag / EXT_H)
                if same:
                    K[j, i] = K[i, j]
                    for p in range(P if with_grads else 0):
                        G[p][j, i] = G[p][i, j]
        return K, G

    Kref, Gref = ref_matrix(PX, PX, True, True)
    Kpref, _ = ref_matrix(PX, PX, False, False)
    Kuref, _ = ref_matrix(PU, PX, False, False)
    # harness self-test: complex step against a 50-digit central difference at one off-diagonal entry
    hh = R.mpf(10) ** (-22)
    i_, j_ = 0, n - 1
    for p in range(P):
        tp, tm = list(th_mp), list(th_mp)
        tp[p], tm[p] = th_mp[p] + hh, th_mp[p] - hh
        cd = (R.bind(R.MB, spec, tp, n, d)(PX[i_], PX[j_], i_, j_, True) - R.bind(R.MB, spec, tm, n, d)(PX[i_], PX[j_], i_, j_, True)) / (2 * hh)
        cs = fder[p](PX[i_], PX[j_], i_, j_, True).imag / EXT_H
        f0 = R.mpf(sum(amp_sum(spec, theta, n, d)))  # the difference quotient carries 1e-50 (sum of A^2) / h (weights 1 - f cancel)
        if abs(cd - cs) > R.mpf(10) ** (-12) * max(abs(cd), abs(cs)) + R.mpf(10) ** (-25) * f0 + R.mpf(10) ** (-280):
            raise HarnessError(f"extreme reference: complex step {cs} vs central difference {cd} for {name} parameter {p}")

    leaves = ext_leaves(spec, n, d)

    def bounds(A, B, same):
        """(value bound, [gradient bound per parameter], bare-leaf sum) in units of eps, entry-wise on A x B"""
        A, B = np.asarray(A, float), np.asarray(B, float)
        na, nb = A.shape[0], B.shape[0]
        eye = (np.eye(na, nb) if same else np.zeros((na, nb)))
        V = np.zeros((na, nb))
        bare_sum = np.zeros((na, nb))
        per_leaf = {}
        gb = [None] * P
        for kd, pos, path, nf in leaves:
            if kd in ("WN", "HN"):
                s2 = np.exp(2 * theta[pos : pos + (1 if kd == "WN" else n)])
                Sg = eye * (s2[0] if kd == "WN" else 0.0)
                if kd == "HN" and same:
                    Sg = np.diag(s2)
                T = Sg * (2.0 + nf)
                for q in range(1 if kd == "WN" else n):
                    E = Sg if kd == "WN" else (np.diag(np.eye(n)[q] * s2[q]) if same else np.zeros((na, nb)))
                    gb[pos + q] = 2.0 * E * (2.0 + nf)
            else:
                off = 1 if kd == "SE" else 2
                ls = np.exp(theta[pos + off : pos + off + d])
                r2 = ((A[:, None, :] - B[None, :, :]) / ls[None, None, :]) ** 2
                Z = 0.5 * r2.sum(axis=2)
                a2 = float(np.exp(2 * theta[pos]))
                with np.errstate(all="ignore"):
                    if kd == "SE":
                        bare = a2 * np.exp(-Z)
                        kap = 1.0 + Z
                    else:
                        al = float(np.exp(theta[pos + 1]))
                        F = 1.0 + Z / al
                        bare = a2 * F ** (-al)
                        kap = 1.0 + al + al * np.log(F)
                        gb[pos + 1] = bare * (kap + nf + 1.0) * (al + al * np.log(F) + Z / F)
                T = bare * (kap + nf)
                gb[pos] = 2.0 * T
                for q in range(d):
                    gb[pos + off + q] = bare * r2[:, :, q] * (kap + nf + 3.0)
                bare_sum += bare
            V += T
            per_leaf[path] = T
        for p, inf in enumerate(info):
            if inf["kind"] in ("cp-location", "cp-width"):
                q = inf["cp"]
                w = abs(float(theta[p + 1] if inf["kind"] == "cp-location" else theta[p]))
                S = sum(T for path, T in per_leaf.items() if path.startswith(f"{inf['path']}{q}>") or path.startswith(f"{inf['path']}{q + 1}>"))
                gb[p] = (1.0 if inf["kind"] == "cp-location" else 40.0) * S / w
        return V, gb, bare_sum

    Vx, Gx, bare_x = bounds(X, X, True)
    Vp, _, _ = bounds(X, X, False)
    Vu, _, _ = bounds(U, X, False)
    D = float(np.abs(Kref).max())
    tolx, tolp, tolu = 64 * EPS * Vx + EXT_FLOOR * max(1.0, D), 64 * EPS * Vp + EXT_FLOOR * max(1.0, D), 64 * EPS * Vu + EXT_FLOOR * max(1.0, D)
    th_before, X_before = theta.copy(), X.copy()

    # ------------------------------------------------------------------ the real code
    k = R.make_kernel(spec)
    res = {}
    with np.errstate(all="ignore"):  # floating-point warnings (exp overflow to inf giving the correct limit 0) are not failures
        with lib("pass_spatial_data"):
            k.pass_spatial_data(X)
        for what, call in (
            ("build_covariance", lambda: k.build_covariance(theta)),
            ("call(x,x)", lambda: k(X, X, theta)),
            ("call(u,x)", lambda: k(U, X, theta)),
            ("call(x,u)", lambda: k(X, U, theta)),
            ("covariance_and_gradients", lambda: k.covariance_and_gradients(theta)),
        ):
            try:
                with lib(what):
                    res[what] = call()
                nev += 1
            except LibFailure as e:
                bad(f"extreme/{pcls(spec, d)}/{what}/raises:{e.exc_type}", f"{name}: {what} raised {e}", traceback=e.tb)
    if not np.array_equal(theta, th_before) or not np.array_equal(X, X_before):
        bad(f"extreme/{fam}/inputs-modified", f"{name}: theta or x modified in place")
    off = ~np.eye(n, dtype=bool)

    def finite(what, arr, shape):
        arr = np.asarray(arr, dtype=float)
        if arr.shape != shape:
            bad(f"extreme/{fam}/{what}/shape", f"{name}: {what} has shape {arr.shape}, expected {shape}")
            return None
        if not np.isfinite(arr).all():
            idx = np.argwhere(~np.isfinite(arr))[0].tolist()
            bad(f"extreme/{fam}/{what}/non-finite", f"{name}: {what} has {int((~np.isfinite(arr)).sum())} non-finite entries (first at {idx}: {arr[tuple(idx)]!r}); the documented formula gives finite values everywhere")
            return None
        return arr

    Kb = finite("build_covariance", res["build_covariance"], (n, n)) if "build_covariance" in res else None
    if Kb is not None:
        diff = Kb - Kref
        if n > 1 and sl("extreme/builder-offdiag", np.abs(diff[off]), tolx[off]) > 1:
            w_ = np.unravel_index(np.argmax(np.where(off, np.abs(diff) / tolx, 0)), diff.shape)
            bad(f"extreme/{fam}/builder-vs-formula-offdiag", f"{name}: build_covariance[{w_}] = {Kb[w_]!r}, documented formula {Kref[w_]!r} (tol {tolx[w_]:.3e})")
        dj = np.diag(diff)
        jmax = JIT * np.diag(Kpref)
        tj = np.diag(tolx)
        if (dj < -tj).any() or (dj > jmax + tj).any():
            bad(f"extreme/{fam}/builder-diagonal-terms", f"{name}: diag(K_builder) - (formula + noise variances) = {dj.tolist()} not in [0, 1e-10*K_ii]={jmax.tolist()}")
        e = float(np.abs(Kb - Kb.T).max())
        if sl("extreme/sym-builder", e, 4 * EPS * D + EXT_FLOOR) > 1:
            bad(f"extreme/{fam}/sym-builder", f"{name}: build_covariance asymmetric by {e:.3e}")
        lam = float(np.linalg.eigvalsh(0.5 * (Kb + Kb.T)).min())
        tl = float(np.linalg.norm(tolx)) + 64 * n * EPS * D
        if sl("extreme/psd-builder", max(0.0, -lam), tl) > 1:
            bad(f"extreme/{fam}/psd-builder", f"{name}: lambda_min of build_covariance = {lam:.3e} (tol {tl:.2e})")
    Kp = finite("call(x,x)", res["call(x,x)"], (n, n)) if "call(x,x)" in res else None
    if Kp is not None:
        if sl("extreme/call-vs-formula", np.abs(Kp - Kpref), tolp) > 1:
            w_ = np.unravel_index(np.argmax(np.abs(Kp - Kpref) / tolp), Kp.shape)
            bad(f"extreme/{fam}/call-vs-formula", f"{name}: __call__(x,x)[{w_}] = {Kp[w_]!r}, documented formula {Kpref[w_]!r} (tol {tolp[w_]:.3e})")
        e = float(np.abs(Kp - Kp.T).max())
        if sl("extreme/sym-call", e, 4 * EPS * D + EXT_FLOOR) > 1:
            bad(f"extreme/{fam}/sym-call", f"{name}: __call__(x,x) asymmetric by {e:.3e}")
        lam = float(np.linalg.eigvalsh(0.5 * (Kp + Kp.T)).min())
        tl = float(np.linalg.norm(tolp)) + 64 * n * EPS * D
        if sl("extreme/psd-call", max(0.0, -lam), tl) > 1:
            bad(f"extreme/{fam}/psd-call", f"{name}: lambda_min of __call__(x,x) = {lam:.3e} (tol {tl:.2e})")
    m = U.shape[0]
    Ku = finite("call(u,x)", res["call(u,x)"], (m, n)) if "call(u,x)" in res else None
    Kut = finite("call(x,u)", res["call(x,u)"], (n, m)) if "call(x,u)" in res else None
    for what, arr, ref_, tol_ in (("call(u,x)", Ku, Kuref, tolu), ("call(x,u)", Kut, Kuref.T, tolu.T)):
        if arr is not None and sl("extreme/block-vs-formula", np.abs(arr - ref_), tol_) > 1:
            w_ = np.unravel_index(np.argmax(np.abs(arr - ref_) / tol_), arr.shape)
            bad(f"extreme/{fam}/block-vs-formula", f"{name}: {what}[{w_}] = {arr[w_]!r}, documented formula {ref_[w_]!r} (tol {tol_[w_]:.3e}); query points {U.tolist()}")
    if "covariance_and_gradients" in res:
        cg = res["covariance_and_gradients"]
        Kg = finite("covariance_and_gradients-value", cg[0], (n, n))
        if Kg is not None and Kb is not None and sl("extreme/gradK-vs-builder", np.abs(Kg - Kb), 2 * tolx) > 1:
            bad(f"extreme/{fam}/gradient-value-differs-from-builder", f"{name}: covariance_and_gradients K differs from build_covariance by {float(np.abs(Kg - Kb).max()):.3e}")
        grads = list(cg[1])
        if len(grads) != P:
            bad(f"extreme/{fam}/gradient-count", f"{name}: {len(grads)} gradient matrices for {P} parameters")
        else:
            for p, (g, gr, inf) in enumerate(zip(grads, Gref, info)):
                key = f"extreme/{inf['owner']}/gradient-{inf['kind']}"
                g = finite(f"gradient-{inf['kind']}", g, (n, n))
                if g is None:
                    continue
                if not np.isfinite(gr).all():
                    skipped["reference derivative not representable in a double"] = skipped.get("reference derivative not representable in a double", 0) + 1
                    continue
                gscale = float(np.abs(gr).max())
                tg = 256 * EPS * Gx[p] + EXT_FLOOR * max(1.0, gscale)
                if inf["kind"] in ("cp-location", "cp-width"):
                    mult = 1.0 / abs(float(theta[p + 1] if inf["kind"] == "cp-location" else theta[p]))
                else:
                    mult = 2.0 if inf["kind"] == "log-amplitude" else 1.0
                tg = tg + np.eye(n) * 2 * JIT * (np.abs(gr) + mult * bare_x)
                r = sl(f"extreme/gradient/{inf['kind']}", np.abs(g - gr), tg)
                if r > 1:
                    w_ = np.unravel_index(np.argmax(np.abs(g - gr) / tg), g.shape)
                    bad(key, f"{name}: gradient w.r.t. parameter {p} ({inf['kind']} of {inf['path']}) at [{w_}] = {g[w_]!r}, true partial derivative {gr[w_]!r} (tol {tg[w_]:.3e})", param=p)
    far_w = 0.0
    if cpn:
        far_w = float(np.abs(X[:, ax] - c0).max() / abs(w0))
    tags.add(f"extreme:{name},w={reg['w']:g},loc={reg['loc']},ls={reg['ls']:g},amp={reg['amp']},d={d}")
    if cpn:
        tags.add(f"extreme:data up to 1e{int(np.floor(np.log10(max(far_w, 1.0))))} widths from the change-point, loc={reg['loc']}")
    return {"fails": fails[:30], "n": nev, "tags": tags, "slack": slack, "skipped": skipped,
            "sample": {"kernel": name, "regime": case["regime"], "theta": theta.tolist(), "max_distance_in_widths": far_w}}


# ------------------------------------------------------------------------------------------ composition histories
# A history is a sequence of operations on ONE pool of live objects that starts with the leaf kernels:
#   ["add", i, j]   pool.append(pool[i] + pool[j])                     (either operand may be an earlier composite)
#   ["cp", i, j]    pool.append(ChangePoint(kernels=[pool[i], pool[j]]))
#   ["comp", i, j]  pool.append(CompositeCovariance([pool[i], pool[j]]))
#   ["pass", i]     pool[i].pass_spatial_data(X)                       (always the same X: components are shared objects)
#   ["bounds", i]   pool[i].estimate_hyperpar_bounds(y)                (always the same y)
#   ["eval", i]     build_covariance / covariance_and_gradients / __call__ on pool[i]   (observe="final" only)
# Every pool entry has the expression it was built from (a nested binary spec).  The property says that the value,
# gradients, labels, bounds and number of parameters of a composite are those of ITS components – so at any later time
# they must be what a freshly built object of the same expression (new leaves, built in one go, nothing else alive)
# gives, whatever has been built from, or done to, other objects in between.
#   ["data", k, rev] EVERY live object is given data set k by pass_spatial_data (k = 0: the first data x; 1: different points, same
#                   shape; 2: one point more), in order of creation or composites first (rev); later "pass" / "bounds" use set k
HIST_KINDS = ("add", "cp", "comp", "pass", "bounds", "eval", "data")
DATA_NAMES = ["x (the first data)", "x' (different points, same shape)", "x'' (one more point)"]
DATA_KINDS = ["back-to-first-data", "new-data-same-shape", "new-data-other-shape"]


def hist_init(leaves):
    return [{"spec": s, "key": json.dumps(s), "leaves": {i}, "passed": False, "b": "none"} for i, s in enumerate(leaves)]


def hist_apply_sym(pool, op):
    """book-keeping shared by run() (to enumerate) and the evaluator: what each entry is and what was done to it"""
    kd = op[0]
    if kd in ("add", "cp", "comp"):
        a, b = pool[op[1]], pool[op[2]]
        spec = ["cp", 0, a["spec"], b["spec"]] if kd == "cp" else [kd, a["spec"], b["spec"]]
        pool.append({"spec": spec, "key": json.dumps(spec), "leaves": a["leaves"] | b["leaves"], "passed": False, "b": "none"})
    elif kd == "pass":
        e = pool[op[1]]
        e["passed"] = True
        for l in e["leaves"]:  # a composite cannot be evaluated unless it hands the data to its leaves
            pool[l]["passed"] = True
    elif kd == "bounds":
        e = pool[op[1]]
        if hist_bounds_stale(pool, op[1]):
            return  # not executed (see hist_bounds_stale)
        e["b"] = "direct"
        for f in pool:  # entries sharing a leaf may or may not have had bounds stored on them: not compared
            if f is not e and f["b"] == "none" and (f["leaves"] & e["leaves"]):
                f["b"] = "indirect"
    elif kd == "data":
        # every live object is given data set op[1]: all are data-passed; bounds stored under earlier data are kept by the
        # library as if the user had given them (documented: bounds are only estimated when none are set) -> not compared
        for e in pool:
            e["passed"] = True
            if e["b"] != "none":
                e["b"] = "stale"
    elif kd != "eval":
        raise HarnessError(f"unknown history operation {op}")


def hist_bounds_stale(pool, i):
    """estimate_hyperpar_bounds on a composite that shares a leaf with an object still holding bounds from EARLIER data is not
    executed: a composite keeps the bounds already stored on its components, so what it should report is not defined by the
    property (a leaf kernel re-estimates from scratch and is always executed)"""
    e = pool[i]
    if len(e["leaves"]) == 1 and isinstance(e["spec"], str):
        return False
    return any(f["b"] == "stale" and (f["leaves"] & e["leaves"]) for f in pool)


def hist_next_ops(pool, builders, observe):
    m = len(pool)
    ops = [[kd, i, j] for kd in builders for i in range(m) for j in range(m) if i != j]
    ops += [["pass", i] for i in range(m)]
    ops += [["bounds", i] for i in range(m) if pool[i]["passed"]]
    if observe == "final":
        ops += [["eval", i] for i in range(m) if pool[i]["passed"]]
    return ops


def hist_text(op):
    kd = op[0]
    if kd == "add":
        return f"k{{new}} = k{op[1]} + k{op[2]}"
    if kd == "cp":
        return f"k{{new}} = ChangePoint([k{op[1]}, k{op[2]}])"
    if kd == "comp":
        return f"k{{new}} = CompositeCovariance([k{op[1]}, k{op[2]}])"
    if kd == "data":
        return "for every live k (%s): k.pass_spatial_data(%s)" % ("composites first" if len(op) > 2 and op[2] else "in order of creation", DATA_NAMES[op[1]])
    return {"pass": "k%d.pass_spatial_data(x)", "bounds": "k%d.estimate_hyperpar_bounds(y)", "eval": "evaluate k%d"}[kd] % op[1]


def hist_describe(leaves, ops):
    out = [f"k{i} = {s}()" for i, s in enumerate(leaves)]
    m = len(leaves)
    for op in ops:
        t = hist_text(op)
        if "{new}" in t:
            t = t.replace("{new}", str(m))
            m += 1
        out.append(t)
    return out


def _bounds_list(b):
    return None if b is None else [tuple(float(v) for v in p) for p in b]


def _same_bounds(a, b):
    if a is None or b is None:
        return a is None and b is None
    return len(a) == len(b) and all(np.array_equal(np.asarray(p), np.asarray(q), equal_nan=True) for p, q in zip(a, b))


_HREF = {}  # reference (harness-only, pure) values per (expression, data, pattern); shared by the cases a worker runs


def hist_reference(key, spec, n, d, design, seed, pat, X=None, ds=0):
    k = (key, n, d, design, seed, pat, ds)
    r = _HREF.get(k)
    if r is None:
        if X is None:
            X = R.design(design, n, d, seed)
        theta = R.theta_for(spec, X, pat)
        Dk, Dn = amp_sum(spec, theta, n, d)
        r = (theta, R.data_cov_float(spec, theta, X), R.cross_cov_float(spec, theta, X, X, n), 64 * EPS * R.condition_factor(spec, theta, X) * (Dk + Dn))
        _HREF[k] = r
    return r


def _pack(ev):
    """(Kb, Kg, grads, Kc) -> comparable bytes with shapes: equality of these is bit-for-bit equality of the results"""
    Kb, Kg, grads, Kc = ev
    return [(a.shape, np.ascontiguousarray(a, dtype=float).tobytes()) for a in (Kb, Kg, Kc)], [(g.shape, np.ascontiguousarray(g, dtype=float).tobytes()) for g in grads]


class _Hist:
    """per-case context: the data, and per expression the results of freshly built objects (each computed once per case)"""

    def __init__(self, case):
        self.case = case
        self.d = case["d"]
        n0, d, des, sd = case["n"], case["d"], case["design"], case["seed"]
        # data sets: 0 = the data of the history; 1 = different points of the same shape; 2 = one point more
        X0 = R.design(des, n0, d, sd)
        X1 = R.design("permuted" if des == "regular" else "regular", n0, d, sd + 1) * 0.75 + 0.0625
        X2 = R.design(des, n0 + 1, d, sd + 2)
        self.sets = [(X, R.y_values(X)) for X in (X0, X1, X2)]
        if n0 > 1 and np.allclose(np.abs(X0[:, None, :] - X0[None, :, :]), np.abs(X1[:, None, :] - X1[None, :, :])):
            raise HarnessError("the second data set has the same pairwise separations as the first")
        self.cur = 0
        self.last_which = None
        self.patterns = (case["pattern"] % 9, (case["pattern"] + 4) % 9)
        self.fresh = {}
        self.slack = {}
        self.nev = 0

    X = property(lambda self: self.sets[self.cur][0])
    y = property(lambda self: self.sets[self.cur][1])
    n = property(lambda self: self.sets[self.cur][0].shape[0])

    def get(self, ent):
        key = ent["key"]
        f = self.fresh.get((key, self.cur))
        if f is not None:
            return f
        spec, n, d, X, c = ent["spec"], self.n, self.d, self.X, self.case
        f = {"P": R.n_params(spec, n, d), "fam": R.family(spec), "name": R.spec_name(spec), "th": [], "ev": [], "packed": [], "oneshot": []}
        # one new object per hyper-parameter vector, and one for the bounds: a fresh object has no history at all
        for pat in self.patterns:
            theta, Kref, Kpref, tol = hist_reference(key, spec, n, d, c["design"], c["seed"], pat, X, self.cur)
            o = R.make_kernel(spec)
            with lib("fresh.pass_spatial_data"):
                o.pass_spatial_data(X.copy())
            f["P_fresh"] = o.n_params
            f["labels"] = list(o.hyperpar_labels)
            f["b_none"] = _bounds_list(o.bounds)
            f["th"].append(theta)
            if o.n_params != len(theta):
                f["ev"].append(None)
                f["packed"].append(None)
                f["oneshot"].append(("n_params", f"a freshly built {f['name']} has n_params {o.n_params}, its components have {f['P']}"))
                continue
            ev = self.evaluate(o, theta, "fresh.")
            f["ev"].append(ev)
            f["packed"].append(_pack(ev))
            # the fresh object against the documented formula of its components (same oracle as value/.. of ev_kernel);
            # a history object that equals the fresh one bit-for-bit inherits this
            Kb = ev[0]
            if Kb.shape != (n, n):
                f["oneshot"].append(("value-shape", f"build_covariance of a freshly built {f['name']} has shape {Kb.shape}"))
                continue
            diff = Kb - Kref
            e = float(np.abs(diff[~np.eye(n, dtype=bool)]).max()) if n > 1 else 0.0
            dj = np.diag(diff)
            jmax = JIT * np.diag(Kpref)
            self.slack["history/fresh-value-vs-formula-offdiag"] = max(self.slack.get("history/fresh-value-vs-formula-offdiag", 0.0), e / tol)
            if e > tol or (dj < -tol).any() or (dj > jmax + tol).any():
                f["oneshot"].append(("value-vs-formula", f"build_covariance of a freshly built {f['name']} differs from the documented formula: off-diagonal {e:.3e} (tol {tol:.2e}), diagonal excess {dj.tolist()}"))
        o = R.make_kernel(spec)
        with lib("fresh.estimate_hyperpar_bounds"):
            o.pass_spatial_data(X.copy())
            o.estimate_hyperpar_bounds(self.y.copy())
        f["b_direct"] = _bounds_list(o.bounds)
        self.nev += 3
        self.fresh[(key, self.cur)] = f
        return f

    def evaluate(self, o, theta, pre=""):
        with lib(pre + "build_covariance"):
            Kb = np.asarray(o.build_covariance(theta.copy()))
        with lib(pre + "covariance_and_gradients"):
            Kg, grads = o.covariance_and_gradients(theta.copy())
        with lib(pre + "call(x,x)"):
            Kc = np.asarray(o(self.X, self.X, theta.copy()))
        self.nev += 3
        return Kb, np.asarray(Kg), [np.asarray(g) for g in grads], Kc


def hist_observe(H, obj, ent, which):
    """differences between a live history object and what its expression says: list of (attribute, text)"""
    f = H.get(ent)
    out = [("oneshot-" + a, t) for a, t in f["oneshot"]]
    with lib("read n_params/labels/bounds"):
        P, labels, bnd = obj.n_params, list(obj.hyperpar_labels), obj.bounds
    if P != f["P"]:
        out.append(("n_params", f"n_params is {P}, the components of {f['name']} have {f['P']}"))
    if labels != f["labels"]:
        out.append(("labels", f"labels are {labels}, a freshly built {f['name']} has {f['labels']}"))
    if ent["b"] in ("none", "direct"):
        bnd = _bounds_list(bnd)
        if not _same_bounds(bnd, f["b_" + ent["b"]]):
            out.append(("bounds", f"bounds are {bnd}, a freshly built {f['name']} ({'estimated' if ent['b'] == 'direct' else 'never estimated'}) has {f['b_' + ent['b']]}"))
    if P != f["P"]:
        return out
    for w in which:
        theta, fe, fp = f["th"][w], f["ev"][w], f["packed"][w]
        if fe is None:
            continue
        ev = H.evaluate(obj, theta)
        mats, grads = _pack(ev)
        # bit-for-bit what a fresh object of the same expression returns (identical arithmetic, so no tolerance)
        if mats != fp[0]:
            for attr, a, b in (("value", ev[0], fe[0]), ("value-from-covariance_and_gradients", ev[1], fe[1]), ("pairwise-call", ev[3], fe[3])):
                if a.shape != b.shape or not np.array_equal(a, b, equal_nan=True):
                    dv = float(np.abs(a - b).max()) if a.shape == b.shape else float("inf")
                    out.append((attr, f"{attr} (shape {a.shape}) differs from that of a freshly built {f['name']} (shape {b.shape}) by {dv:.3e}"))
        if grads != fp[1]:
            if len(grads) != len(fp[1]):
                out.append(("gradient-count", f"{len(grads)} gradient matrices, a freshly built {f['name']} returns {len(fp[1])}"))
            else:
                badp = [p for p, (a, b) in enumerate(zip(grads, fp[1])) if a != b]
                out.append(("gradients", f"gradients w.r.t. parameters {badp} differ from those of a freshly built {f['name']}"))
    return out


def hist_run(H, leaves, ops, observe, seen, fails, tags):
    """execute one history from scratch, checking after every operation; returns False at the first discrepancy"""
    from inference.gp.covariance import ChangePoint, CompositeCovariance

    pool = hist_init(leaves)
    objs = [R.make_kernel(s) for s in leaves]
    H.cur, H.last_which = 0, None  # every history starts on the first data set

    def report(t, opkind, i, attr, text):
        ent = pool[i]
        key = f"history/{R.family(ent['spec'])}/{attr}/exposed-by:{opkind}"
        seen[key] = seen.get(key, 0) + 1
        if seen[key] == 1:
            fails.append(
                fail(
                    key,
                    f"k{i} (built as {R.spec_name(ent['spec'])}) after [{'; '.join(hist_describe(leaves, ops[:t]))}]: {text}",
                    history=hist_describe(leaves, ops[:t]),
                    ops=ops[:t],
                    victim=i,
                    victim_expression=R.spec_name(ent["spec"]),
                    n=H.n,
                    d=H.d,
                    reproduce=dict(H.case, prefix=ops[:t], depth=t),
                )
            )

    def check(t, opkind, idx, which):
        ok = True
        for i in idx:
            if not pool[i]["passed"]:
                continue
            if which:
                H.last_which = which[-1]
            try:
                diffs = hist_observe(H, objs[i], pool[i], which)
            except LibFailure as e:
                diffs = [(f"raises:{e.exc_type}", f"{e}")]
            if diffs:  # the first differing attribute (layout before values) names the failure; the rest is listed with it
                report(t, opkind, i, diffs[0][0], "; ".join(text for _, text in diffs[:4]))
                ok = False
        return ok

    skipped_bounds = 0
    for t, op in enumerate(ops):
        kd = op[0]
        X, y = H.X, H.y  # the current data set
        try:
            if kd == "add":
                with lib("k + k"):
                    objs.append(objs[op[1]] + objs[op[2]])
            elif kd == "cp":
                with lib("ChangePoint"):
                    objs.append(ChangePoint(kernels=[objs[op[1]], objs[op[2]]]))
            elif kd == "comp":
                with lib("CompositeCovariance"):
                    objs.append(CompositeCovariance([objs[op[1]], objs[op[2]]]))
            elif kd == "pass":
                with lib("pass_spatial_data"):
                    objs[op[1]].pass_spatial_data(X.copy())
            elif kd == "bounds":
                if hist_bounds_stale(pool, op[1]):
                    skipped_bounds += 1
                else:
                    with lib("estimate_hyperpar_bounds"):
                        objs[op[1]].estimate_hyperpar_bounds(y.copy())
            elif kd == "data":
                H.cur = op[1]
                X, y = H.X, H.y
                for o in (objs[::-1] if len(op) > 2 and op[2] else objs):
                    with lib("pass_spatial_data(new data)"):
                        o.pass_spatial_data(X.copy())
                    H.nev += 1
            H.nev += 1
        except LibFailure as e:
            report(t + 1, DATA_KINDS[op[1]] if kd == "data" else kd, 0 if kd == "data" else op[1], f"raises:{e.exc_type}", f"{hist_text(op).replace('{new}', 'new')} raised {e}")
            return False
        hist_apply_sym(pool, op)
        if kd == "eval":
            ok = check(t + 1, kd, [op[1]], (t % 2,))
        elif kd == "data":
            # first with the hyper-parameter pattern of the most recent evaluation before the data changed, then with the other one
            lw = H.last_which if H.last_which is not None else t % 2
            ok = check(t + 1, DATA_KINDS[op[1]], range(len(pool)), (lw, 1 - lw))
        elif observe == "each":
            ok = check(t + 1, kd, range(len(pool)), (t % 2,))
        else:
            ok = True
        if not ok:
            return False
    # ---- final audit: as they are (already done after the last operation when observe == "each"); after every object has
    # been given the data again; after bounds have been estimated for every object (layout and bounds only)
    T = len(ops)
    X, y = H.X, H.y
    if observe != "each" and not check(T, "audit", range(len(pool)), (T % 2,)):
        return False
    try:
        for i, o in enumerate(objs):
            with lib("audit.pass_spatial_data"):
                o.pass_spatial_data(X.copy())
            hist_apply_sym(pool, ["pass", i])
    except LibFailure as e:
        report(T, "audit-pass", i, f"raises:{e.exc_type}", f"pass_spatial_data raised {e}")
        return False
    if not check(T, "audit-pass", range(len(pool)), ((T + 1) % 2,)):
        return False
    if any(e["b"] == "stale" for e in pool):
        # bounds from earlier data are still stored on some object: estimating bounds for all is not defined by the property
        tags.add("history:" + ">".join(op[0] + (str(op[1]) if op[0] == "data" else "") for op in ops) + f",observe={observe},bounds-from-earlier-data-kept")
        return True
    try:
        for i, o in enumerate(objs):
            with lib("audit.estimate_hyperpar_bounds"):
                o.estimate_hyperpar_bounds(y.copy())
            hist_apply_sym(pool, ["bounds", i])
    except LibFailure as e:
        report(T, "audit-bounds", i, f"raises:{e.exc_type}", f"estimate_hyperpar_bounds raised {e}")
        return False
    if not check(T, "audit-bounds", range(len(pool)), ()):
        return False
    # what this history exercised: shape of the history (operation kinds), and whether an earlier composite was re-used
    reused = any(op[0] in ("add", "cp", "comp") and max(op[1], op[2]) >= len(leaves) for op in ops)
    tags.add("history:" + ">".join(op[0] + (str(op[1]) if op[0] == "data" else "") for op in ops) + (",reuses-composite" if reused else "") + f",observe={observe}")
    return True


def ev_history(case):
    """all histories that extend case['prefix'] up to case['depth'] operations (depth == len(prefix): that one history)"""
    leaves, depth, observe = case["leaves"], case["depth"], case["observe"]
    builders = case.get("builders", ["add", "cp"])
    H = _Hist(case)
    seen, fails, tags = {}, [], set()
    count = [0]

    # breadth first, so that the first counterexample of a block is a shortest one; a failing history is not extended
    frontier = [[list(op) for op in case["prefix"]]]
    while frontier:
        nxt = []
        for ops in frontier:
            count[0] += 1
            if hist_run(H, leaves, ops, observe, seen, fails, tags) and len(ops) < depth:
                pool = hist_init(leaves)
                for op in ops:
                    hist_apply_sym(pool, op)
                nxt += [ops + [op] for op in hist_next_ops(pool, builders, observe)]
        frontier = nxt
    for f in fails:
        f["occurrences_in_case"] = seen[f["key"]]
    tags.add(f"history-leaves={'/'.join(leaves)},d={case['d']},n={case['n']},observe={observe}")
    return {
        "fails": fails[:30],
        "n": H.nev,
        "tags": tags,
        "slack": H.slack,
        "sample": {"leaves": leaves, "prefix": hist_describe(leaves, case["prefix"]), "histories": count[0], "expressions": len(H.fresh)},
    }


def redata_variants(ops, full):
    """the history with the data changed in every position: [data k] inserted before operation p (p = len: at the end), then
    [data 0] (back to the first data) before operation q >= p; k = 1 (same shape), 2 (other shape); the order in which the live
    objects receive the data alternates with the position"""
    L = len(ops)
    out = []
    for k in (1, 2):
        for p in range(L + 1):
            for q in range(p, L + 1):
                if not full and q not in (p, L):
                    continue
                out.append(ops[:p] + [["data", k, (p + k) % 2]] + ops[p:q] + [["data", 0, (q + k + 1) % 2]] + ops[q:])
    return out


def ev_redata(case):
    """every history that extends case['prefix'] up to case['depth'] operations, each with the data changed (same shape / other
    shape) and changed back in every pair of positions; observed after every operation"""
    leaves, depth = case["leaves"], case["depth"]
    builders = case.get("builders", ["add", "cp"])
    H = _Hist(case)
    seen, fails, tags = {}, [], set()
    count = 0
    frontier = [[list(op) for op in case["prefix"]]]
    while frontier:
        nxt = []
        for ops in frontier:
            for v in redata_variants(ops, case.get("full", False)):
                count += 1
                hist_run(H, leaves, v, "each", seen, fails, tags)
            if len(ops) < depth:
                pool = hist_init(leaves)
                for op in ops:
                    hist_apply_sym(pool, op)
                nxt += [ops + [op] for op in hist_next_ops(pool, builders, "each")]
        frontier = nxt
    for f in fails:
        f["occurrences_in_case"] = seen[f["key"]]
    tags.add(f"redata-leaves={'/'.join(leaves)},d={case['d']},n={case['n']}")
    return {"fails": fails[:30], "n": H.nev, "tags": tags, "slack": H.slack,
            "sample": {"leaves": leaves, "prefix": hist_describe(leaves, case["prefix"]), "histories": count, "expressions x data sets": len(H.fresh)}}


def hist_prefixes(leaves, builders, observe, length):
    """all histories of exactly ``length`` operations (the blocks handed to the workers)"""
    out = []

    def rec(ops, pool):
        if len(ops) == length:
            out.append(ops)
            return
        for op in hist_next_ops(pool, builders, observe):
            p2 = [dict(e, leaves=set(e["leaves"])) for e in pool]
            hist_apply_sym(p2, op)
            rec(ops + [op], p2)

    rec([], hist_init(leaves))
    return out


HIST_LEAVES = [["SE", "WN", "RQ"], ["RQ", "SE", "HN"], ["SE", "SE", "WN"], ["WN", "RQ", "SE"], ["RQ", "RQ", "SE"], ["SE", "HN", "SE"]]

EVALUATORS = {"kernel": ev_kernel, "userbounds": ev_userbounds, "mean": ev_mean, "selftest": ev_selftest, "history": ev_history, "redata": ev_redata, "extreme": ev_extreme}


def run(ck):
    seed, quick = ck.seed, ck.quick
    if quick:
        # rotating menu of (n, d): always the smallest and the largest, plus two rotating
        nd = [(1, 1), (2, 1), (3, 2), (5, 2), (8, 3)]
        extra = [(3, 1), (5, 1), (8, 1), (2, 2), (8, 2), (2, 3), (3, 3), (5, 3), (1, 2), (1, 3)]
        nd += [extra[(2 * seed) % len(extra)], extra[(2 * seed + 1) % len(extra)]]
        designs = ["regular", "dups", ["clustered", "permuted"][seed % 2]]
    else:
        nd = ND_ALL
        designs = DESIGNS
    cases = []
    for (n, d) in nd:
        for ki, spec in enumerate(KERNELS):
            if needs_axis(spec) >= d:
                continue
            for des in designs:
                if n == 1 and des != "regular":
                    continue
                pats = range(9) if not quick else ((ki + n + seed) % 9, (ki + 4 * n + 2 * seed + 4) % 9)
                for pat in pats:
                    cases.append({"spec": spec, "n": n, "d": d, "design": des, "pattern": pat, "seed": seed, "classes": bool((ki + pat) % 2)})
    ck.run_cases("kernel", cases)
    # ---- the same configurations at absolute coordinate scales far from 1 (simplest first: the scales nearest 1)
    xmenu = [(3, 1, "regular"), (4, 2, "permuted"), (5, 3, "clustered"), (2, 1, "regular"), (4, 3, "dups"), (5, 2, "regular"), (3, 2, "clustered"), (6, 1, "permuted")]
    xcs = []
    for ki, spec in enumerate(KERNELS):
        dmin = needs_axis(spec) + 1
        for j in range(1 if quick else 4):
            n, d, des = xmenu[(ki + seed + 2 * j) % len(xmenu)]
            d = max(d, dmin)
            for pat in ([(ki + j + 2 * seed) % 9] if quick else [(ki + j + 2 * seed) % 9, (ki + j + 2 * seed + 4) % 9]):
                for xsc in XSCALES:
                    xcs.append({"spec": spec, "n": n, "d": d, "design": des, "pattern": pat, "seed": seed, "classes": bool((ki + pat) % 2), "xscale": xsc})
    ck.run_cases("kernel", xcs)
    ck.extra["xscale_lattice"] = {"scales": XSCALES, "cases": len(xcs)}
    ub = []
    for (n, d) in [(3, 1), (5, 2), (8, 3)]:
        # every given / not-given combination: per component (hyperpar_bounds), and location_bounds x width_bounds of a ChangePoint
        for form, m in (("sum", 3), ("comp", 2)):
            for bits in range(2 ** m - 1, -1, -1):  # all given first
                ub.append({"form": form, "n": n, "d": d, "seed": seed, "given": [bool(bits >> (m - 1 - q) & 1) for q in range(m)]})
        for nk in (2, 3, 4):
            for lg, wg in ((True, True), (True, False), (False, True), (False, False)):
                for bits in range(2 ** nk - 1, -1, -1):
                    ub.append({"form": "cp", "nk": nk, "n": n, "d": d, "seed": seed, "given": [bool(bits >> (nk - 1 - q) & 1) for q in range(nk)], "loc": lg, "wid": wg})
    ck.run_cases("userbounds", ub)
    mcases = []
    for name in R.MEANS:
        for (n, d) in ND_ALL:
            for des in DESIGNS if not quick else designs:
                if n == 1 and des != "regular":
                    continue
                for pat in (0, 1, 2):
                    mcases.append({"mean": name, "n": n, "d": d, "design": des, "pattern": pat, "seed": seed})
    ck.run_cases("mean", mcases)
    st = []
    for ki, spec in enumerate(KERNELS):
        for d in (1, 2) if quick else (1, 2, 3):
            if needs_axis(spec) >= d:
                continue
            st.append({"spec": spec, "n": 3 if quick else 4, "d": d, "pattern": (ki + seed) % 3, "seed": seed})
    ck.run_cases("selftest", st)
    # ---- extreme-but-legal hyper-parameter regimes (simplest first: unit width / inside / unit scale / pattern amplitudes)
    xcases = []
    for ki, spec in enumerate(EXT_KERNELS):
        iscp = R.max_cp_kernels(spec) > 0
        dmin = needs_axis(spec) + 1
        variants = [(4, max(dmin, 1 + (ki + seed) % 2), "regular")] if quick else [(4, max(dmin, 1 + (ki + seed) % 2), "regular"), (5, max(dmin, 2 - (ki + seed) % 2), "permuted")]
        for n, d, des in variants:
            for wi, w in enumerate(EXT_WIDTHS if iscp else [1.0]):
                for li, loc in enumerate(EXT_LOCS if iscp else ["inside"]):
                    for si, ls in enumerate(EXT_SCALES):
                        for ai, amp in enumerate(EXT_AMPS):
                            if quick and iscp and (si, ai) != ((wi + li + seed) % 3, (wi + 2 * li + ki + seed) % 4):
                                continue
                            xcases.append({"spec": spec, "n": n, "d": d, "design": des, "pattern": (ki + wi + seed) % 9, "seed": seed,
                                           "regime": {"w": w, "loc": loc, "ls": ls, "amp": amp}})
    ck.run_cases("extreme", xcases)
    ck.extra["extreme_regimes"] = {"kernels": [R.spec_name(s) for s in EXT_KERNELS], "width_over_range": EXT_WIDTHS, "location": EXT_LOCS,
                                   "length_scale_over_range": EXT_SCALES, "log_amplitude": EXT_AMPS, "cases": len(xcases)}
    # ---- composition histories: every sequence of <= depth operations on one pool of live objects
    hnd = [(3, 1), (4, 2), (3, 2), (4, 1)]
    L2 = [["SE", "WN"], ["RQ", "SE"], ["SE", "SE"], ["SE", "HN"]]
    if quick:
        # (leaves, constructors, depth, block prefix length, observation modes)
        plans = [(HIST_LEAVES[seed % len(HIST_LEAVES)], ["add", "cp"], 3, 2, ["each"]), (HIST_LEAVES[(seed + 1) % len(HIST_LEAVES)], ["add", "cp"], 3, 2, ["final"])]
    else:
        plans = [(lv, ["add", "cp", "comp"], 3, 2, ["each", "final"]) for lv in HIST_LEAVES]
        plans += [(L2[(seed + i) % len(L2)], ["add", "cp"], 4, 3, ["each", "final"]) for i in range(2)]
    hcases = []
    hspecs = {}
    for i, (lv, builders, depth, plen, modes) in enumerate(plans):
        for observe in modes:
            n, d = hnd[(seed + i + (observe == "final")) % len(hnd)]
            base = {"leaves": lv, "builders": builders, "observe": observe, "n": n, "d": d, "design": "regular", "pattern": (seed + 2 * i) % 9, "seed": seed}
            for l in range(plen + 1):  # the short histories themselves (each followed by the final audit), simplest first
                hcases += [dict(base, prefix=p, depth=l) for p in hist_prefixes(lv, builders, observe, l)]
            hcases += [dict(base, prefix=p, depth=depth) for p in hist_prefixes(lv, builders, observe, plen)]
        if not quick and depth == 3:
            # the expressions that two constructions can produce, as one-shot objects through every oracle of ev_kernel
            for p in hist_prefixes(lv, builders, "each", 2):
                pool = hist_init(lv)
                for op in p:
                    hist_apply_sym(pool, op)
                for e in pool[len(lv):]:
                    hspecs.setdefault(R.spec_name(e["spec"]) + repr(e["spec"]), e["spec"])
    ck.run_cases("history", hcases, chunk=1)
    # ---- the same histories with the DATA changed (same shape / one more point) and changed back, in every pair of positions
    if quick:
        rplans = [(HIST_LEAVES[(seed + 2) % len(HIST_LEAVES)], ["add", "cp"], 2, False), (HIST_LEAVES[(seed + 5) % len(HIST_LEAVES)], ["add", "cp"], 2, False), (L2[seed % len(L2)], ["add", "cp"], 2, True)]
    else:
        rplans = [(lv, ["add", "cp"], 2, True) for lv in HIST_LEAVES] + [(HIST_LEAVES[seed % len(HIST_LEAVES)], ["add", "cp", "comp"], 2, False)]
        rplans += [(L2[(seed + i) % len(L2)], ["add", "cp"], 3, False) for i in range(2)]
    rcases = []
    for i, (lv, builders, depth, full) in enumerate(rplans):
        n, d = hnd[(seed + i) % len(hnd)]
        base = {"leaves": lv, "builders": builders, "observe": "each", "n": n, "d": d, "design": "regular", "pattern": (seed + 2 * i + 1) % 9, "seed": seed, "full": full}
        plen = 1 if depth == 2 else 2
        for l in range(plen):
            rcases += [dict(base, prefix=p, depth=l) for p in hist_prefixes(lv, builders, "each", l)]
        rcases += [dict(base, prefix=p, depth=depth) for p in hist_prefixes(lv, builders, "each", plen)]
    ck.run_cases("redata", rcases, chunk=1)
    ck.extra["redata_plans"] = [{"leaves": lv, "constructors": b, "depth": dp, "all_position_pairs": f} for lv, b, dp, f in rplans]
    if hspecs:
        ck.run_cases("kernel", [{"spec": s, "n": 4, "d": 2, "design": "regular", "pattern": (q + seed) % 9, "seed": seed, "classes": False} for q, s in enumerate(hspecs.values())])
    ck.extra["history_plans"] = [{"leaves": lv, "constructors": b, "depth": dp, "observe": m} for lv, b, dp, _, m in plans]
    ck.rule = (
        "every element of {%d kernel compositions (leaves, sums built with + and with the constructor incl. nested, change-points with 2,3,4 kernels, "
        "nested/summed change-points, change-point axis 0/1)} x {(n,d)} x {point designs: regular, exact duplicates, near-duplicates, permuted+stretched} x "
        "{hyper-parameter level patterns}; the compositions include sums with a noise component in every position (first, middle, last, two noise terms, nested, inside and "
        "around a change-point, WhiteNoise and HeteroscedasticNoise), for which the pairwise __call__ (x,x and rectangular blocks) must equal the sum over the non-noise components "
        "evaluated stand-alone with their own slices of theta, and the builder that plus the documented diagonal terms; user-given bounds: every given / not-given combination of "
        "hyperpar_bounds per component (sum of 3, constructor-built composite of 2, ChangePoint of 2, 3, 4 kernels) x every given / not-given combination of location_bounds and "
        "width_bounds, on three (n, d): given bounds must be reported unchanged at their positions, not-given component bounds are the stand-alone estimate; three mean functions on the same (n,d) x designs x patterns; a case is distinct by (kernel, n, d, design) and by "
        "(family, pattern); block shapes and bound kinds exercised are counted too. Composition histories: every sequence of <= depth operations "
        "(quick 3; thorough 3 with three leaves and 4 with two) on one pool of live objects that starts with the leaf kernels, over {k_new = k_i + k_j, "
        "ChangePoint([k_i, k_j]) [, CompositeCovariance([k_i, k_j])] for all ordered pairs of live objects incl. earlier composites on either side, "
        "k_i.pass_spatial_data(x), k_i.estimate_hyperpar_bounds(y) [, evaluate k_i]}; after every operation (observe=each) or only where the history "
        "says so and at the end (observe=final), and again after all objects were re-given the data and after bounds were estimated for all, every "
        "live object must have exactly (bit for bit) the n_params, labels, bounds, build_covariance, covariance_and_gradients and __call__ results "
        "of a freshly built object of its own expression (itself checked against the documented formula); hyper-parameters alternate between two "
        "patterns along the history. A history is counted by its sequence of operation kinds, whether it re-uses a composite, and the observation mode. "
        "Data changes (evaluator redata, keys history/<family>/<attribute>/exposed-by:new-data-same-shape | new-data-other-shape | back-to-first-data): every history of <= 2 "
        "operations (thorough: all six leaf sets, also <= 3 operations with two leaves, and CompositeCovariance on one leaf set) with 'every live object is given NEW data by pass_spatial_data' (different points of the same "
        "shape, or one point more; objects served in order of creation or composites first) inserted before every operation p and at the end, and 'every live object is given the "
        "FIRST data again' inserted at every later position q (quick, three leaves: q = p and q = end); later pass / bounds operations use the current data; after every operation "
        "every object must equal, bit for bit, a freshly built object of its expression given the CURRENT data, evaluated first at the hyper-parameters of the most recent "
        "evaluation before the data changed and then at the other pattern. "
        "Coordinate-scale lattice (keys xscale/<any kernel key>): every kernel composition on a rotating (n, d, design, pattern) (thorough: four point sets x two patterns) with ALL coordinates "
        "multiplied by 1e-9, 1e-7, 1e-4, 1e4, 1e9 and the length-scales, change-point locations and widths carried along (the same configuration in other units of x), through every oracle of the "
        "kernel evaluator (builder = formula = pairwise + documented diagonal terms, blocks, symmetry, psd, gradients = exact partial derivatives of the built matrix, composition); the reference "
        "is evaluated on the same scaled floats; distinct by (scale, kernel, n, d, design) and (scale, family, pattern). "
        "Extreme regimes (keys extreme/..): {%d kernels: change-points with 2 and 3 kernels, nested, summed with noise, on axis 0/1, and SE, RQ, SE+RQ+WN} x "
        "{change-point width 1e-6, 1e-4, 1e-2, 1, 1e2 data ranges} x {location inside, at the lower / upper data edge, one range below / above the data} x "
        "{length-scale 1e-3, 1, 1e3 ranges} x {log-amplitudes from the pattern, all +10, all -10, alternating +-10} (thorough: the full product on two point sets; "
        "quick: every (width, location) with a rotating (length-scale, amplitude) pair, all 12 pairs for the kernels without change-point), so the data lie up to 1e6 "
        "widths from the change-point; build_covariance, __call__(x,x), covariance_and_gradients and the blocks __call__(u,x), __call__(x,u) with query points exactly "
        "1e3 and 2e3 widths either side of the change-point and two ranges outside the data must be finite and equal, entry by entry, the documented formula "
        "(mpmath, 50 digits) and its partial derivatives (mpmath complex step, itself checked against a central difference in every case) within the rounding of "
        "the documented formula; a regime is distinct by (kernel, width, location, length-scale, amplitude, d)"
        % (len(KERNELS), len(EXT_KERNELS))
    )
    ck.assume("extreme regimes: floating-point warnings (exp overflowing to inf where the weight's limit 0 or 1 is correct) are not failures, non-finite results are; the entry-wise "
              "tolerance is that of the documented formula evaluated term by term in doubles: relative (1 + Z) eps for a squared-exponential, (1 + alpha + alpha ln(1+Z/alpha)) eps for a "
              "rational-quadratic leaf value, ABSOLUTE eps for each logistic weight f and 1 - f (so where two regions differ by more than 1/eps in amplitude the smaller one is only "
              "checked to the larger one's rounding), eps/w and 40 eps/w for the weight's derivatives w.r.t. location and width; gradients are compared wherever the reference "
              "derivative is a finite double (others are skipped and counted); values below 1e-300 are compared absolutely")
    ck.assume("coordinate-scale lattice: units of x from 1e-9 to 1e9 with length-scales 0.3 .. 3.7 units and change-point widths 0.03 .. 1.1 data ranges, expressed in the same units "
              "(length-scales and coordinates down to 3e-10 and up to 4e9 in absolute terms); the tolerances are the scale-free ones of the base lattice (1/width for the change-point derivatives)")
    ck.assume("continuous inputs are represented by the listed deterministic point designs (n <= 8, d <= 3) and three levels per hyper-parameter block")
    ck.assume("jitter: any diagonal addition in [0, 1e-10*K_ii] is accepted as the documented 'small values added to the diagonal'; its exact size is not pinned")
    ck.assume("labels: a composite may prefix the component's label (suffix match accepted); mean functions may expand about the data centroid or the origin")
    ck.assume("change-point location / width bounds that the user did NOT give are only required to be valid intervals (finite, lower < upper, width lower bound > 0): their default values are not pinned")
    ck.assume("hyper-parameter bounds are compared only where the library can estimate them (n >= 2, no coincident points)")
    ck.assume("composition histories use one data set (x, y) for all objects of a history, because composites share their component objects by design "
              "(giving different data to two composites that share a leaf legitimately changes both); bounds of an object are compared only if "
              "estimate_hyperpar_bounds was called on it directly or on nothing that shares a leaf with it; histories are bounded by the stated depth "
              "and by n in {3,4}, d in {1,2}")
    ck.assume("data changes: a data change hands the new data to EVERY live object (a composite sharing a leaf with an object that holds other data is in a state the property does "
              "not define); bounds stored before a data change are kept by the library as if user-given (bounds are only estimated where none are set), so after a data change the "
              "bounds of objects that had any are not compared, estimate_hyperpar_bounds is not called on composites sharing a leaf with such an object, and the final "
              "'estimate bounds for all' audit is skipped; leaf kernels re-estimate from scratch and are compared")
    ck.extra["kernels"] = [R.spec_name(s) for s in KERNELS]
    ck.extra["nd"] = nd
