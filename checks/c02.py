"""C02 – GpRegressor returns the exact Gaussian-process posterior.

Engine D.  Lattice: {11 kernel compositions} x {(n, d)} x {3 point designs} x {hyper-parameter patterns}; inside each
lattice block {4 noise specifications} x {3 mean functions} x {query forms} x {orders of the training set}.

Reference (mc.ref.gpref_a): kernels re-implemented from the documented formulas, K_xx + S, K_qx, K_qq evaluated with
mpmath at 50 digits, closed form  m(q) + K_qx (K_xx+S)^-1 (y - m(x)),  K_qq - K_qx (K_xx+S)^-1 K_xq  in mpmath.
The only quantity read from the implementation is the size of the documented diagonal jitter of the data covariance
(after checking that it lies in [0, 1e-10 K_ii]).

Oracles / keys
  call/..        __call__ : mean and sd^2 against the closed form
  posterior/..   build_posterior : mean and full covariance against the closed form
  mean_only/..   build_posterior(mean_only=True)
  agree/..       the three calls agree with each other
  variance/..    0 <= predictive variance <= prior variance
  perm/..        all orders of the training points (n <= 4: all n!; else a menu) give the same answer
  noise/..       y_err = s  <=>  y_cov = diag(s^2)
  queryform/..   scalar / list / (m,d) array / single d-vector give the rows of the (m,d) result
  predict/..     the library raised on an in-domain input
"""
import itertools

import numpy as np

from mc.core import LibFailure, fail, lib
from mc.ref import gpref_a as R

LEVEL = "exploration"
EPS = float(np.finfo(float).eps)
JIT = 1e-10
COND_MAX = 1e10
mp = R.mp
mpf = R.mpf

KERNELS = [
    "SE",
    "RQ",
    ["add", "SE", "WN"],
    ["add", "RQ", "WN"],
    ["add", "SE", "HN"],
    ["add", "SE", "RQ"],
    ["cp", 0, "SE", "SE"],
    ["cp", 0, "SE", "RQ"],
    ["cp", 0, "SE", "SE", "SE"],
    ["cp", 0, ["add", "SE", "WN"], "RQ"],
    ["add", ["cp", 0, "SE", "SE"], "WN"],
]
NOISES = ["none", "y_err", "y_cov_diag", "y_cov_full"]
ND_ALL = [(n, d) for d in (1, 2, 3) for n in (2, 3, 5, 8)] + [(4, 1), (4, 2)]
DESIGNS = ["regular", "clustered", "permuted"]


def noise_matrix(kind, n):
    s = 0.05 + 0.1 * ((np.arange(n) * 3) % 4)
    if kind == "none":
        return None, np.zeros((n, n))
    if kind in ("y_err", "y_cov_diag"):
        return s, np.diag(s**2)
    i = np.arange(n)
    C = np.outer(s, s) * 0.5 ** np.abs(i[:, None] - i[None, :])
    C = 0.5 * (C + C.T)
    return s, C


def permute_theta(spec, theta, perm, n, d):
    """hyper-parameters of the same model when the training points are listed in the order ``perm``
    (only HeteroscedasticNoise has per-point parameters)"""
    out = np.array(theta, dtype=float).copy()
    info = R.param_info(spec, n, d)
    blocks = {}
    for p, inf in enumerate(info):
        if inf["kind"] == "log-sigma-i":
            blocks.setdefault(inf["path"], []).append(p)
    for path, idx in blocks.items():
        old = [theta[p] for p in idx]
        for newpos, p in enumerate(idx):
            out[p] = old[perm[newpos]]
    return out


def perm_menu(n):
    if n <= 4:
        return [list(p) for p in itertools.permutations(range(n))][1:]
    ident = list(range(n))
    menu = [ident[::-1]]
    for r in (1, n // 2, n - 1):
        menu.append(ident[r:] + ident[:r])
    sw = ident[:]
    sw[0], sw[-1] = sw[-1], sw[0]
    menu.append(sw)
    menu.append(sorted(ident, key=lambda i: ((i * 3 + 1) % n if n % 3 else (i * 5 + 2) % n, i)))
    out = []
    for p in menu:
        if p != ident and p not in out:
            out.append(p)
    return out


def mpmat(M):
    return mp.matrix([[mpf(float(v)) if not isinstance(v, type(mpf(0))) else v for v in row] for row in M])


def ev_gp(case):
    from inference.gp import GpRegressor

    spec, n, d, pattern, seed = case["spec"], case["n"], case["d"], case["pattern"], case["seed"]
    name = R.spec_name(spec)
    fam = R.family(spec)
    hn = R.contains(spec, "HN")
    kcls = "has-HN" if hn else fam
    X = R.design(case["design"], n, d, seed)
    y = R.y_values(X)
    theta_k = R.theta_for(spec, X, pattern)
    span = X.max(axis=0) - X.min(axis=0)
    Q = np.vstack(
        [
            X[0],
            0.5 * (X[0] + X[-1]) + 0.013,
            X.mean(axis=0) + 0.37 * span,
            X.max(axis=0) + 0.8 * span + 0.1,
        ]
    ) + np.array([0.0, 0.01, 0.01, 0.01])[:, None] * seed
    Q[0] = X[0]
    m = Q.shape[0]
    fails, tags, slack, skipped, nev = [], set(), {}, {}, 0
    seen = set()

    def add(key, what, **kw):
        if key not in seen or len(fails) < 12:
            fails.append(fail(key, what, kernel=name, n=n, d=d, design=case["design"], pattern=pattern, **kw))
        seen.add(key)

    def sl(key, err, tol):
        r = float(np.max(np.asarray(err, dtype=float) / np.asarray(tol, dtype=float)))
        if r > slack.get(key, -1.0):
            slack[key] = r
        return r

    # ------------------------------------------------------------------ reference kernel matrices (50 digits)
    Kxx = R.data_cov(R.MB, spec, theta_k, X)
    Kqx = mp.matrix(R.cross_cov(R.MB, spec, theta_k, Q, X, n))
    Kqq = mp.matrix(R.cross_cov(R.MB, spec, theta_k, Q, Q, n))
    Kself = [R.cross_cov(R.MB, spec, theta_k, X[i : i + 1], X[i : i + 1], n)[0][0] for i in range(n)]
    prior = np.array([float(Kqq[a, a]) for a in range(m)])
    Kqx_f = np.array([[float(Kqx[a, i]) for i in range(n)] for a in range(m)])
    # size of the documented jitter, read from the data-covariance builder and validated
    kb = R.make_kernel(spec)
    with lib("kernel.pass_spatial_data"):
        kb.pass_spatial_data(X.copy())
    with lib("kernel.build_covariance"):
        Kb = np.asarray(kb.build_covariance(theta_k))
    nev += 1
    dref = np.array([float(Kxx[i][i]) for i in range(n)])
    kself = np.array([float(v) for v in Kself])
    jit = np.diag(Kb) - dref
    jtol = 64 * EPS * np.abs(dref)
    if (jit < -jtol).any() or (jit > JIT * kself + jtol).any():
        add(f"datacov/{fam}/diagonal-terms", f"{name}: diag(build_covariance) - (formula + noise variances) = {jit.tolist()} outside [0, 1e-10 K_ii]", theta=theta_k, X=X)
    jit = np.clip(jit, 0.0, JIT * kself)
    Abase = mp.matrix(Kxx)
    for i in range(n):
        Abase[i, i] += mpf(float(jit[i]))

    forms = []
    if d == 1:
        forms = [
            ("scalar", float(Q[1, 0]), [1]),
            ("list-of-scalars", [float(v) for v in Q[:, 0]], list(range(m))),
            ("1-D-array", Q[:, 0].copy(), list(range(m))),
            ("single-point-1-array", Q[2].copy(), [2]),
        ]
    else:
        forms = [
            ("list-of-lists", Q.tolist(), list(range(m))),
            ("list-of-arrays", [q.copy() for q in Q], list(range(m))),
            ("single-d-vector", Q[2].copy(), [2]),
            ("single-d-list", Q[3].tolist(), [3]),
            ("(1,d)-array", Q[1:2].copy(), [1]),
        ]

    store = {}
    for noise in NOISES:
        s_err, S = noise_matrix(noise, n)
        A = Abase + mpmat(S)
        A_f = np.array([[float(A[i, j]) for j in range(n)] for i in range(n)])
        sv = np.linalg.svd(A_f, compute_uv=False)
        cond = float(sv[0] / sv[-1]) if sv[-1] > 0 else float("inf")
        if not (cond <= COND_MAX):
            skipped["cond>1e10"] = skipped.get("cond>1e10", 0) + len(R.MEANS)
            continue
        Ainv = mp.inverse(A)
        W = Ainv * Kqx.T  # n x m
        Cov = Kqq - Kqx * W
        cov_ref = np.array([[float(Cov[a, b]) for b in range(m)] for a in range(m)])
        ceps = 1e3 * EPS * cond
        tol_cov = ceps * np.sqrt(np.outer(prior, prior))
        tol_var = np.diag(tol_cov)
        knorm = np.linalg.norm(Kqx_f, axis=1)
        for mean_name in R.MEANS:
            theta_m = R.mean_theta_for(mean_name, d, pattern)
            hyper = np.concatenate([theta_m, theta_k])
            # reference means for both expansion conventions of the (undocumented) mean parametrisation
            refs = []
            for cname, centre in (("centroid", X.mean(axis=0)), ("origin", np.zeros(d))):
                if mean_name == "ConstantMean" and cname == "origin":
                    continue
                mx = R.mean_eval(R.MB, mean_name, theta_m, X, centre)
                mq = R.mean_eval(R.MB, mean_name, theta_m, Q, centre)
                resid = mp.matrix([[mpf(float(y[i])) - mx[i]] for i in range(n)])
                alpha = Ainv * resid
                mu = Kqx * alpha
                mu_ref = np.array([float(mu[a] + mq[a]) for a in range(m)])
                an = float(mp.norm(alpha))
                mscale = np.array([float(abs(v)) for v in mq]) + float(np.abs(theta_m).sum()) * (1.0 + float(np.abs(Q).max())) ** 2
                rscale = float(np.linalg.norm(y)) + float(mp.norm(mp.matrix([[v] for v in mx])))
                tol_mu = 1e3 * EPS * (cond * knorm * an + knorm * rscale / sv[-1] + mscale)
                refs.append((cname, mu_ref, tol_mu))

            def check_mean(mu_got, key, what):
                """returns the convention index matched (or reports)"""
                best = None
                for ci, (cname, mu_ref, tol_mu) in enumerate(refs):
                    r = float(np.max(np.abs(mu_got - mu_ref) / tol_mu))
                    if best is None or r < best[0]:
                        best = (r, ci)
                sl(key.split("/")[0] + "/mean", best[0], 1.0)
                if best[0] > 1:
                    cname, mu_ref, tol_mu = refs[best[1]]
                    add(key, f"{what}: mean {mu_got.tolist()} vs closed form {mu_ref.tolist()} (tol {tol_mu.tolist()}) noise={noise} mean={mean_name}", hyperpars=hyper, noise=noise, mean=mean_name)
                return best[1]

            def build(perm=None, noise_form=noise, xform=0):
                Xp, yp, th = X, y, theta_k
                Sp, sp_err = S, s_err
                if perm is not None:
                    Xp, yp = X[perm], y[perm]
                    th = permute_theta(spec, theta_k, perm, n, d)
                    Sp = S[np.ix_(perm, perm)]
                    sp_err = None if s_err is None else s_err[perm]
                kw = {}
                if noise_form == "y_err":
                    kw["y_err"] = sp_err.copy()
                elif noise_form in ("y_cov_diag", "y_cov_full"):
                    kw["y_cov"] = np.ascontiguousarray(Sp.copy())
                xin = Xp.copy()
                yin = yp.copy()
                if d == 1 and xform == 1:
                    xin = xin[:, 0].copy()
                elif xform == 2:
                    xin = [row.copy() for row in xin] if d > 1 else xin[:, 0].tolist()
                    yin = yin.tolist()
                return GpRegressor(xin, yin, hyperpars=np.concatenate([theta_m, th]), kernel=R.make_kernel(spec), mean=R.make_mean(mean_name), **kw)

            combo = f"noise={noise},mean={mean_name}"
            try:
                with lib("GpRegressor()"):
                    gp = build(xform=(pattern + NOISES.index(noise)) % 3)
                with lib("__call__"):
                    mu_c, sd_c = gp(Q.copy())
                with lib("build_posterior"):
                    mu_p, cov_p = gp.build_posterior(Q.copy())
                with lib("build_posterior(mean_only)"):
                    mu_o = gp.build_posterior(Q.copy(), mean_only=True)
                nev += 4
            except LibFailure as e:
                add(f"predict/{kcls}/raises:{e.exc_type}", f"{name} d={d} {combo}: {e}", traceback=e.tb, noise=noise, mean=mean_name)
                continue
            mu_c, sd_c, mu_p, cov_p, mu_o = (np.asarray(v, dtype=float) for v in (mu_c, sd_c, mu_p, cov_p, mu_o))
            if mu_c.shape != (m,) or sd_c.shape != (m,) or mu_p.shape != (m,) or cov_p.shape != (m, m) or mu_o.shape != (m,):
                add(f"predict/{kcls}/shape", f"{name} {combo}: shapes {mu_c.shape},{sd_c.shape},{mu_p.shape},{cov_p.shape},{mu_o.shape} for {m} query points")
                continue
            check_mean(mu_c, f"call/{fam}/mean-vs-closed-form", "__call__")
            check_mean(mu_p, f"posterior/{fam}/mean-vs-closed-form", "build_posterior")
            check_mean(mu_o, f"mean_only/{fam}/mean-vs-closed-form", "build_posterior(mean_only=True)")
            var_c = sd_c**2
            if sl("call/variance", np.abs(var_c - np.diag(cov_ref)), tol_var) > 1:
                add(f"call/{fam}/variance-vs-closed-form", f"__call__ sd^2 {var_c.tolist()} vs closed form {np.diag(cov_ref).tolist()} (tol {tol_var.tolist()}) {combo}", hyperpars=hyper, noise=noise, mean=mean_name)
            if sl("posterior/covariance", np.abs(cov_p - cov_ref), tol_cov) > 1:
                add(f"posterior/{fam}/covariance-vs-closed-form", f"build_posterior covariance {cov_p.tolist()} vs closed form {cov_ref.tolist()} {combo}", hyperpars=hyper, noise=noise, mean=mean_name)
            tmu = 2 * np.max(np.array([t for _, _, t in refs]), axis=0)
            if sl("agree/mean", np.maximum(np.abs(mu_c - mu_p), np.abs(mu_o - mu_p)), tmu) > 1:
                add(f"agree/{fam}/means-differ", f"__call__ {mu_c.tolist()} build_posterior {mu_p.tolist()} mean_only {mu_o.tolist()} {combo}", noise=noise, mean=mean_name)
            if sl("agree/variance", np.abs(var_c - np.diag(cov_p)), 2 * tol_var) > 1:
                add(f"agree/{fam}/variances-differ", f"__call__ sd^2 {var_c.tolist()} vs diag(build_posterior) {np.diag(cov_p).tolist()} {combo}", noise=noise, mean=mean_name)
            dv = np.diag(cov_p)
            sl("variance/lower", np.maximum(0.0, -dv), tol_var)
            sl("variance/upper", np.maximum(0.0, np.maximum(dv, var_c) - prior), tol_var)
            if (dv < -tol_var).any():
                add(f"variance/{fam}/negative", f"diag(build_posterior) {dv.tolist()} {combo}", noise=noise, mean=mean_name)
            if (dv > prior + tol_var).any() or (var_c > prior + tol_var).any():
                add(f"variance/{fam}/exceeds-prior", f"variance {dv.tolist()} / {var_c.tolist()} above prior {prior.tolist()} {combo}", noise=noise, mean=mean_name)
            store[(noise, mean_name)] = (mu_c, var_c, mu_p, cov_p)
            tags.add(f"{name},d={d},n={n},{case['design']},{noise},{mean_name}")
            tags.add(f"cond-decade={int(np.floor(np.log10(cond)))}")

            def same_as_base(g, label, key, rows=None, Qarg=None):
                """prediction of regressor g at Qarg equals rows of the closed form"""
                nonlocal nev
                Qa = Q.copy() if Qarg is None else Qarg
                rows_ = list(range(m)) if rows is None else rows
                try:
                    with lib(label + ".__call__"):
                        a, b = g(Qa)
                    with lib(label + ".build_posterior"):
                        c, e2 = g.build_posterior(Qa)
                    nev += 2
                except LibFailure as e:
                    add(f"predict/{kcls}/raises:{e.exc_type}", f"{name} d={d} {combo} {label}: {e}", traceback=e.tb, noise=noise, mean=mean_name)
                    return None
                a, b, c, e2 = (np.asarray(v, dtype=float) for v in (a, b, c, e2))
                if a.shape != (len(rows_),) or b.shape != (len(rows_),) or c.shape != (len(rows_),) or e2.shape != (len(rows_), len(rows_)):
                    add(key + "/shape", f"{label}: result shapes {a.shape},{b.shape},{c.shape},{e2.shape} for {len(rows_)} points {combo}", noise=noise, mean=mean_name)
                    return None
                ok = False
                worst = None
                for cname, mu_ref, tol_mu in refs:
                    r = max(
                        float(np.max(np.abs(a - mu_ref[rows_]) / tol_mu[rows_])),
                        float(np.max(np.abs(c - mu_ref[rows_]) / tol_mu[rows_])),
                    )
                    worst = r if worst is None else min(worst, r)
                rv = max(
                    float(np.max(np.abs(b**2 - np.diag(cov_ref)[rows_]) / tol_var[rows_])),
                    float(np.max(np.abs(e2 - cov_ref[np.ix_(rows_, rows_)]) / tol_cov[np.ix_(rows_, rows_)])),
                )
                sl(key.split("/")[0] + "/mean", worst, 1.0)
                sl(key.split("/")[0] + "/cov", rv, 1.0)
                if worst > 1 or rv > 1:
                    add(key, f"{label}: prediction differs from the closed form (mean ratio {worst:.3g}, covariance ratio {rv:.3g}; got mean {a.tolist()}, sd {b.tolist()}) {combo}", hyperpars=hyper, noise=noise, mean=mean_name)
                return a, b**2, c, e2

            # query forms
            for fname, arg, rows in forms:
                same_as_base(gp, f"query[{fname}]", f"queryform/{fname}/differs-from-array-result", rows=rows, Qarg=arg)
                tags.add(f"queryform={fname}")
            # orders of the training set
            if case.get("perms", True):
                for perm in perm_menu(n):
                    try:
                        with lib("GpRegressor(permuted)"):
                            g2 = build(perm=perm)
                        nev += 1
                    except LibFailure as e:
                        add(f"predict/{kcls}/raises:{e.exc_type}", f"{name} d={d} {combo} perm={perm}: {e}", traceback=e.tb, noise=noise, mean=mean_name)
                        break
                    if same_as_base(g2, f"perm{perm}", f"perm/{fam}/depends-on-order-of-training-points") is None:
                        break
                tags.add(f"perms,n={n}")
            # y_err  <=>  diagonal y_cov
            if noise == "y_cov_diag" and ("y_err", mean_name) in store:
                o = store[("y_err", mean_name)]
                e_mu = np.maximum(np.abs(o[0] - mu_c), np.abs(o[2] - mu_p))
                e_v = np.maximum(np.abs(o[1] - var_c), np.abs(np.diag(o[3]) - np.diag(cov_p)))
                e_c = np.abs(o[3] - cov_p)
                r = max(sl("noise/mean", e_mu, tmu), sl("noise/var", e_v, 2 * tol_var), sl("noise/cov", e_c, 2 * tol_cov))
                if r > 1:
                    add("noise/y_err-vs-diagonal-y_cov/differ", f"{name} mean={mean_name}: y_err=s and y_cov=diag(s^2) give different predictions (ratio {r:.3g})", mean=mean_name)
                tags.add("y_err==diag(y_cov)")
    return {
        "fails": fails[:40],
        "n": nev,
        "tags": tags,
        "slack": slack,
        "skipped": skipped,
        "sample": {"kernel": name, "n": n, "d": d, "design": case["design"], "theta": theta_k.tolist(), "Q": Q.tolist()},
    }


EVALUATORS = {"gp": ev_gp}


def run(ck):
    seed, quick = ck.seed, ck.quick
    if quick:
        menu = [(3, 1), (5, 2), (8, 3), (4, 1), (2, 2), (8, 1), (3, 3), (4, 2), (5, 1), (2, 3), (8, 2), (3, 2), (5, 3)]
        nd = [(2, 1)] + [menu[(3 * seed + i) % len(menu)] for i in range(3)]
    else:
        nd = ND_ALL
    cases = []
    for (n, d) in nd:
        for ki, spec in enumerate(KERNELS):
            for di, des in enumerate(DESIGNS):
                if quick:
                    pats = [(ki + di + n + seed) % 9, (ki + 2 * di + 4 * n + 3 * seed + 5) % 9]
                else:
                    pats = range(9)
                for pat in sorted(set(pats)):
                    cases.append({"spec": spec, "n": n, "d": d, "design": des, "pattern": pat, "seed": seed})
    ck.run_cases("gp", cases, chunk=1)
    ck.rule = (
        "every element of {11 kernel compositions} x {(n,d)} x {regular, clustered near-duplicate, permuted+stretched designs} x {hyper-parameter "
        "level patterns} x {no noise, y_err, diagonal y_cov, full y_cov} x {Constant, Linear, Quadratic mean}; per element 4 query points (a training "
        "point, interior, offset, far extrapolation) in every accepted query form, and all n! orders of the training set (n<=4; a 6-entry menu above). "
        "A lattice point is distinct by (kernel, d, n, design, noise, mean); condition-number decades reached are counted too."
    )
    ck.assume("continuous inputs are represented by the listed deterministic designs (n <= 8, d <= 3); designs with cond(K_xx+S) > 1e10 are skipped and counted")
    ck.assume("y_cov is given as an ndarray (documented form); a single training point is rejected by the constructor and is outside the domain")
    ck.assume("the size of the diagonal jitter of K_xx (documented as 'small values added to the diagonal') is read from build_covariance after checking it lies in [0, 1e-10*K_ii]")
    ck.assume("noise kernels (WhiteNoise, HeteroscedasticNoise) act on the data index: they contribute to K_xx only, not to K_qx / K_qq (prediction of the latent function)")
    ck.assume("the mean functions' parametrisation is undocumented: expansion about the data centroid or about the origin is accepted, if used consistently at x and q")
    ck.extra["kernels"] = [R.spec_name(s) for s in KERNELS]
    ck.extra["nd"] = nd
