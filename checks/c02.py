"""C02 – GpRegressor returns the exact Gaussian-process posterior.

Engine D.  Lattice: {11 kernel compositions} x {(n, d)} x {3 point designs} x {hyper-parameter patterns}; inside each
lattice block {4 noise specifications} x {3 mean functions} x {query forms} x {orders of the training set}.

Reference (mc.ref.gpref_a): kernels re-implemented from the documented formulas, K_xx + S, K_qx, K_qq evaluated with
mpmath at 50 digits, closed form  m(q) + K_qx (K_xx+S)^-1 (y - m(x)),  K_qq - K_qx (K_xx+S)^-1 K_xq  in mpmath.
The only quantity read from the implementation is the size of the documented diagonal jitter of the data covariance
(after checking that it lies in [0, 1e-10 K_ii]).

Oracles / keys
  call/..        __call__ : mean and sd^2 against the closed form
  posterior/..   build_posterior : mean and full covariance against the closed form
  mean_only/..   build_posterior(mean_only=True)
  agree/..       the three calls agree with each other
  variance/..    0 <= predictive variance <= prior variance
  perm/..        all orders of the training points (n <= 4: all n!; else a menu) give the same answer
  noise/..       y_err = s  <=>  y_cov = diag(s^2)
  queryform/..   scalar / list / (m,d) array / single d-vector give the rows of the (m,d) result
  predict/..     the library raised on an in-domain input
  crosscov/..    K_qx = kernel(q, x, theta) and K_qq = kernel(q, q, theta) of the regressor's kernel object equal, entry by entry, the
                 documented formula that K_xx follows (crosscov/<family>/K_qx-vs-formula, ../K_qq-vs-formula; tolerance 64 eps (1 + alpha)
                 sum A^2: no conditioning involved), and the row of K_qx at a query point that IS a training point equals the row of
                 build_covariance off the diagonal (../K_qx-row-at-training-point-vs-K_xx-row)
  (noise-position lattice) 14 sums with WhiteNoise / HeteroscedasticNoise first, in the middle, last, twice, nested, inside and around a
                 change-point: all oracles above (a signal kernel must be evaluated with ITS OWN part of the hyper-parameter vector)
  regime/<any of the above>   hyper-parameters outside the default bounds: ln alpha in {-6, -3, 8, 9.25, 10, 12}, length-scales 1e-3 .. 1e3 data
                 ranges, ln A = +-10 (and alternating), ln sigma in {-12, 4}, and three combinations, for every kernel that has the parameter kind
  far/<any of the above>   the same oracles on the far-location / unit lattice: x -> xs (x + shift), y -> ys y with shift up to
                 +-1e6 length-scales and xs, ys in 1e-6 .. 1e6, hyper-parameters carried along, reference on the same floats
  exact/<any of the above>   noise specifications with exact observations: y_err with zeros at some points (positive elsewhere) and the equivalent
                 diagonal y_cov, all oracles above incl. y_err = s <=> y_cov = diag(s^2)
  history/..     (evaluator gphist) every call history of <= depth actions on ONE regressor over {set_hyperparameters with the
                 caller's array overwritten in place / with a new array} x 3 hyper-parameter vectors and the three prediction
                 calls: results equal those of a freshly built regressor with the current hyper-parameters
                 (history/<family>/<call>/<part>-differs-from-fresh-regressor/hyperpars-last-given-by:<how>), the caller's
                 arrays are untouched (history/caller-array-modified/<which>)
"""
import itertools

import numpy as np

from mc.core import LibFailure, fail, lib
from mc.ref import gpref_a as R

LEVEL = "exploration"
EPS = float(np.finfo(float).eps)
JIT = 1e-10
COND_MAX = 1e10
mp = R.mp
mpf = R.mpf

KERNELS = [
    "SE",
    "RQ",
    ["add", "SE", "WN"],
    ["add", "RQ", "WN"],
    ["add", "SE", "HN"],
    ["add", "SE", "RQ"],
    ["cp", 0, "SE", "SE"],
    ["cp", 0, "SE", "RQ"],
    ["cp", 0, "SE", "SE", "SE"],
    ["cp", 0, ["add", "SE", "WN"], "RQ"],
    ["add", ["cp", 0, "SE", "SE"], "WN"],
]
# sums with a noise component in EVERY position (first / middle / last, two noise terms), built with + and with the constructor,
# and inside / around a change-point; the signal kernels must be evaluated with THEIR OWN part of the hyper-parameter vector
NOISE_POS_KERNELS = [
    ["add", "WN", "SE"],
    ["add", "HN", "SE"],
    ["add", "SE", "WN", "SE"],
    ["add", "RQ", "HN", "SE"],
    ["add", "WN", "RQ", "WN"],
    ["add", "HN", "WN", "RQ"],
    ["add", "WN", "SE", "HN"],
    ["add", "SE", "WN", "RQ", "HN"],
    ["comp", "WN", ["comp", "HN", "RQ"]],
    ["comp", ["comp", "SE", "WN"], "SE"],
    ["cp", 0, ["add", "WN", "SE"], "RQ"],
    ["cp", 0, "SE", ["add", "HN", "RQ"]],
    ["add", "WN", ["cp", 0, "SE", "SE"]],
    ["add", "HN", ["cp", 0, "SE", "RQ"], "SE"],
]
# hyper-parameter regimes OUTSIDE the default optimisation bounds (alpha: (-2, 6); amplitudes: ln sd(y) +- 4; length-scales: a few
# decades around the point spacing; noise: ln sd(y) - 8 .. + 2): one family of parameters is overwritten, the rest follows the pattern
REGIMES = [
    {"alpha": 8.0}, {"alpha": -3.0}, {"alpha": 10.0}, {"alpha": -6.0}, {"alpha": 12.0}, {"alpha": 9.25},
    {"ls": 1e-3}, {"ls": 1e3}, {"ls": 1e-2}, {"ls": 30.0},
    {"amp": -10.0}, {"amp": 10.0}, {"amp": "mixed"},
    {"sig": -12.0}, {"sig": 4.0},
    {"alpha": 12.0, "ls": 30.0}, {"alpha": 10.0, "amp": -10.0}, {"alpha": -6.0, "ls": 1e-2, "amp": "mixed"},
]
REG_KINDS = {"alpha": ("log-alpha",), "ls": ("log-scale",), "amp": ("log-amplitude",), "sig": ("log-sigma", "log-sigma-i")}
NOISES = ["none", "y_err", "y_cov_diag", "y_cov_full"]
ND_ALL = [(n, d) for d in (1, 2, 3) for n in (2, 3, 5, 8)] + [(4, 1), (4, 2)]
DESIGNS = ["regular", "clustered", "permuted"]
FAR_SHIFTS = [0.0, 1e3, -1e3, 1e6, -1e6]  # in units of the mid-level length-scale
FAR_SCALES = [1.0, 1e-6, 1e6, 1e-3, 1e3]
FAR_SCALES_QUICK = [1.0, 1e-6, 1e6]


def regime_applies(spec, reg, n=2, d=1):
    kinds = {inf["kind"] for inf in R.param_info(spec, n, d)}
    return all(any(k in kinds for k in REG_KINDS[key]) for key in reg)


def regime_name(reg):
    return ",".join(f"{k}={reg[k]:g}" if not isinstance(reg[k], str) else f"{k}={reg[k]}" for k in sorted(reg))


def regime_theta(spec, X, theta, reg):
    """the pattern vector with the regime's values written over the parameters of the named kinds: log-alpha, log-amplitude,
    log-sigma as given ('mixed': +10 / -10 alternating over the signal leaves); length-scale = ls x the data range of its dimension"""
    n, d = X.shape
    theta = np.array(theta, dtype=float)
    lo, hi = X.min(axis=0), X.max(axis=0)
    rng = np.where(hi > lo, hi - lo, 1.0)
    leafno = {}
    for p, inf in enumerate(R.param_info(spec, n, d)):
        kd = inf["kind"]
        if kd == "log-alpha" and "alpha" in reg:
            theta[p] = reg["alpha"]
        elif kd == "log-scale" and "ls" in reg:
            theta[p] = float(np.log(reg["ls"] * rng[inf["dim"]])) + 0.05 * inf["dim"]
        elif kd == "log-amplitude" and "amp" in reg:
            j = leafno.setdefault(inf["path"], len(leafno))
            theta[p] = (10.0 if j % 2 == 0 else -10.0) if reg["amp"] == "mixed" else reg["amp"]
        elif kd in ("log-sigma", "log-sigma-i") and "sig" in reg:
            theta[p] = reg["sig"] + (0.1 * inf["point"] if kd == "log-sigma-i" else 0.0)
    return theta


# exact (zero-error) observations mixed with positive errors: which entries of the error vector are exactly zero
ZERO_MASKS = ["even", "first", "all-but-last", "odd", "last"]
NOISES_EXACT = ["y_err_zeros", "y_cov_diag_zeros"]
NOISE_FORM = {"none": "none", "y_err": "y_err", "y_cov_diag": "y_cov", "y_cov_full": "y_cov", "y_err_zeros": "y_err", "y_cov_diag_zeros": "y_cov"}


def zero_mask(which, n):
    i = np.arange(n)
    return {"even": i % 2 == 0, "odd": i % 2 == 1, "first": i == 0, "last": i == n - 1, "all-but-last": i < n - 1}[which]


def noise_matrix(kind, n, zeros="even"):
    s = 0.05 + 0.1 * ((np.arange(n) * 3) % 4)
    if kind == "none":
        return None, np.zeros((n, n))
    if kind in NOISES_EXACT:
        s = np.where(zero_mask(zeros, n), 0.0, s)
        return s, np.diag(s**2)
    if kind in ("y_err", "y_cov_diag"):
        return s, np.diag(s**2)
    i = np.arange(n)
    C = np.outer(s, s) * 0.5 ** np.abs(i[:, None] - i[None, :])
    C = 0.5 * (C + C.T)
    return s, C


def permute_theta(spec, theta, perm, n, d):
    """hyper-parameters of the same model when the training points are listed in the order ``perm``
    (only HeteroscedasticNoise has per-point parameters)"""
    out = np.array(theta, dtype=float).copy()
    info = R.param_info(spec, n, d)
    blocks = {}
    for p, inf in enumerate(info):
        if inf["kind"] == "log-sigma-i":
            blocks.setdefault(inf["path"], []).append(p)
    for path, idx in blocks.items():
        old = [theta[p] for p in idx]
        for newpos, p in enumerate(idx):
            out[p] = old[perm[newpos]]
    return out


def perm_menu(n):
    if n <= 4:
        return [list(p) for p in itertools.permutations(range(n))][1:]
    ident = list(range(n))
    menu = [ident[::-1]]
    for r in (1, n // 2, n - 1):
        menu.append(ident[r:] + ident[:r])
    sw = ident[:]
    sw[0], sw[-1] = sw[-1], sw[0]
    menu.append(sw)
    menu.append(sorted(ident, key=lambda i: ((i * 3 + 1) % n if n % 3 else (i * 5 + 2) % n, i)))
    out = []
    for p in menu:
        if p != ident and p not in out:
            out.append(p)
    return out


def mpmat(M):
    return mp.matrix([[mpf(float(v)) if not isinstance(v, type(mpf(0))) else v for v in row] for row in M])


def ev_gp(case):
    from inference.gp import GpRegressor

    spec, n, d, pattern, seed = case["spec"], case["n"], case["d"], case["pattern"], case["seed"]
    name = R.spec_name(spec)
    fam = R.family(spec)
    hn = R.contains(spec, "HN")
    kcls = "has-HN" if hn else fam
    X = R.design(case["design"], n, d, seed)
    y = R.y_values(X)
    span = X.max(axis=0) - X.min(axis=0)
    Q = np.vstack(
        [
            X[0],
            0.5 * (X[0] + X[-1]) + 0.013,
            X.mean(axis=0) + 0.37 * span,
            X.max(axis=0) + 0.8 * span + 0.1,
        ]
    ) + np.array([0.0, 0.01, 0.01, 0.01])[:, None] * seed
    Q[0] = X[0]
    # ------------------------------------------------------------------ far-location / scale lattice (see FAR_* below)
    # x -> xs * (x + shift), y -> ys * y with the hyper-parameters carried along (length-scales, change-point location and
    # width with x; amplitudes, noise levels, data errors and mean coefficients with y): the same regression problem in
    # other units and at another location.  Everything below (reference included) works on the transformed floats.
    far = case.get("far")
    xs, ys, shift = (float(far["xs"]), float(far["ys"]), float(far["shift"])) if far else (1.0, 1.0, 0.0)
    if far:
        X = np.ascontiguousarray((X + shift) * xs)
        Q = np.ascontiguousarray((Q + shift) * xs)
        Q[0] = X[0]
        y = y * ys
    theta_k = R.theta_for(spec, X, pattern)
    reg = case.get("regime")
    if reg:
        theta_k = regime_theta(spec, X, theta_k, reg)
    if far:
        for p_, inf_ in enumerate(R.param_info(spec, n, d)):
            if inf_["kind"] == "log-scale":
                theta_k[p_] += np.log(xs)
            elif inf_["kind"] in ("log-amplitude", "log-sigma", "log-sigma-i"):
                theta_k[p_] += np.log(ys)
    m = Q.shape[0]
    fails, tags, slack, skipped, nev = [], set(), {}, {}, 0
    seen = set()
    zeros = case.get("zeros")
    noises = NOISES_EXACT if zeros else NOISES
    kpre = "exact/" if zeros else ("far/" if far else ("regime/" if reg else ""))
    fardet = {"zeros": zeros} if zeros else ({"far": far} if far else ({"regime": reg} if reg else {}))
    # rounding of the documented formulas in doubles: (1 + Z/alpha)^-alpha has relative condition alpha w.r.t. the rounding of
    # 1 + Z/alpha; exp(-Z), the other RQ factors and the logistic weights f, 1 - f carry a few eps absolutely (relative to A^2)
    pinfo = R.param_info(spec, n, d)
    kap_a = 1.0 + max([float(np.exp(t)) for inf_, t in zip(pinfo, theta_k) if inf_["kind"] == "log-alpha"] + [0.0])
    kreg = kap_a if reg else 1.0  # regimes: the entries of K_xx, K_qx themselves carry kap_a eps (the lattice patterns keep alpha <= e^4, within the factor 1e3)
    amp2 = float(sum(np.exp(2 * t) for inf_, t in zip(pinfo, theta_k) if inf_["kind"] == "log-amplitude"))

    def add(key, what, **kw):
        key = kpre + key
        if key not in seen or len(fails) < 12:
            fails.append(fail(key, what, kernel=name, n=n, d=d, design=case["design"], pattern=pattern, **fardet, **kw))
        seen.add(key)

    def sl(key, err, tol):
        key = kpre + key
        r = float(np.max(np.asarray(err, dtype=float) / np.asarray(tol, dtype=float)))
        if r > slack.get(key, -1.0):
            slack[key] = r
        return r

    # ------------------------------------------------------------------ reference kernel matrices (50 digits)
    Kxx = R.data_cov(R.MB, spec, theta_k, X)
    Kqx = mp.matrix(R.cross_cov(R.MB, spec, theta_k, Q, X, n))
    Kqq = mp.matrix(R.cross_cov(R.MB, spec, theta_k, Q, Q, n))
    Kself = [R.cross_cov(R.MB, spec, theta_k, X[i : i + 1], X[i : i + 1], n)[0][0] for i in range(n)]
    prior = np.array([float(Kqq[a, a]) for a in range(m)])
    Kqx_f = np.array([[float(Kqx[a, i]) for i in range(n)] for a in range(m)])
    # size of the documented jitter, read from the data-covariance builder and validated
    kb = R.make_kernel(spec)
    with lib("kernel.pass_spatial_data"):
        kb.pass_spatial_data(X.copy())
    with lib("kernel.build_covariance"):
        Kb = np.asarray(kb.build_covariance(theta_k))
    nev += 1
    dref = np.array([float(Kxx[i][i]) for i in range(n)])
    kself = np.array([float(v) for v in Kself])
    jit = np.diag(Kb) - dref
    # a change-point weight (1-f)^2 A^2 with 1 - f formed by subtraction carries 2 (1-f) eps A^2 <= 2 eps sqrt(A^2 K_ii) absolutely
    noise2 = max([float(np.exp(2 * t)) for inf_, t in zip(pinfo, theta_k) if inf_["kind"] in ("log-sigma", "log-sigma-i")] + [0.0])
    jtol = 64 * EPS * (np.abs(dref) + np.sqrt((amp2 + noise2) * np.abs(dref)))
    if (jit < -jtol).any() or (jit > JIT * kself + jtol).any():
        add(f"datacov/{fam}/diagonal-terms", f"{name}: diag(build_covariance) - (formula + noise variances) = {jit.tolist()} outside [0, 1e-10 K_ii]", theta=theta_k, X=X)
    jit = np.clip(jit, 0.0, JIT * kself)
    # ---- K_qx and K_qq as the regressor obtains them (pairwise evaluation of ITS kernel object with the covariance block of the
    # hyper-parameter vector) are the documented formula, i.e. belong to the same kernel as K_xx: entry-wise, no conditioning involved
    Kqq_f = np.array([[float(Kqq[a, b]) for b in range(m)] for a in range(m)])
    tol_k = 64 * EPS * kap_a * amp2
    try:
        with lib("kernel.__call__(q,x)"):
            Kc_qx = np.asarray(kb(Q.copy(), X.copy(), theta_k.copy()), dtype=float)
        with lib("kernel.__call__(q,q)"):
            Kc_qq = np.asarray(kb(Q.copy(), Q.copy(), theta_k.copy()), dtype=float)
        nev += 2
    except LibFailure as e:
        add(f"crosscov/{kcls}/raises:{e.exc_type}", f"{name} d={d}: pairwise evaluation of the kernel at query points raised {e}", traceback=e.tb, theta=theta_k)
        Kc_qx = Kc_qq = None
    if Kc_qx is not None and (Kc_qx.shape != (m, n) or Kc_qq.shape != (m, m)):
        add(f"crosscov/{kcls}/shape", f"{name}: kernel(q, x) has shape {Kc_qx.shape}, kernel(q, q) {Kc_qq.shape} for {m} query and {n} data points")
        Kc_qx = None
    if Kc_qx is not None:
        if sl("crosscov/K_qx", np.abs(Kc_qx - Kqx_f).max(), tol_k) > 1:
            w_ = np.unravel_index(np.argmax(np.abs(Kc_qx - Kqx_f)), (m, n))
            add(f"crosscov/{fam}/K_qx-vs-formula", f"{name}: kernel(q, x)[{w_}] = {Kc_qx[w_]!r}, documented formula (the one K_xx follows) {Kqx_f[w_]!r} (tol {tol_k:.3e})", theta=theta_k, X=X, Q=Q)
        if sl("crosscov/K_qq", np.abs(Kc_qq - Kqq_f).max(), tol_k) > 1:
            w_ = np.unravel_index(np.argmax(np.abs(Kc_qq - Kqq_f)), (m, m))
            add(f"crosscov/{fam}/K_qq-vs-formula", f"{name}: kernel(q, q)[{w_}] = {Kc_qq[w_]!r}, documented formula (the one K_xx follows) {Kqq_f[w_]!r} (tol {tol_k:.3e})", theta=theta_k, X=X, Q=Q)
        # the first query point IS the first training point: its row of K_qx is the row of K_xx (off the diagonal: no noise, no jitter)
        if n > 1 and sl("crosscov/K_qx-row-vs-K_xx-row", np.abs(Kc_qx[0, 1:] - Kb[0, 1:]).max(), 2 * tol_k) > 1:
            add(f"crosscov/{fam}/K_qx-row-at-training-point-vs-K_xx-row", f"{name}: kernel(x_0, x_j) = {Kc_qx[0, 1:].tolist()} but build_covariance[0, j] = {Kb[0, 1:].tolist()} (j >= 1)", theta=theta_k, X=X)
        tags.add(f"crosscov:{name},d={d}" + (f",{regime_name(reg)}" if reg else "") + (",far" if far else ""))
    Abase = mp.matrix(Kxx)
    for i in range(n):
        Abase[i, i] += mpf(float(jit[i]))

    forms = []
    if d == 1:
        forms = [
            ("scalar", float(Q[1, 0]), [1]),
            ("list-of-scalars", [float(v) for v in Q[:, 0]], list(range(m))),
            ("1-D-array", Q[:, 0].copy(), list(range(m))),
            ("single-point-1-array", Q[2].copy(), [2]),
        ]
    else:
        forms = [
            ("list-of-lists", Q.tolist(), list(range(m))),
            ("list-of-arrays", [q.copy() for q in Q], list(range(m))),
            ("single-d-vector", Q[2].copy(), [2]),
            ("single-d-list", Q[3].tolist(), [3]),
            ("(1,d)-array", Q[1:2].copy(), [1]),
        ]

    store = {}
    for noise in noises:
        s_err, S = noise_matrix(noise, n, zeros or "even")
        if far:
            s_err, S = (None if s_err is None else s_err * ys), S * ys**2
        A = Abase + mpmat(S)
        A_f = np.array([[float(A[i, j]) for j in range(n)] for i in range(n)])
        sv = np.linalg.svd(A_f, compute_uv=False)
        cond = float(sv[0] / sv[-1]) if sv[-1] > 0 else float("inf")
        if not (cond <= COND_MAX):
            skipped["cond>1e10"] = skipped.get("cond>1e10", 0) + len(R.MEANS)
            continue
        Ainv = mp.inverse(A)
        W = Ainv * Kqx.T  # n x m
        Cov = Kqq - Kqx * W
        cov_ref = np.array([[float(Cov[a, b]) for b in range(m)] for a in range(m)])
        ceps = 1e3 * EPS * cond * kreg
        tol_cov = ceps * np.sqrt(np.outer(prior, prior))
        tol_var = np.diag(tol_cov)
        knorm = np.linalg.norm(Kqx_f, axis=1)
        for mean_name in R.MEANS:
            theta_m = R.mean_theta_for(mean_name, d, pattern)
            if far:
                theta_m[0] *= ys
                theta_m[1 : 1 + d] *= ys / xs
                theta_m[1 + d :] *= ys / xs**2
            hyper = np.concatenate([theta_m, theta_k])
            # reference means for both expansion conventions of the (undocumented) mean parametrisation
            refs = []
            for cname, centre in (("centroid", X.mean(axis=0)), ("origin", np.zeros(d))):
                if mean_name == "ConstantMean" and cname == "origin":
                    continue
                mx = R.mean_eval(R.MB, mean_name, theta_m, X, centre)
                mq = R.mean_eval(R.MB, mean_name, theta_m, Q, centre)
                resid = mp.matrix([[mpf(float(y[i])) - mx[i]] for i in range(n)])
                alpha = Ainv * resid
                mu = Kqx * alpha
                mu_ref = np.array([float(mu[a] + mq[a]) for a in range(m)])
                an = float(mp.norm(alpha))
                mscale = np.array([float(abs(v)) for v in mq]) + float(np.abs(theta_m).sum()) * (1.0 + float(np.abs(Q).max())) ** 2
                rscale = float(np.linalg.norm(y)) + float(mp.norm(mp.matrix([[v] for v in mx])))
                if far:
                    # rounding of t0 + g.(p-c) + h.(p-c)^2 term by term: p-c carries eps(|p|+|c|) (c is a computed centroid),
                    # so the terms carry |g|(|p|+|c|) and |h|(2(|p|+|c|)|p-c| + |p-c|^2)  (units cancel: no power of 1+|p|)
                    c_ = np.asarray(centre, dtype=float)[None, :]
                    g_ = np.abs(theta_m[1 : 1 + d]) if mean_name != "ConstantMean" else np.zeros(d)
                    h_ = np.abs(theta_m[1 + d :]) if mean_name == "QuadraticMean" else np.zeros(d)
                    rnd = lambda P_: abs(float(theta_m[0])) + (np.abs(P_) + np.abs(c_)) @ g_ + (2 * (np.abs(P_) + np.abs(c_)) * np.abs(P_ - c_) + (P_ - c_) ** 2) @ h_
                    mscale = np.array([float(abs(v)) for v in mq]) + rnd(Q)
                    rscale += float(np.linalg.norm(rnd(X)))
                tol_mu = 1e3 * EPS * (kreg * (cond * knorm * an + knorm * rscale / sv[-1]) + mscale)
                refs.append((cname, mu_ref, tol_mu))

            def check_mean(mu_got, key, what):
                """returns the convention index matched (or reports)"""
                best = None
                for ci, (cname, mu_ref, tol_mu) in enumerate(refs):
                    r = float(np.max(np.abs(mu_got - mu_ref) / tol_mu))
                    if best is None or r < best[0]:
                        best = (r, ci)
                sl(key.split("/")[0] + "/mean", best[0], 1.0)
                if best[0] > 1:
                    cname, mu_ref, tol_mu = refs[best[1]]
                    add(key, f"{what}: mean {mu_got.tolist()} vs closed form {mu_ref.tolist()} (tol {tol_mu.tolist()}) noise={noise} mean={mean_name}", hyperpars=hyper, noise=noise, mean=mean_name)
                return best[1]

            def build(perm=None, noise_form=noise, xform=0):
                Xp, yp, th = X, y, theta_k
                Sp, sp_err = S, s_err
                if perm is not None:
                    Xp, yp = X[perm], y[perm]
                    th = permute_theta(spec, theta_k, perm, n, d)
                    Sp = S[np.ix_(perm, perm)]
                    sp_err = None if s_err is None else s_err[perm]
                kw = {}
                if NOISE_FORM[noise_form] == "y_err":
                    kw["y_err"] = sp_err.copy()
                elif NOISE_FORM[noise_form] == "y_cov":
                    kw["y_cov"] = np.ascontiguousarray(Sp.copy())
                xin = Xp.copy()
                yin = yp.copy()
                if d == 1 and xform == 1:
                    xin = xin[:, 0].copy()
                elif xform == 2:
                    xin = [row.copy() for row in xin] if d > 1 else xin[:, 0].tolist()
                    yin = yin.tolist()
                return GpRegressor(xin, yin, hyperpars=np.concatenate([theta_m, th]), kernel=R.make_kernel(spec), mean=R.make_mean(mean_name), **kw)

            combo = f"noise={noise},mean={mean_name}"
            try:
                with lib("GpRegressor()"):
                    gp = build(xform=(pattern + noises.index(noise)) % 3)
                with lib("__call__"):
                    mu_c, sd_c = gp(Q.copy())
                with lib("build_posterior"):
                    mu_p, cov_p = gp.build_posterior(Q.copy())
                with lib("build_posterior(mean_only)"):
                    mu_o = gp.build_posterior(Q.copy(), mean_only=True)
                nev += 4
            except LibFailure as e:
                add(f"predict/{kcls}/raises:{e.exc_type}", f"{name} d={d} {combo}: {e}", traceback=e.tb, noise=noise, mean=mean_name)
                continue
            mu_c, sd_c, mu_p, cov_p, mu_o = (np.asarray(v, dtype=float) for v in (mu_c, sd_c, mu_p, cov_p, mu_o))
            if mu_c.shape != (m,) or sd_c.shape != (m,) or mu_p.shape != (m,) or cov_p.shape != (m, m) or mu_o.shape != (m,):
                add(f"predict/{kcls}/shape", f"{name} {combo}: shapes {mu_c.shape},{sd_c.shape},{mu_p.shape},{cov_p.shape},{mu_o.shape} for {m} query points")
                continue
            check_mean(mu_c, f"call/{fam}/mean-vs-closed-form", "__call__")
            check_mean(mu_p, f"posterior/{fam}/mean-vs-closed-form", "build_posterior")
            check_mean(mu_o, f"mean_only/{fam}/mean-vs-closed-form", "build_posterior(mean_only=True)")
            var_c = sd_c**2
            if sl("call/variance", np.abs(var_c - np.diag(cov_ref)), tol_var) > 1:
                add(f"call/{fam}/variance-vs-closed-form", f"__call__ sd^2 {var_c.tolist()} vs closed form {np.diag(cov_ref).tolist()} (tol {tol_var.tolist()}) {combo}", hyperpars=hyper, noise=noise, mean=mean_name)
            if sl("posterior/covariance", np.abs(cov_p - cov_ref), tol_cov) > 1:
                add(f"posterior/{fam}/covariance-vs-closed-form", f"build_posterior covariance {cov_p.tolist()} vs closed form {cov_ref.tolist()} {combo}", hyperpars=hyper, noise=noise, mean=mean_name)
            tmu = 2 * np.max(np.array([t for _, _, t in refs]), axis=0)
            if sl("agree/mean", np.maximum(np.abs(mu_c - mu_p), np.abs(mu_o - mu_p)), tmu) > 1:
                add(f"agree/{fam}/means-differ", f"__call__ {mu_c.tolist()} build_posterior {mu_p.tolist()} mean_only {mu_o.tolist()} {combo}", noise=noise, mean=mean_name)
            if sl("agree/variance", np.abs(var_c - np.diag(cov_p)), 2 * tol_var) > 1:
                add(f"agree/{fam}/variances-differ", f"__call__ sd^2 {var_c.tolist()} vs diag(build_posterior) {np.diag(cov_p).tolist()} {combo}", noise=noise, mean=mean_name)
            dv = np.diag(cov_p)
            sl("variance/lower", np.maximum(0.0, -dv), tol_var)
            sl("variance/upper", np.maximum(0.0, np.maximum(dv, var_c) - prior), tol_var)
            if (dv < -tol_var).any():
                add(f"variance/{fam}/negative", f"diag(build_posterior) {dv.tolist()} {combo}", noise=noise, mean=mean_name)
            if (dv > prior + tol_var).any() or (var_c > prior + tol_var).any():
                add(f"variance/{fam}/exceeds-prior", f"variance {dv.tolist()} / {var_c.tolist()} above prior {prior.tolist()} {combo}", noise=noise, mean=mean_name)
            store[(noise, mean_name)] = (mu_c, var_c, mu_p, cov_p)
            if far:
                tags.add(f"far:{name},d={d},shift={shift:g},xs={xs:g},ys={ys:g},{noise},{mean_name}")
                tags.add(f"far:cond-decade={int(np.floor(np.log10(cond)))},shift={shift:g}")
            elif reg:
                tags.add(f"regime:{name},d={d},{regime_name(reg)},{noise},{mean_name}")
            elif zeros:
                tags.add(f"exact:{name},d={d},n={n},{case['design']},zero-errors={zeros},{noise},{mean_name}")
                tags.add(f"exact:cond-decade={int(np.floor(np.log10(cond)))}")
            else:
                tags.add(f"{name},d={d},n={n},{case['design']},{noise},{mean_name}")
                tags.add(f"cond-decade={int(np.floor(np.log10(cond)))}")

            def same_as_base(g, label, key, rows=None, Qarg=None):
                """prediction of regressor g at Qarg equals rows of the closed form"""
                nonlocal nev
                Qa = Q.copy() if Qarg is None else Qarg
                rows_ = list(range(m)) if rows is None else rows
                try:
                    with lib(label + ".__call__"):
                        a, b = g(Qa)
                    with lib(label + ".build_posterior"):
                        c, e2 = g.build_posterior(Qa)
                    nev += 2
                except LibFailure as e:
                    add(f"predict/{kcls}/raises:{e.exc_type}", f"{name} d={d} {combo} {label}: {e}", traceback=e.tb, noise=noise, mean=mean_name)
                    return None
                a, b, c, e2 = (np.asarray(v, dtype=float) for v in (a, b, c, e2))
                if a.shape != (len(rows_),) or b.shape != (len(rows_),) or c.shape != (len(rows_),) or e2.shape != (len(rows_), len(rows_)):
                    add(key + "/shape", f"{label}: result shapes {a.shape},{b.shape},{c.shape},{e2.shape} for {len(rows_)} points {combo}", noise=noise, mean=mean_name)
                    return None
                ok = False
                worst = None
                for cname, mu_ref, tol_mu in refs:
                    r = max(
                        float(np.max(np.abs(a - mu_ref[rows_]) / tol_mu[rows_])),
                        float(np.max(np.abs(c - mu_ref[rows_]) / tol_mu[rows_])),
                    )
                    worst = r if worst is None else min(worst, r)
                rv = max(
                    float(np.max(np.abs(b**2 - np.diag(cov_ref)[rows_]) / tol_var[rows_])),
                    float(np.max(np.abs(e2 - cov_ref[np.ix_(rows_, rows_)]) / tol_cov[np.ix_(rows_, rows_)])),
                )
                sl(key.split("/")[0] + "/mean", worst, 1.0)
                sl(key.split("/")[0] + "/cov", rv, 1.0)
                if worst > 1 or rv > 1:
                    add(key, f"{label}: prediction differs from the closed form (mean ratio {worst:.3g}, covariance ratio {rv:.3g}; got mean {a.tolist()}, sd {b.tolist()}) {combo}", hyperpars=hyper, noise=noise, mean=mean_name)
                return a, b**2, c, e2

            # query forms
            for fname, arg, rows in forms:
                same_as_base(gp, f"query[{fname}]", f"queryform/{fname}/differs-from-array-result", rows=rows, Qarg=arg)
                tags.add(f"queryform={fname}")
            # orders of the training set
            if case.get("perms", True):
                for perm in perm_menu(n):
                    try:
                        with lib("GpRegressor(permuted)"):
                            g2 = build(perm=perm)
                        nev += 1
                    except LibFailure as e:
                        add(f"predict/{kcls}/raises:{e.exc_type}", f"{name} d={d} {combo} perm={perm}: {e}", traceback=e.tb, noise=noise, mean=mean_name)
                        break
                    if same_as_base(g2, f"perm{perm}", f"perm/{fam}/depends-on-order-of-training-points") is None:
                        break
                tags.add(f"perms,n={n}")
            # y_err  <=>  diagonal y_cov
            partner = {"y_cov_diag": "y_err", "y_cov_diag_zeros": "y_err_zeros"}.get(noise)
            if partner and (partner, mean_name) in store:
                o = store[(partner, mean_name)]
                e_mu = np.maximum(np.abs(o[0] - mu_c), np.abs(o[2] - mu_p))
                e_v = np.maximum(np.abs(o[1] - var_c), np.abs(np.diag(o[3]) - np.diag(cov_p)))
                e_c = np.abs(o[3] - cov_p)
                r = max(sl("noise/mean", e_mu, tmu), sl("noise/var", e_v, 2 * tol_var), sl("noise/cov", e_c, 2 * tol_cov))
                if r > 1:
                    add("noise/y_err-vs-diagonal-y_cov/differ", f"{name} mean={mean_name}: y_err=s and y_cov=diag(s^2) give different predictions (ratio {r:.3g}; s = {s_err.tolist()})", mean=mean_name)
                tags.add("y_err==diag(y_cov)" + (",some-errors-zero" if zeros else ""))
    return {
        "fails": fails[:40],
        "n": nev,
        "tags": tags,
        "slack": slack,
        "skipped": skipped,
        "sample": {"kernel": name, "n": n, "d": d, "design": case["design"], "theta": theta_k.tolist(), "Q": Q.tolist()},
    }


# ====================================================================================== call histories on ONE regressor
# A history is a sequence over the alphabet
#   Sk   theta[:] = THETA_k ; gp.set_hyperparameters(theta)   theta is the caller's array that the constructor was given
#                                                             (and every earlier S call): overwritten in place, same object
#   Fk   gp.set_hyperparameters(THETA_k.copy())               a new array every time
#   C    gp(q)        P   gp.build_posterior(q)        M   gp.build_posterior(q, mean_only=True)
# k = 0, 1, 2:  THETA_0 is what the constructor was given, THETA_1 differs from it only in the mean-function block, THETA_2
# only in the covariance block (so 1 <-> 2 differ in both).  The overwrite and the call are one action: the property speaks
# about the hyper-parameter vector the regressor was last GIVEN; an array modified behind its back is outside the claim.
# Oracle (differential): after every prediction, and in an audit of all three calls at the end of every history, the result
# equals that of a freshly constructed regressor with the same data and the current hyper-parameters; the caller's arrays
# are byte-identical to what the caller wrote.
HIST_ACTIONS = ["S0", "S1", "S2", "F0", "F1", "F2", "C", "P", "M", "W"]  # W: the caller re-uses (overwrites) the hyper-parameter array it handed over last, without telling the regressor
HIST_RTOL = 1e-12
HIST_CONFIGS = [
    # (kernel, mean, noise, n, d)
    ("SE", "ConstantMean", "y_err", 4, 1),
    (["add", "RQ", "WN"], "LinearMean", "none", 4, 2),
    (["cp", 0, "SE", "SE"], "QuadraticMean", "y_cov_full", 5, 1),
    ("RQ", "LinearMean", "y_cov_diag", 3, 2),
    (["add", "SE", "HN"], "ConstantMean", "none", 4, 1),
    (["cp", 0, "SE", "RQ"], "LinearMean", "y_err", 5, 2),
    (["add", "SE", "RQ"], "QuadraticMean", "y_err", 4, 3),
    ("SE", "QuadraticMean", "none", 5, 2),
    (["add", ["cp", 0, "SE", "SE"], "WN"], "ConstantMean", "y_cov_full", 4, 1),
]


def hist_thetas(spec, mean_name, X, pattern):
    n, d = X.shape
    tm0, tk0 = R.mean_theta_for(mean_name, d, pattern), R.theta_for(spec, X, pattern)
    tm1 = R.mean_theta_for(mean_name, d, (pattern + 1) % 9)
    if np.array_equal(tm1, tm0):
        tm1 = tm0 + 0.25
    tk2 = R.theta_for(spec, X, (pattern + 1) % 9)
    if np.array_equal(tk2, tk0):
        tk2 = tk0 + 0.125
    return [np.concatenate([tm0, tk0]), np.concatenate([tm1, tk0]), np.concatenate([tm0, tk2])], len(tm0)


def _dev(got, want):
    """0 if bit-for-bit equal, else max|got-want| / (HIST_RTOL * max|want|)"""
    got, want = np.asarray(got, dtype=float), np.asarray(want, dtype=float)
    if got.shape != want.shape:
        return float("inf")
    if got.tobytes() == want.tobytes():
        return 0.0
    if not (np.isfinite(got).all() and np.isfinite(want).all()):
        return float("inf")
    sc = float(np.abs(want).max())
    e = float(np.abs(got - want).max())
    return e / (HIST_RTOL * sc) if sc > 0 else float("inf")


def ev_gphist(case):
    from inference.gp import GpRegressor

    spec, mean_name, noise, n, d = case["spec"], case["mean"], case["noise"], case["n"], case["d"]
    pattern, seed, depth = case["pattern"], case["seed"], case["depth"]
    name, fam = R.spec_name(spec), ("has-HN" if R.contains(spec, "HN") else R.family(spec))
    X0 = R.design("regular", n, d, seed)
    y0 = R.y_values(X0)
    s_err, S = noise_matrix(noise, n)
    thetas, nm = hist_thetas(spec, mean_name, X0, pattern)
    span = X0.max(axis=0) - X0.min(axis=0)
    Q0 = np.vstack([X0[0], 0.5 * (X0[0] + X0[-1]) + 0.013, X0.max(axis=0) + 0.4 * span + 0.1])
    fails, seen, tags, slack = [], {}, set(), {}
    cnt = {"n": 0, "hist": 0}

    def bad(key, what, **kw):
        seen[key] = seen.get(key, 0) + 1
        if seen[key] == 1:
            fails.append(fail(key, what, kernel=name, mean=mean_name, noise=noise, n=n, d=d, pattern=pattern, **kw))

    def make(theta):
        """a regressor on new copies of the data; returns it with the arrays that were handed over (the caller's, to be watched)"""
        kw = {}
        arrs = {"x": X0.copy(), "y": y0.copy(), "theta": theta}
        if noise == "y_err":
            kw["y_err"] = arrs["y_err"] = s_err.copy()
        elif noise in ("y_cov_diag", "y_cov_full"):
            kw["y_cov"] = arrs["y_cov"] = np.ascontiguousarray(S.copy())
        with lib("GpRegressor()"):
            g = GpRegressor(arrs["x"], arrs["y"], hyperpars=theta, kernel=R.make_kernel(spec), mean=R.make_mean(mean_name), **kw)
        cnt["n"] += 1
        return g, arrs

    def predict(g, which, q):
        if which == "C":
            with lib("__call__"):
                a, b = g(q)
            out = [np.asarray(a, dtype=float), np.asarray(b, dtype=float)]
        elif which == "P":
            with lib("build_posterior"):
                a, b = g.build_posterior(q)
            out = [np.asarray(a, dtype=float), np.asarray(b, dtype=float)]
        else:
            with lib("build_posterior(mean_only)"):
                out = [np.asarray(g.build_posterior(q, mean_only=True), dtype=float)]
        cnt["n"] += 1
        return out

    # what a freshly built regressor returns for each hyper-parameter vector (computed once per case)
    fresh = []
    for k in range(3):
        g, _ = make(thetas[k].copy())
        fresh.append({w: predict(g, w, Q0.copy()) for w in "CPM"})
    part = {"C": ("mean", "sd"), "P": ("mean", "covariance"), "M": ("mean",)}
    meth = {"C": "__call__", "P": "build_posterior", "M": "mean_only"}

    def run(hist):
        T = thetas[0].copy()
        try:
            g, arrs = make(T)
        except LibFailure as e:
            bad(f"history/{fam}/constructor/raises:{e.exc_type}", f"{name}: {e}", traceback=e.tb, history=[])
            return False
        q = Q0.copy()
        want = dict(x=X0, y=y0, theta=thetas[0], q=Q0)
        if "y_err" in arrs:
            want["y_err"] = s_err
        if "y_cov" in arrs:
            want["y_cov"] = S
        arrs["q"] = q
        cur, how, prev = 0, "constructor", None
        last_arg, last_name = T, "theta"
        ok = True

        def observe(w, done, audit):
            nonlocal ok
            try:
                got = predict(g, w, q)
            except LibFailure as e:
                bad(f"history/{fam}/{meth[w]}/raises:{e.exc_type}", f"{name} after {done}: {e}", traceback=e.tb, history=done)
                ok = False
                return
            tags.add(f"hist-observe {meth[w]} hyperpars-last-given-by:{how} changing:{prev} {'audit' if audit else 'step'},{fam},{mean_name},{noise}")
            for pn, a, b in zip(part[w], got, fresh[cur][w]):
                r = _dev(a, b)
                sk = f"history/{meth[w]}/{pn}"
                slack[sk] = max(slack.get(sk, 0.0), r)
                if r > 1:
                    bad(
                        f"history/{fam}/{meth[w]}/{pn}-differs-from-fresh-regressor/hyperpars-last-given-by:{how}",
                        f"{name}, {mean_name}, noise={noise}: after [{', '.join(done)}]{' (audit at the end of the history)' if audit else ''} {meth[w]} {pn} = {a.tolist()} but a freshly "
                        f"built regressor with the same data and the current hyper-parameters {thetas[cur].tolist()} gives {b.tolist()} (deviation {r:.3g} x {HIST_RTOL:g} relative)",
                        history=done, current=cur, changed_block=prev,
                    )
                    ok = False

        def unchanged(done):
            nonlocal ok
            for nm_, a in arrs.items():
                w_ = want[nm_]
                if a.shape != w_.shape or a.tobytes() != np.ascontiguousarray(w_, dtype=a.dtype).tobytes():
                    bad(f"history/caller-array-modified/{nm_.split('#')[0]}", f"{name}: after [{', '.join(done)}] the caller's {nm_} is {a.tolist()}, the caller wrote {w_.tolist()}", history=done)
                    ok = False

        for t, act in enumerate(hist):
            done = hist[: t + 1]
            if act[0] in "SF":
                k = int(act[1])
                same_m = np.array_equal(thetas[k][:nm], thetas[cur][:nm])
                same_k = np.array_equal(thetas[k][nm:], thetas[cur][nm:])
                prev = "none" if (same_m and same_k) else ("mean-only" if same_k else ("cov-only" if same_m else "both"))
                if act[0] == "S":
                    T[:] = thetas[k]
                    want["theta"] = thetas[k]
                    arg, how = T, "same-array-overwritten-in-place"
                else:
                    arg = thetas[k].copy()
                    arrs[f"theta-new-array#{t}"] = arg
                    want[f"theta-new-array#{t}"] = thetas[k]
                    how = "new-array"
                try:
                    with lib("set_hyperparameters"):
                        g.set_hyperparameters(arg)
                except LibFailure as e:
                    bad(f"history/{fam}/set_hyperparameters/raises:{e.exc_type}", f"{name} after {done}: {e}", traceback=e.tb, history=done)
                    return False
                cnt["n"] += 1
                cur = k
                last_arg, last_name = arg, ("theta" if act[0] == "S" else f"theta-new-array#{t}")
            elif act == "W":
                # the fitted state belongs to the regressor: what the caller does to its own array afterwards must not matter
                other = thetas[(cur + 1) % 3]
                last_arg[:] = other
                want[last_name] = other
                how = how.split("+")[0] + "+then-overwritten-by-the-caller"
            else:
                observe(act, done, False)
            unchanged(done)
            if not ok:
                return False
        for w in "CPM":
            observe(w, list(hist), True)
        unchanged(list(hist) + ["audit"])
        return ok

    first = case["first"]
    frontier = [[first]]
    while frontier:
        nxt = []
        for h in frontier:
            cnt["hist"] += 1
            if run(h) and len(h) < depth:
                nxt += [h + [a] for a in HIST_ACTIONS]
        frontier = nxt
    for f in fails:
        f["occurrences_in_case"] = seen[f["key"]]
    tags.add(f"history-config {name},{mean_name},{noise},n={n},d={d},first={first}")
    return {
        "fails": fails[:30],
        "n": cnt["n"],
        "tags": tags,
        "slack": slack,
        "sample": {"kernel": name, "mean": mean_name, "noise": noise, "n": n, "d": d, "first": first, "histories": cnt["hist"], "thetas": [t.tolist() for t in thetas]},
    }


EVALUATORS = {"gp": ev_gp, "gphist": ev_gphist}


def run(ck):
    seed, quick = ck.seed, ck.quick
    if quick:
        menu = [(3, 1), (5, 2), (8, 3), (4, 1), (2, 2), (8, 1), (3, 3), (4, 2), (5, 1), (2, 3), (8, 2), (3, 2), (5, 3)]
        nd = [(2, 1)] + [menu[(3 * seed + i) % len(menu)] for i in range(3)]
    else:
        nd = ND_ALL
    cases = []
    for (n, d) in nd:
        for ki, spec in enumerate(KERNELS):
            for di, des in enumerate(DESIGNS):
                if quick:
                    pats = [(ki + di + n + seed) % 9, (ki + 2 * di + 4 * n + 3 * seed + 5) % 9]
                else:
                    pats = range(9)
                for pat in sorted(set(pats)):
                    cases.append({"spec": spec, "n": n, "d": d, "design": des, "pattern": pat, "seed": seed})
    ck.run_cases("gp", cases, chunk=1)
    # ---- sums with a noise term in every position (simplest first), on a d = 1 and a d >= 2 point set each
    pmenu = [(3, 1, "regular"), (4, 2, "clustered"), (4, 1, "permuted"), (3, 2, "regular"), (5, 1, "clustered"), (3, 3, "permuted"), (2, 1, "regular"), (5, 2, "permuted")]
    ncases = []
    for ki, spec in enumerate(NOISE_POS_KERNELS):
        sel = [pmenu[(2 * (ki + seed)) % len(pmenu)], pmenu[(2 * (ki + seed) + 1) % len(pmenu)]] if quick else pmenu
        for j, (n, d, des) in enumerate(sel):
            for pat in ([(ki + j + seed) % 9] if quick else [(ki + j + seed) % 9, (ki + j + seed + 4) % 9, (ki + j + seed + 8) % 9]):
                ncases.append({"spec": spec, "n": n, "d": d, "design": des, "pattern": pat, "seed": seed})
    ck.run_cases("gp", ncases, chunk=1)
    # ---- exact (zero-error) observations mixed with positive errors: y_err with zeros and the equivalent diagonal y_cov
    ekern = KERNELS + NOISE_POS_KERNELS[:3]
    ecases = []
    for ki, spec in enumerate(ekern):
        sel = [pmenu[(ki + seed + 3 * j) % len(pmenu)] for j in range(2 if quick else len(pmenu))]
        for j, (n, d, des) in enumerate(sel):
            for zi in ([(ki + j + seed) % len(ZERO_MASKS)] if quick else range(len(ZERO_MASKS))):
                ecases.append({"spec": spec, "n": n, "d": d, "design": des, "pattern": (ki + 2 * j + zi + seed) % 9, "seed": seed, "zeros": ZERO_MASKS[zi], "perms": n <= 4})
    ck.run_cases("gp", ecases, chunk=1)
    ck.extra["exact_observations"] = {"zero_masks": ZERO_MASKS, "kernels": [R.spec_name(s) for s in ekern], "cases": len(ecases)}
    # ---- hyper-parameter regimes outside the default bounds, for every kernel that has the parameter kind
    rkern = KERNELS + (NOISE_POS_KERNELS[:6] if quick else NOISE_POS_KERNELS)
    rcases = []
    for ri, reg in enumerate(REGIMES):
        for ki, spec in enumerate(rkern):
            if not regime_applies(spec, reg):
                continue
            sel = [pmenu[(ki + ri + seed) % len(pmenu)]] if quick else [pmenu[(ki + ri + seed + 3 * j) % len(pmenu)] for j in range(3)]
            for j, (n, d, des) in enumerate(sel):
                rcases.append({"spec": spec, "n": n, "d": d, "design": des, "pattern": (ki + 2 * ri + j + seed) % 9, "seed": seed, "regime": reg, "perms": not quick and n <= 4})
    ck.run_cases("gp", rcases, chunk=1)
    ck.extra["noise_position_kernels"] = [R.spec_name(s) for s in NOISE_POS_KERNELS]
    ck.extra["regimes"] = {"regimes": [regime_name(r) for r in REGIMES], "kernels": [R.spec_name(s) for s in rkern], "cases": len(rcases)}
    # ---- the same regression problems far from the origin and in other units (simplest first: shifts only, then scales)
    scales = FAR_SCALES_QUICK if quick else FAR_SCALES
    nonunit = [(a, b) for a in scales for b in scales if (a, b) != (1.0, 1.0)]
    fnd = [(3, 1, "regular"), (5 if not quick else 4, 2, "clustered"), (4 if not quick else 3, 2, "permuted"), (3, 3, "regular"), (4, 1, "clustered")]
    fcases = []
    for ki, spec in enumerate(KERNELS):
        if quick:
            cfgs = [(fnd[(ki + seed) % len(fnd)], (ki + seed) % 9)]
        else:
            cfgs = [(fnd[(ki + seed + j) % len(fnd)], (ki + seed + 4 * j) % 9) for j in range(3)]
        for (n, d, des), pat in cfgs:
            base = {"spec": spec, "n": n, "d": d, "design": des, "pattern": pat, "seed": seed, "perms": not quick and n <= 4}
            for sh in FAR_SHIFTS[1:]:
                fcases.append(dict(base, far={"shift": sh, "xs": 1.0, "ys": 1.0}))
            for j, (a, b) in enumerate(nonunit):
                shs = [FAR_SHIFTS[(ki + j + seed) % len(FAR_SHIFTS)]] if quick else FAR_SHIFTS
                for sh in shs:
                    fcases.append(dict(base, far={"shift": sh, "xs": a, "ys": b}))
    ck.run_cases("gp", fcases, chunk=1)
    # ---- call histories on one regressor: every sequence of <= depth actions, in blocks by first action, shortest first
    hdepth = 3 if quick else 4
    hcases = []
    hsel = [(seed + j) % len(HIST_CONFIGS) for j in range(6)] if quick else list(range(len(HIST_CONFIGS)))
    for dep in (1, hdepth):
        for ci in hsel:
            spec, mean, noise, n, d = HIST_CONFIGS[ci]
            for pat in ([(ci + seed) % 9] if quick else [(ci + seed) % 9, (ci + seed + 4) % 9]):
                for first in HIST_ACTIONS:
                    hcases.append({"spec": spec, "mean": mean, "noise": noise, "n": n, "d": d, "pattern": pat, "seed": seed, "first": first, "depth": dep})
    ck.run_cases("gphist", hcases, chunk=1)
    ck.extra["far_lattice"] = {"shifts_in_mid_level_length_scales": FAR_SHIFTS, "scales_x_and_y": scales, "cases": len(fcases)}
    ck.extra["call_histories"] = {"alphabet": HIST_ACTIONS, "depth": hdepth, "configurations": [[R.spec_name(HIST_CONFIGS[c][0])] + list(HIST_CONFIGS[c][1:]) for c in hsel],
                                  "histories_per_configuration": sum(len(HIST_ACTIONS) ** l for l in range(1, hdepth + 1))}
    ck.rule = (
        "every element of {11 kernel compositions} x {(n,d)} x {regular, clustered near-duplicate, permuted+stretched designs} x {hyper-parameter "
        "level patterns} x {no noise, y_err, diagonal y_cov, full y_cov} x {Constant, Linear, Quadratic mean}; per element 4 query points (a training "
        "point, interior, offset, far extrapolation) in every accepted query form, and all n! orders of the training set (n<=4; a 6-entry menu above). "
        "A lattice point is distinct by (kernel, d, n, design, noise, mean); condition-number decades reached are counted too. "
        "Noise-position lattice: %d sums with a WhiteNoise / HeteroscedasticNoise term first, in the middle, last, twice, built with + and with the constructor (nested), inside "
        "and around a change-point, each on a d = 1 and a d >= 2 point set (thorough: 8 point sets x 3 patterns) through all oracles above. "
        "Kernel-level oracle on every gp case (keys crosscov/..): kernel(q, x, theta) and kernel(q, q, theta) of the regressor's kernel object equal entry by entry the documented "
        "formula that K_xx follows, and the K_qx row of a query point that is a training point equals the build_covariance row off the diagonal. "
        "Exact-observation lattice (keys exact/..): {y_err with exact zeros, the equivalent diagonal y_cov} x {zero errors at the even / first / all but the last / odd / last training point, "
        "the others positive} x {14 kernels} x {Constant, Linear, Quadratic mean} on two rotating point sets (thorough: 8 point sets x 5 zero masks) through all oracles above (closed form with "
        "S = diag(s^2) exactly as given, y_err = s <=> y_cov = diag(s^2), orders of the training set carry their errors along); distinct by (kernel, d, n, design, zero mask, noise form, mean). "
        "Regime lattice (keys regime/..): {ln alpha = -6, -3, 8, 9.25, 10, 12; length-scale = 1e-3, 1e-2, 30, 1e3 data ranges; ln A = -10, +10, alternating; ln sigma = -12, 4; "
        "(alpha 12, ls 30), (alpha 10, A -10), (alpha -6, ls 1e-2, A alternating)} x {every kernel of the lists that has the parameter kind} on a rotating point set (thorough: three), "
        "all outside the default optimisation bounds; distinct by (kernel, d, regime, noise, mean). "
        "Far-location / unit lattice (keys far/..): the same elements (one (n,d,design,pattern) per kernel in the quick tier, three in the thorough tier) with "
        "x -> xs*(x + shift), y -> ys*y, shift in {0, +-1e3, +-1e6} mid-level length-scales, xs, ys in {1e-6, [1e-3,] 1, [1e3,] 1e6}, the hyper-parameters, data errors and mean "
        "coefficients carried along (same problem in other units at another location); reference and tolerances computed on the transformed floats; quick: "
        "all four shifts at unit scale plus every non-unit (xs, ys) at one rotating shift; thorough: the full product; distinct by (kernel, d, shift, xs, ys, noise, mean). "
        "Call histories (keys history/..): on ONE regressor every sequence of <= depth (quick 3, thorough 4) actions over {set_hyperparameters(theta_k) with the caller's one "
        "array overwritten in place (the object the constructor was given), set_hyperparameters(new array theta_k), __call__(q), build_posterior(q), "
        "build_posterior(q, mean_only)} x k in {0: as constructed, 1: only the mean block differs, 2: only the covariance block differs}, for 9 (kernel, mean, noise, n, d) "
        "configurations (quick: a seed-rotated window of 6); after every prediction and in an audit of all three calls at the end of every history the results must equal (bit for bit, else 1e-12 of the "
        "largest entry) those of a freshly constructed regressor with the same data and the current hyper-parameters, and x, y, y_err / y_cov, q and every theta array "
        "handed over must be byte-identical to what the caller wrote; a history tag is (call, how the current hyper-parameters were given, which block changed, step/audit, kernel family, mean, noise)."
        % len(NOISE_POS_KERNELS)
    )
    ck.assume("regime lattice: the prediction tolerances are multiplied by (1 + alpha) because the entries of K_xx and K_qx themselves carry (1 + alpha) eps relative rounding "
              "((1 + Z/alpha)^-alpha w.r.t. the rounding of 1 + Z/alpha); regimes whose K_xx + S has cond > 1e10 (amplitude e^10 with a long length-scale and no noise) are skipped and counted; "
              "the kernel-level oracle crosscov/.. is not affected by conditioning and is evaluated for all of them")
    ck.assume("the diagonal-jitter window [0, 1e-10 K_ii] is widened by 64 eps (K_ii + sqrt((sum A^2 + max sigma^2) K_ii)): a change-point weight 1 - f formed by subtraction carries eps absolutely")
    ck.assume("call histories: 'the hyper-parameter vector' is the one last GIVEN to the constructor / set_hyperparameters; the in-place overwrite of the caller's array is always followed "
              "by set_hyperparameters with that array before the next prediction (an array modified behind the regressor's back is outside the claim); histories are bounded by the stated "
              "depth, n <= 5, d <= 3 and one hyper-parameter pattern per configuration (two in the thorough tier); the fresh regressor itself is covered by the closed-form lattice")
    ck.assume("far-location lattice: locations up to 1e6 mid-level length-scales from the origin (the per-dimension length-scales of the lattice are 0.3 .. 3.7 times that) and units "
              "1e-6 .. 1e6 for x and y with the hyper-parameters expressed in the same units; rounding of the mean function is bounded term by term with |x| + |centroid| for x - centroid")
    ck.assume("continuous inputs are represented by the listed deterministic designs (n <= 8, d <= 3); designs with cond(K_xx+S) > 1e10 are skipped and counted")
    ck.assume("exact-observation lattice: an error of exactly zero means an exactly known observation (S_ii = 0, as the closed form says); only error vectors with at least one zero and one "
              "positive entry are enumerated, and designs whose K_xx + S then has cond > 1e10 (near-duplicate exact points under a noise-free kernel) are skipped and counted")
    ck.assume("y_cov is given as an ndarray (documented form); a single training point is rejected by the constructor and is outside the domain")
    ck.assume("the size of the diagonal jitter of K_xx (documented as 'small values added to the diagonal') is read from build_covariance after checking it lies in [0, 1e-10*K_ii]")
    ck.assume("noise kernels (WhiteNoise, HeteroscedasticNoise) act on the data index: they contribute to K_xx only, not to K_qx / K_qq (prediction of the latent function)")
    ck.assume("the mean functions' parametrisation is undocumented: expansion about the data centroid or about the origin is accepted, if used consistently at x and q")
    ck.extra["kernels"] = [R.spec_name(s) for s in KERNELS]
    ck.extra["nd"] = nd
