"""C17 - GpLinearInverter returns the exact linear-Gaussian posterior, evidence and evidence gradient.

Engine D: model matrices (1x3, 3x3, 5x3, 3x5) x {dense, rank-deficient, with a zero row} x data errors
{uniform, mixed 1e-3..1} x parameter positions (d = 1, 2; regular / irregular / with a duplicate) x kernels
{SE, RQ, SE+WN, CP(SE,SE)} x means {constant, linear} x {low, mid, high} per hyper-parameter block.
Oracle (mc.ref.gpref_b, 50 digits): prior N(m, K), likelihood N(A x, S):
    mean = m + K A^T J^-1 (y - A m),  cov = K - K A^T J^-1 A K,  J = A K A^T + S,
    evidence = log N(y; A m, J) (+ m/2 log 2 pi: either convention), gradient = Richardson of the 50-digit evidence.
The mean axis includes "N": a user-defined MeanFunction subclass (written here, the way the class documentation invites)
that is non-linear in its hyper-parameters, m(x) = exp(a) sin(b x_0 + c); same 50-digit oracle.
Further user-written means, all non-uniform in x, with 0 / 1 / 1 / 2 hyper-parameters: 0.3 cos(1.3 x_0), a (1 + x_0), a sin(2 x_0), a + b x_0^2
(specs U0, U1, S1, U2; same oracles, own small block of the lattice and of the call histories): every count 0..3 of mean hyper-parameters is met by
a user class, 1..3 also by a library class.
Data units: the same problems with y, y_err and the model matrix multiplied by 1e-9, 1e-6, 1e6, 1e9 (posterior unchanged,
evidence shifted), y_err {spread 0.1 x (1,2,5,0.5,3), uniform, mixed}: same oracle on the same floats, same derived tolerances.

history  : call histories on ONE inverter object: every sequence of <= 3 calls over {calculate_posterior,
           calculate_posterior_mean, marginal_likelihood, marginal_likelihood_gradient} x 3 hyper-parameter vectors, the
           caller passing a fresh array each time / re-using ONE array that it overwrites in place between calls / doing
           so and also scribbling over the arrays it got back.  After every call the result must be that of a fresh
           inverter given a fresh copy of the same vector (the statement is about the hyper-parameter VALUES).
"""
import itertools
import math

import numpy as np

from mc.core import HarnessError, fail, lib

LEVEL = "exploration"

PHI = 0.6180339887498949
COND_MAX = 1e10
SHAPES = [(1, 3), (3, 3), (5, 3), (3, 5)]
AKINDS = ["dense", "rankdef", "zerorow"]
KERNELS = ["SE", "RQ", ["+", "SE", "WN"], ["CP", 0, "SE", "SE"]]
MEANS = ["C", "L", "N"]
METHODS = ["calculate_posterior", "calculate_posterior_mean", "marginal_likelihood", "marginal_likelihood_gradient"]
MODES = ["fresh-array", "inplace-array", "inplace-array+scribble"]
# user-defined mean m(x) = exp(a) sin(b x_0 + c): {low, mid, high} of a, of b (in units of 1 / position range) and of c
N_A = (-0.9, 0.0, 0.6)
N_B = (0.8, 1.7, 2.9)
N_C = (-0.7, 0.3, 1.4)
HIST_RTOL = 1e-12


def frac(v):
    return v - math.floor(v)


def make_matrix(m, n, kind, seed):
    A = [[0.3 + math.cos((i + 1.0 + seed) * (j + 2.0) * PHI * 3.0) + (0.8 if (i % n) == j else 0.0) for j in range(n)] for i in range(m)]
    if kind == "rankdef":
        if m >= 3:  # a row that is a combination of two others
            A[2] = [2.0 * a - b for a, b in zip(A[0], A[1])]
        if m >= n or m == 1:  # and a column that is a combination of two others / a zero column
            for i in range(m):
                A[i][n - 1] = A[i][0] - 0.5 * A[i][1] if m > 1 else 0.0
    elif kind == "zerorow":
        A[(seed + m - 1) % m] = [0.0] * n
    return A


def make_positions(n, d, kind, seed):
    off = 1 + seed % 5
    sc, sh = [(1.0, 0.0), (4.0, -1.5), (0.25, 3.0), (20.0, 50.0)][seed % 4]
    from checks.c11 import halton

    if d == 1:
        if kind == "regular":
            u = [[i / (n - 1)] for i in range(n)]
        elif kind == "irregular":
            u = [[frac((i + off) * PHI)] for i in range(n)]
        else:  # two parameters at the same position
            u = [[frac((i + off) * PHI)] for i in range(n)]
            u[n - 1] = list(u[0])
    else:
        u = [[halton(i + off, 2), halton(i + off, 3)] for i in range(n)]
        if kind == "regular":
            u = [[(i % 2) * 1.0 + 0.1 * i, (i // 2) / max(1, (n - 1) // 2)] for i in range(n)]
        elif kind == "duplicate":
            u[n - 1] = list(u[0])
    return [[sh + sc * (0.5**k) * p[k] for k in range(d)] for p in u]


SPREAD = [1.0, 2.0, 5.0, 0.5, 3.0]  # relative pattern of the "spread" errors (a factor 10 between the extremes)
DATA_SCALES = [1e-9, 1e-6, 1e6, 1e9]  # units of the data: y, y_err and the model matrix are all multiplied by it


def make_problem(shape, akind, ekind, d, pkind, seed, scale=None):
    m, n = shape
    A = make_matrix(m, n, akind, seed)
    X = make_positions(n, d, pkind, seed)
    xt = [0.4 + math.sin(1.7 * j + 0.3 * seed) for j in range(n)]
    if ekind == "uniform":
        e = [[0.1, 0.5][seed % 2]] * m
    elif ekind == "spread":  # moderately heteroscedastic: 0.1 x {1, 2, 5, 0.5, 3}
        e = [0.1 * SPREAD[(i + seed) % len(SPREAD)] for i in range(m)]
    else:  # mixed 1e-3 .. 1, geometric
        e = [10.0 ** (-3.0 * (1.0 - i / max(1, m - 1))) for i in range(m)] if m > 1 else [1e-3]
        e = e[seed % m :] + e[: seed % m]
    y = [sum(A[i][j] * xt[j] for j in range(n)) + e[i] * math.cos(5.0 * (i + 1 + seed)) for i in range(m)]
    prob = {"A": A, "X": X, "y": y, "y_err": e, "shape": [m, n], "akind": akind, "ekind": ekind, "d": d, "pkind": pkind, "noise": "inv"}
    if scale is not None:
        # the same problem with the data expressed in another unit: the parameters, the prior and hence the posterior are
        # unchanged (the evidence moves by -m log scale); the reference works on exactly these floats
        prob.update(A=[[scale * v for v in row] for row in A], y=[scale * v for v in y], y_err=[scale * v for v in e], scale=scale)
    return prob


def scales(prob):
    X = np.array(prob["X"], dtype=float)
    r = X.max(axis=0) - X.min(axis=0)
    return {"sy": 1.0, "ybar": 0.5, "rng": r.tolist(), "xmin": X.min(axis=0).tolist()}


_USER = {}


def user_mean_class():
    """a mean function as a user of the library would write it (sub-class of the MeanFunction abstract base class),
    non-linear in all three hyper-parameters: m(x) = exp(a) sin(b x_0 + c).  It keeps no state besides the positions."""
    if "cls" not in _USER:
        from inference.gp.mean import MeanFunction

        class SineMean(MeanFunction):
            def __init__(self, hyperpar_bounds=None):
                self.bounds = hyperpar_bounds
                self.n_params = 3
                self.hyperpar_labels = ["SineMean log-amplitude", "SineMean wavenumber", "SineMean phase"]

            def pass_spatial_data(self, x):
                self.x0 = np.array(x[:, 0], dtype=float)
                self.n_data = x.shape[0]

            def estimate_hyperpar_bounds(self, y):
                r = float(self.x0.max() - self.x0.min())
                self.bounds = [(-3.0, 3.0), (0.0, 10.0 / r), (-math.pi, math.pi)]

            def __call__(self, q, theta):
                return math.exp(theta[0]) * np.sin(theta[1] * np.asarray(q)[..., 0] + theta[2])

            def build_mean(self, theta):
                return math.exp(theta[0]) * np.sin(theta[1] * self.x0 + theta[2])

            def mean_and_gradients(self, theta):
                a = math.exp(theta[0])
                arg = theta[1] * self.x0 + theta[2]
                sn, cs = np.sin(arg), np.cos(arg)
                return a * sn, [a * sn, a * self.x0 * cs, a * cs]

        _USER["cls"] = SineMean
    return _USER["cls"]


# further user-written means, all NON-UNIFORM in x, so that every number of mean hyper-parameters 0..3 is met by a user class
# (library: ConstantMean 1, LinearMean 2 (d=1) / 3 (d=2), QuadraticMean 3 (d=1); the library has no mean without hyper-parameters):
#   U0  m(x) = 0.3 cos(1.3 x_0)   (no hyper-parameter)      U1  m(x) = a (1 + x_0)       S1  m(x) = a sin(2 x_0)      U2  m(x) = a + b x_0^2
USER_MEANS = ["U1", "S1", "U2", "U0"]
USER_NPAR = {"U0": 0, "U1": 1, "S1": 1, "U2": 2, "N": 3}


def user_profile_class(mspec):
    """user sub-classes of MeanFunction whose profile is fixed up to 0, 1 or 2 hyper-parameters (written the way the abstract
    base class invites: n_params, hyperpar_labels, bounds, pass_spatial_data, build_mean, mean_and_gradients)"""
    key = "cls-" + mspec
    if key not in _USER:
        from inference.gp.mean import MeanFunction

        def terms(x0, t):
            # -> (mean, [d mean / d theta_j])
            if mspec == "U0":
                return 0.3 * np.cos(1.3 * x0), []
            if mspec == "U1":
                return t[0] * (1.0 + x0), [1.0 + x0]
            if mspec == "S1":
                return t[0] * np.sin(2.0 * x0), [np.sin(2.0 * x0)]
            if mspec == "U2":
                return t[0] + t[1] * x0**2, [np.ones_like(x0), x0**2]
            raise HarnessError(mspec)

        class ProfileMean(MeanFunction):
            def __init__(self, hyperpar_bounds=None):
                self.bounds = hyperpar_bounds
                self.n_params = USER_NPAR[mspec]
                self.hyperpar_labels = ["%s parameter %d" % (mspec, j) for j in range(self.n_params)]

            def pass_spatial_data(self, x):
                self.x0 = np.array(x[:, 0], dtype=float)
                self.n_data = x.shape[0]

            def estimate_hyperpar_bounds(self, y):
                self.bounds = [(-10.0, 10.0)] * self.n_params

            def __call__(self, q, theta):
                return terms(np.asarray(q, dtype=float)[..., 0], theta)[0]

            def build_mean(self, theta):
                return terms(self.x0, theta)[0]

            def mean_and_gradients(self, theta):
                return terms(self.x0, theta)

        ProfileMean.__name__ = "ProfileMean_" + mspec
        _USER[key] = ProfileMean
    return _USER[key]


def lib_mean(mspec):
    from checks import c11

    if mspec in USER_MEANS:
        return user_profile_class(mspec)()
    return user_mean_class()() if mspec == "N" else c11.lib_mean(mspec)


def mean_theta(mspec, im, s):
    from checks import c11

    if mspec == "N":
        return [N_A[im], N_B[(im + 1) % 3] / s["rng"][0], N_C[(im + 2) % 3]]
    if mspec in USER_MEANS:
        xa = max(abs(s["xmin"][0]), abs(s["xmin"][0] + s["rng"][0]))  # largest |x_0|: the mean stays of the order of the data
        c = s["ybar"] + c11.MEAN_C[im] * s["sy"]
        return {"U0": [], "U1": [c / (1.0 + xa)], "S1": [c], "U2": [c, (c11.MEAN_Q[(im + 1) % 3] + 0.2) * s["sy"] / xa**2]}[mspec]
    return c11.mean_theta(mspec, im, s)


def theta_at(kspec, mspec, prob, im, ia, il, ie):
    from checks import c11

    s = scales(prob)
    return mean_theta(mspec, im, s) + c11.kernel_theta(kspec, (ia, il, ie), s, "inv")


def hp_lattice(kspec, mspec, prob, sub=None):
    from checks import c11

    s = scales(prob)
    ext = range(3) if c11.has_extra(kspec) else range(1)
    out = []
    for im, ia, il, ie in itertools.product(range(3), range(3), range(3), ext):
        if sub is not None:
            if sub[0] == 3 and (im + ia + il + ie) % 3 != sub[1] % 3:
                continue
            if sub[0] == 9 and (im + 3 * ia) != (sub[1] - 2 * (il + 3 * ie)) % 9:
                continue
        out.append(mean_theta(mspec, im, s) + c11.kernel_theta(kspec, (ia, il, ie), s, "inv"))
    return out


def detclass(shape):
    m, n = shape
    return "under" if m < n else ("exact" if m == n else "over")


def ev_inverter(case):
    from checks import c11
    from inference.gp import GpLinearInverter
    from mc.ref import gpref_b as G

    prob = case["problem"]
    kspec, mspec = case["kernel"], case["mean"]
    m, n = prob["shape"]
    d = prob["d"]
    A = np.array(prob["A"], dtype=float)
    X = np.array(prob["X"], dtype=float)
    y = np.array(prob["y"], dtype=float)
    e = np.array(prob["y_err"], dtype=float)
    kn = c11.kname(kspec)
    acls = "%s-%s" % (detclass(prob["shape"]), prob["akind"])
    cfg = "A=%dx%d-%s,yerr=%s,d=%d,pos=%s,k=%s,m=%s" % (m, n, prob["akind"], prob["ekind"], d, prob["pkind"], kn, mspec)
    if prob.get("scale") is not None:
        # data in other units: own keys (the number is the lattice label of the unit, not a measured quantity)
        acls += ",data-unit=%s,yerr=%s" % ("small" if prob["scale"] < 1 else "large", prob["ekind"])
        cfg += ",data-unit=%g" % prob["scale"]
    pcls = c11.param_classes(kspec, mspec, d)
    pm = G.mean_n_params(mspec, d)
    S = [[(G.M(e[i]) ** 2 if i == j else G.ZERO) for j in range(m)] for i in range(m)]
    const = 0.5 * m * math.log(2 * math.pi)
    fails, tags, slack, skipped = [], set(), {}, {}
    nev = 0
    sample = None
    conventions = set()

    def upd(name, err, tol):
        r = float(err) / float(tol) if tol > 0 else (0.0 if err == 0 else float("inf"))
        if r > slack.get(name, -1.0):
            slack[name] = r
        return r

    def skip(why):
        skipped[why] = skipped.get(why, 0) + 1

    with lib("construct"):
        inv = GpLinearInverter(y=y.copy(), y_err=e.copy(), model_matrix=A.copy(), parameter_spatial_positions=X.copy(), prior_covariance_function=c11.lib_kernel(kspec), prior_mean_function=lib_mean(mspec))
    if inv.n_hyperpars != len(case["thetas"][0]):
        raise HarnessError("hyper-parameter layout: model has %d, reference %d" % (inv.n_hyperpars, len(case["thetas"][0])))

    for theta in case["thetas"]:
        ctx = {"config": cfg, "theta": list(theta)}
        th = np.array(theta, dtype=float)
        rho = c11.measure_rho(inv, kspec, theta[pm:], prob["X"], fails, ctx)
        ref = G.LinGauss(prob["X"], prob["y"], kspec, mspec, S=S, B=prob["A"], rho=rho)
        try:
            sc = ref.scores(theta, loo=False)
        except G.NotPD:
            skip("reference data covariance not positive definite")
            continue
        alpha = ref.alpha(sc)
        P = G.Pert(G.tofloat(sc["C"]), G.tofloat(sc["r"]), G.tofloat(alpha), rabs=ref.residual_rounding_scale(theta))
        rmean, rcov, pmean, K = ref.posterior(theta)
        rmean, rcov, pmean, K = G.tofloat(rmean), G.tofloat(rcov), G.tofloat(pmean), G.tofloat(K)
        W = A.T @ np.diag(e**-2.0) @ A
        Mx = np.eye(n) + K @ W
        sv = np.linalg.svd(Mx, compute_uv=False)
        condM = float(sv[0] / sv[-1]) if sv[-1] > 0 else float("inf")
        if not P.ok or P.cond > COND_MAX:
            skip("cond(A K A^T + S) > 1e10")
            continue
        if condM > COND_MAX:
            skip("cond(I + K A^T S^-1 A) > 1e10")
            continue
        tags.add(cfg + ",cond=1e%d" % int(math.log10(max(condM, 1.0))))
        nK = float(np.linalg.norm(K, 2))
        nP = float(np.linalg.norm(rcov, 2))
        nMi = 1.0 / float(sv[-1])
        u = A.T @ ((y - A @ pmean) / e**2)
        nu = float(np.linalg.norm(u))
        ce = G.CE * G.EPS
        # first-order bounds: LU solve of (I + K W) P = K, and dP = (I+KW)^-1 dK (I+WK)^-1 for the rounding of K
        tolP = ce * (condM * nP + nMi**2 * nK)
        tolm = ce * (condM * nP * nu + nMi**2 * nK * nu + nMi * nK * nu + float(np.linalg.norm(pmean)) + float(np.linalg.norm(rmean)))
        tolm += nP * float(np.linalg.norm(np.abs(A).T @ (P.dr / e**2)))  # rounding of the residual y - A m

        with lib("calculate_posterior"):
            mu, cov = inv.calculate_posterior(th.copy())
        with lib("calculate_posterior_mean"):
            mu1 = inv.calculate_posterior_mean(th.copy())
        with lib("marginal_likelihood"):
            v1 = float(inv.marginal_likelihood(th.copy()))
        with lib("marginal_likelihood_gradient"):
            v2, g2 = inv.marginal_likelihood_gradient(th.copy())
        nev += 4
        mu, cov, mu1 = np.asarray(mu, dtype=float), np.asarray(cov, dtype=float), np.asarray(mu1, dtype=float)
        v2, g2 = float(v2), np.asarray(g2, dtype=float)

        if mu.shape != (n,) or cov.shape != (n, n) or mu1.shape != (n,):
            fails.append(fail("posterior/%s/shape" % acls, "shapes %s %s %s for %d parameters" % (mu.shape, cov.shape, mu1.shape, n), **ctx))
            continue
        if upd("post_mean", np.abs(mu - rmean).max(), tolm) > 1 or not np.all(np.isfinite(mu)):
            fails.append(fail("posterior/%s/mean" % acls, "posterior mean %s, closed form %s (tol %.3g)" % (mu.tolist(), rmean.tolist(), tolm), observed=mu.tolist(), expected=rmean.tolist(), tol=tolm, **ctx))
        if upd("post_mean_only", np.abs(mu1 - rmean).max(), tolm) > 1 or not np.all(np.isfinite(mu1)):
            fails.append(fail("posterior/%s/mean-only-path" % acls, "calculate_posterior_mean %s, closed form %s (tol %.3g)" % (mu1.tolist(), rmean.tolist(), tolm), observed=mu1.tolist(), expected=rmean.tolist(), tol=tolm, **ctx))
        if upd("post_mean_paths_agree", np.abs(mu1 - mu).max(), 2 * tolm) > 1:
            fails.append(fail("posterior/%s/mean-only-vs-full" % acls, "mean-only %s, full %s" % (mu1.tolist(), mu.tolist()), observed=mu1.tolist(), expected=mu.tolist(), **ctx))
        if upd("post_cov", np.abs(cov - rcov).max(), tolP) > 1 or not np.all(np.isfinite(cov)):
            fails.append(fail("posterior/%s/covariance" % acls, "max |cov - closed form| = %.3g (tol %.3g)" % (np.abs(cov - rcov).max(), tolP), observed=cov.tolist(), expected=rcov.tolist(), tol=tolP, **ctx))
        if np.all(np.isfinite(cov)):
            if upd("post_cov_symmetry", np.abs(cov - cov.T).max(), 2 * tolP) > 1:
                fails.append(fail("posterior/%s/cov-asymmetric" % acls, "max |cov - cov^T| = %.3g (tol %.3g)" % (np.abs(cov - cov.T).max(), 2 * tolP), observed=cov.tolist(), **ctx))
            cs = 0.5 * (cov + cov.T)
            lmin = float(np.linalg.eigvalsh(cs)[0])
            if upd("post_cov_psd", max(-lmin, 0.0), tolP * n) > 1:
                fails.append(fail("posterior/%s/cov-not-psd" % acls, "smallest eigenvalue %.3g (tol %.3g)" % (lmin, tolP * n), observed=cov.tolist(), **ctx))
            lmin = float(np.linalg.eigvalsh(K - cs)[0])
            if upd("post_cov_le_prior", max(-lmin, 0.0), n * (tolP + ce * nK)) > 1:
                fails.append(fail("posterior/%s/cov-exceeds-prior" % acls, "smallest eigenvalue of prior - posterior = %.3g (tol %.3g)" % (lmin, n * (tolP + ce * nK)), observed=cov.tolist(), prior=K.tolist(), **ctx))
            if float(np.linalg.eigvalsh(K - rcov)[-1]) > 1e-6 * nK:
                tags.add("data-informative," + acls)

        ev_ref = float(sc["lml"])
        tol = P.tol_lml(ev_ref)
        err, cv = c11.either_constant(v1, ev_ref, const, tol)
        conventions.add(cv)
        if upd("evidence_value", err, tol) > 1 or not np.isfinite(v1):
            fails.append(fail("evidence/%s/value" % acls, "marginal_likelihood %r, log N(y; A m, A K A^T + S) + m/2 log 2pi = %r (tol %.3g)" % (v1, ev_ref, tol), observed=v1, expected=ev_ref, tol=tol, **ctx))
        if upd("evidence_gradvariant_value", abs(v2 - v1), 2 * tol) > 1 or not np.isfinite(v2):
            fails.append(fail("evidence/%s/grad-variant-value" % acls, "marginal_likelihood_gradient value %r != marginal_likelihood %r" % (v2, v1), observed=v2, expected=v1, **ctx))

        if case.get("grad", True):
            gr = ref.gradients(theta, loo=False)
            units = [None] * pm + G.kernel_param_units(kspec, list(theta[pm:]), d)
            if g2.shape != (len(theta),):
                fails.append(fail("evidence/%s/gradient-shape" % acls, "gradient shape %s for %d hyper-parameters" % (g2.shape, len(theta)), **ctx))
            else:
                for j in range(len(theta)):
                    gt = float(gr["lml"][j])
                    if gr["err"][j] > 1e-12 * (abs(gt) + 1e-300) and gr["err"][j] > 1e-14:
                        raise HarnessError("Richardson extrapolation not converged: %r" % gr["err"][j])
                    dj = A @ np.diag(gr["djit"][j]) @ A.T
                    t1 = P.tol_grad_lml(gr["dC"][j], gr["dmu"][j], dj) + 1e-6 * gr["err"][j]
                    if units[j] is not None:
                        t1 += P.grad_floor("lml", units[j])
                    if upd("evidence_gradient", abs(g2[j] - gt), t1) > 1 or not np.isfinite(g2[j]):
                        fails.append(fail("evidence/%s/gradient" % pcls[j], "d evidence / d theta[%d] = %r, true %r (tol %.3g)" % (j, g2[j], gt, t1), observed=float(g2[j]), expected=gt, index=j, tol=t1, **ctx))
        if not np.array_equal(th, np.array(theta, dtype=float)):
            fails.append(fail("inverter/theta-modified", "hyper-parameter vector changed by the call", **ctx))
        sample = {"config": cfg, "theta": list(theta), "evidence": v1, "evidence_ref": ev_ref, "cond_IKW": condM, "post_mean": mu.tolist(), "ref_mean": rmean.tolist()}
    if not np.array_equal(inv.A, A) or not np.array_equal(inv.y, y):
        fails.append(fail("inverter/inputs-modified", "model matrix or data changed", config=cfg))
    if len(conventions) > 1:
        fails.append(fail("evidence/constant-convention-not-fixed", "the additive constant differs between hyper-parameter vectors", config=cfg))
    seen, out = set(), []
    for f in fails:
        if f["key"] not in seen:
            seen.add(f["key"])
            out.append(f)
    return {"fails": out, "n": nev, "tags": tags, "slack": slack, "skipped": skipped, "sample": sample}


# ------------------------------------------------------------------ evaluator: call histories on one object
def theta_set(kspec, mspec, prob, which, rot=0):
    """three different hyper-parameter vectors.
    "diag":  every block differs between any two of them (lattice points (i,i,i,i), i = 0,1,2);
    "split": B differs from A in the mean block only, C differs from A in the covariance blocks only
             (a result remembered under a key that is only part of the vector shows up here)"""
    r = rot % 3
    if which == "diag":
        idx = [((i + r) % 3,) * 4 for i in range(3)]
    elif which == "split":
        a = (r, (r + 1) % 3, (r + 1) % 3, r)
        idx = [a, ((r + 1) % 3,) + a[1:], (a[0], (a[1] + 1) % 3, (a[2] + 2) % 3, (a[3] + 1) % 3)]
    else:
        raise HarnessError(which)
    return [theta_at(kspec, mspec, prob, *i) for i in idx]


def result_parts(method, res):
    """-> list of (component name, float array)"""
    if method == "calculate_posterior":
        return [("mean", np.asarray(res[0], dtype=float)), ("covariance", np.asarray(res[1], dtype=float))]
    if method == "calculate_posterior_mean":
        return [("mean", np.asarray(res, dtype=float))]
    if method == "marginal_likelihood":
        return [("value", np.asarray(float(res), dtype=float))]
    return [("value", np.asarray(float(res[0]), dtype=float)), ("gradient", np.asarray(res[1], dtype=float))]


def same_bits(a, b):
    return a.shape == b.shape and a.tobytes() == b.tobytes()


def rel_difference(a, b):
    """max |a - b| / max |b| (elementwise for the gradient is not asked: one scale per array)"""
    if a.shape != b.shape:
        return float("inf")
    if not (np.all(np.isfinite(a)) and np.all(np.isfinite(b))):
        return 0.0 if np.array_equal(np.isnan(a), np.isnan(b)) and np.array_equal(np.nan_to_num(a), np.nan_to_num(b)) else float("inf")
    sc = float(np.abs(b).max()) if b.size else 0.0
    df = float(np.abs(a - b).max()) if b.size else 0.0
    return 0.0 if df == 0 else (df / sc if sc > 0 else float("inf"))


def ev_history(case):
    from checks import c11
    from inference.gp import GpLinearInverter
    from mc.ref import gpref_b as G

    prob = case["problem"]
    kspec, mspec, mode = case["kernel"], case["mean"], case["mode"]
    if mode not in MODES:
        raise HarnessError(mode)
    m, n = prob["shape"]
    d = prob["d"]
    A = np.array(prob["A"], dtype=float)
    X = np.array(prob["X"], dtype=float)
    y = np.array(prob["y"], dtype=float)
    e = np.array(prob["y_err"], dtype=float)
    thetas = [np.array(t, dtype=float) for t in case["thetas"]]
    nth = len(thetas)
    p = len(thetas[0])
    kn = c11.kname(kspec)
    pcls = c11.param_classes(kspec, mspec, d)
    pm = G.mean_n_params(mspec, d)
    cfg = "A=%dx%d-%s,yerr=%s,d=%d,pos=%s,k=%s,m=%s" % (m, n, prob["akind"], prob["ekind"], d, prob["pkind"], kn, mspec)
    fails, tags, slack = [], set(), {}
    seen = set()
    nev = 0

    def new_inverter():
        with lib("construct"):
            inv = GpLinearInverter(y=y.copy(), y_err=e.copy(), model_matrix=A.copy(), parameter_spatial_positions=X.copy(), prior_covariance_function=c11.lib_kernel(kspec), prior_mean_function=lib_mean(mspec))
        if inv.n_hyperpars != p:
            raise HarnessError("hyper-parameter layout: model has %d, reference %d" % (inv.n_hyperpars, p))
        return inv

    # what the statement is about: the result for the VALUE theta, from an object without a past, given its own array
    fresh = {}
    for mi, method in enumerate(METHODS):
        for ti in range(nth):
            inv = new_inverter()
            with lib(method):
                res = getattr(inv, method)(thetas[ti].copy())
            nev += 1
            fresh[(mi, ti)] = [(nm, a.copy()) for nm, a in result_parts(method, res)]
    # how many of the (method, pair of vectors) combinations a stale answer would be visible in
    visible = 0
    for mi in range(len(METHODS)):
        for t1, t2 in itertools.combinations(range(nth), 2):
            if any(not same_bits(a[1], b[1]) for a, b in zip(fresh[(mi, t1)], fresh[(mi, t2)])):
                visible += 1
    if visible < len(METHODS):
        raise HarnessError("the hyper-parameter vectors of this block do not give distinguishable results")

    def add(key, what, **ctx):
        if key not in seen:
            seen.add(key)
            fails.append(fail(key, what, **ctx))

    ops = [(mi, ti) for mi in range(len(METHODS)) for ti in range(nth)]
    nseq = 0
    for length in range(1, int(case["max_len"]) + 1):
        for seq in itertools.product(ops, repeat=length):
            nseq += 1
            inv = new_inverter()
            buf = np.full(p, np.nan)
            kept = []  # (position, method index, array object handed out, copy taken when it was handed out)
            for pos, (mi, ti) in enumerate(seq):
                method = METHODS[mi]
                if mode == "fresh-array":
                    arg = thetas[ti].copy()
                else:
                    buf[:] = thetas[ti]  # the caller's one array, overwritten in place
                    arg = buf
                with lib(method):
                    res = getattr(inv, method)(arg)
                nev += 1
                hist = [[METHODS[a], b] for a, b in seq[: pos + 1]]
                ctx = {"config": cfg, "mode": mode, "calls": hist, "thetas": [t.tolist() for t in thetas]}
                if not same_bits(arg, thetas[ti]):
                    add("history/%s/%s/theta-modified" % (mode, method), "the hyper-parameter array was changed by the call", **ctx)
                    buf = np.full(p, np.nan)
                parts = result_parts(method, res)
                for (nm, got), (_, want) in zip(parts, fresh[(mi, ti)]):
                    if same_bits(got, want):
                        continue
                    r = rel_difference(got, want)
                    slack["history_rel_difference"] = max(slack.get("history_rel_difference", 0.0), (r / HIST_RTOL) if np.isfinite(r) else 0.0)
                    if r > HIST_RTOL:
                        comp = nm
                        if nm == "gradient" and got.shape == want.shape:
                            j = int(np.argmax(np.abs(got - want)))
                            comp = "gradient:" + pcls[j]
                        add(
                            "history/%s/%s/%s/differs-from-fresh-object" % (mode, method, comp),
                            "call %d of the history, %s(vector %d), returns a %s that differs from what a fresh inverter given a fresh copy of the same hyper-parameters returns: relative difference %.3g (allowed %g)"
                            % (pos + 1, method, ti, nm, r, HIST_RTOL),
                            observed=np.asarray(got).tolist(),
                            expected=want.tolist(),
                            **ctx,
                        )
                raw = [res] if not isinstance(res, tuple) else list(res)
                for obj in raw:
                    if isinstance(obj, np.ndarray) and obj.ndim > 0:
                        if mode.endswith("+scribble"):
                            obj[...] = np.nan  # the caller re-uses the arrays it was given
                        else:
                            kept.append((pos, mi, obj, obj.copy()))
            for pos, mi, obj, cp in kept:
                if not same_bits(obj, cp):
                    add(
                        "history/%s/%s/earlier-result-changed-by-later-call" % (mode, METHODS[mi]),
                        "the array returned by call %d was modified by a later call" % (pos + 1),
                        config=cfg, mode=mode, calls=[[METHODS[a], b] for a, b in seq], thetas=[t.tolist() for t in thetas],
                    )
            if fails and len(seen) >= 6:
                break
        if fails:
            break  # the shortest failing histories have been reported
    if not np.array_equal(inv.A, A) or not np.array_equal(inv.y, y):
        add("history/%s/inputs-modified" % mode, "model matrix or data changed", config=cfg)
    tags.add("history,%s,%s,set=%s" % (cfg, mode, case["set"]))
    tags.add("history,%s,%s,distinguishable=%d/%d" % (cfg, mode, visible, len(METHODS) * nth * (nth - 1) // 2))
    return {"fails": fails, "n": nev, "tags": tags, "slack": slack, "sample": {"config": cfg, "mode": mode, "set": case["set"], "histories": nseq, "calls": nev, "distinguishable": visible}}


# ------------------------------------------------------------------ evaluator: several inverter objects, interleaved
# how an object is built: "default" = no kernel / mean argument at all; "classes" = the documented defaults passed explicitly as
# classes; "instances" = the caller's own instances (kernel / mean of the spec); "cp-classes" = a ChangePoint built from kernel
# classes + a mean class.  The caller never hands the same instance to two objects.
STYLES = ["default", "classes", "instances", "cp-classes"]
STYLE_SPEC = {"default": ("SE", "C"), "classes": ("SE", "C"), "cp-classes": (["CP", 0, "SE", "SE"], "L")}
BUILD_ORDERS = ["all-first", "at-first-use"]


def style_spec(obj):
    """(kernel spec, mean spec) of the model an object of this style is"""
    return STYLE_SPEC.get(obj["style"]) or (obj["kernel"], obj["mean"])


def build_styled(obj):
    from checks import c11
    from inference.gp import ChangePoint, GpLinearInverter, SquaredExponential
    from inference.gp.mean import ConstantMean, LinearMean

    prob = obj["problem"]
    kw = dict(y=np.array(prob["y"], dtype=float), y_err=np.array(prob["y_err"], dtype=float), model_matrix=np.array(prob["A"], dtype=float),
              parameter_spatial_positions=np.array(prob["X"], dtype=float))
    st = obj["style"]
    if st == "classes":
        kw.update(prior_covariance_function=SquaredExponential, prior_mean_function=ConstantMean)
    elif st == "instances":
        kw.update(prior_covariance_function=c11.lib_kernel(obj["kernel"]), prior_mean_function=lib_mean(obj["mean"]))
    elif st == "cp-classes":
        kw.update(prior_covariance_function=ChangePoint(kernels=[SquaredExponential, SquaredExponential], axis=0), prior_mean_function=LinearMean)
    elif st != "default":
        raise HarnessError(st)
    with lib("construct-" + st):
        return GpLinearInverter(**kw)


def ev_interleave(case):
    """Two or three inverter objects built from different problems; every sequence of <= max_len calls (object, method), the
    hyper-parameter vector alternating with the position in the sequence; objects built all first or each at its first use.
    Every result must be what that object gives ALONE (nothing else built or called since it was built)."""
    objs = case["objects"]
    nob = len(objs)
    fails, tags, slack = [], set(), {}
    seen = set()
    nev = 0
    desc = " | ".join("%s:%dx%d,d=%d" % (o["style"], o["problem"]["shape"][0], o["problem"]["shape"][1], o["problem"]["d"]) for o in objs)

    def add(key, what, **ctx):
        if key not in seen:
            seen.add(key)
            fails.append(fail(key, what, **ctx))

    thetas = [[np.array(t, dtype=float) for t in o["thetas"]] for o in objs]
    # the object alone
    alone = {}
    for oi, o in enumerate(objs):
        for mi, method in enumerate(METHODS):
            for ti in range(len(thetas[oi])):
                inv = build_styled(o)
                if inv.n_hyperpars != len(thetas[oi][ti]):
                    raise HarnessError("hyper-parameter layout: model has %d, reference %d" % (inv.n_hyperpars, len(thetas[oi][ti])))
                with lib(method):
                    res = getattr(inv, method)(thetas[oi][ti].copy())
                nev += 1
                alone[(oi, mi, ti)] = [(nm, a.copy()) for nm, a in result_parts(method, res)]
        # "no argument" and "the documented default classes / instances of them" are the same model
        if o["style"] in ("default", "classes"):
            twin = dict(o, style="instances", kernel="SE", mean="C")
            for mi, method in enumerate(METHODS):
                inv = build_styled(twin)
                with lib(method):
                    res = getattr(inv, method)(thetas[oi][0].copy())
                nev += 1
                for (nm, got), (_, want) in zip(alone[(oi, mi, 0)], result_parts(method, res)):
                    r = 0.0 if same_bits(got, want) else rel_difference(got, want)
                    if r > HIST_RTOL:
                        add("interleave/%s/%s/differs-from-explicit-SquaredExponential-ConstantMean" % (o["style"], method),
                            "an inverter built with style '%s' gives a %s that differs from one given SquaredExponential() and ConstantMean() instances: relative difference %.3g" % (o["style"], nm, r),
                            objects=desc, observed=got.tolist(), expected=np.asarray(want).tolist())
    # the objects must be distinguishable (a mix-up of two objects would otherwise be invisible)
    for a, b in itertools.combinations(range(nob), 2):
        if all(x[1].shape == y[1].shape and np.allclose(x[1], y[1], rtol=1e-6, atol=0) for mi in range(len(METHODS)) for x, y in zip(alone[(a, mi, 0)], alone[(b, mi, 0)])):
            raise HarnessError("objects %d and %d of this block give the same results" % (a, b))

    ops = [(oi, mi) for oi in range(nob) for mi in range(len(METHODS))]
    nseq = 0
    for order in case["build_orders"]:
        for length in range(1, int(case["max_len"]) + 1):
            for seq in itertools.product(ops, repeat=length):
                if order == "at-first-use" and len({oi for oi, _ in seq}) < 2:
                    continue  # one object only: the same as "all-first" without the bystanders; covered by the history evaluator
                nseq += 1
                built = [build_styled(o) for o in objs] if order == "all-first" else [None] * nob
                for pos, (oi, mi) in enumerate(seq):
                    if built[oi] is None:
                        built[oi] = build_styled(objs[oi])
                    ti = pos % len(thetas[oi])
                    method = METHODS[mi]
                    with lib(method):
                        res = getattr(built[oi], method)(thetas[oi][ti].copy())
                    nev += 1
                    for (nm, got), (_, want) in zip(result_parts(method, res), alone[(oi, mi, ti)]):
                        if same_bits(got, want):
                            continue
                        r = rel_difference(got, want)
                        slack["interleave_rel_difference"] = max(slack.get("interleave_rel_difference", 0.0), (r / HIST_RTOL) if np.isfinite(r) else 0.0)
                        if r > HIST_RTOL:
                            add("interleave/%s/%s/%s/differs-from-the-object-alone" % (objs[oi]["style"], method, nm),
                                "objects [%s] built %s; call %d of %s: %s on object %d returns a %s that differs from what the same object gives when nothing else is built or called: relative difference %.3g (allowed %g)"
                                % (desc, order, pos + 1, [[o_, METHODS[m_]] for o_, m_ in seq], method, oi, nm, r, HIST_RTOL),
                                objects=desc, order=order, calls=[[o_, METHODS[m_]] for o_, m_ in seq], observed=np.asarray(got).tolist(), expected=want.tolist())
                if fails and len(seen) >= 6:
                    break
            if fails:
                break
        if fails:
            break
    tags.add("interleave,objects=[%s]" % desc)
    for order in case["build_orders"]:
        tags.add("interleave,n=%d,styles=%s,%s,len<=%d" % (nob, "+".join(o["style"] for o in objs), order, case["max_len"]))
    return {"fails": fails, "n": nev, "tags": tags, "slack": slack, "sample": {"objects": desc, "histories": nseq, "calls": nev}}


EVALUATORS = {"inverter": ev_inverter, "history": ev_history, "interleave": ev_interleave}


def chunks(lst, k):
    return [lst[i : i + k] for i in range(0, len(lst), k)]


def run(ck):
    seed, quick = ck.seed, ck.quick
    cases = []
    npoints = 0
    pk1 = ["regular", "irregular", "duplicate"]
    for si, shape in enumerate(SHAPES):
        for ai, akind in enumerate(AKINDS):
            for ei, ekind in enumerate(("uniform", "mixed")):
                for d in (1, 2):
                    for ki, kspec in enumerate(KERNELS):
                        for mi, mspec in enumerate(MEANS):
                            rot = seed + si + ai + ei + d + ki + mi
                            pks = [pk1[rot % 3]] if quick else [pk1[rot % 3], pk1[(rot + 1) % 3]]
                            for pkind in pks:
                                prob = make_problem(shape, akind, ekind, d, pkind, seed)
                                thetas = hp_lattice(kspec, mspec, prob, (9, rot) if quick else None)
                                npoints += len(thetas)
                                for blk in chunks(thetas, 9 if quick else 27):
                                    cases.append({"problem": prob, "kernel": kspec, "mean": mspec, "thetas": blk})
    # ---------------------------------------------------------------- user-written means with 0, 1, 1, 2 hyper-parameters, non-uniform in x
    nuser = 0
    for ui, mspec in enumerate(USER_MEANS):
        for si, shape in enumerate(SHAPES):
            for d in (1, 2):
                rot = seed + ui + si + d
                combos = [(KERNELS[rot % 4], AKINDS[(rot // 2) % 3])] if quick else [(k, AKINDS[(rot + ki) % 3]) for ki, k in enumerate(KERNELS)]
                for kspec, akind in combos:
                    prob = make_problem(shape, akind, ("uniform", "mixed")[rot % 2], d, pk1[rot % 3], seed)
                    thetas = hp_lattice(kspec, mspec, prob, (9, rot) if quick else (3, rot))
                    npoints += len(thetas)
                    nuser += len(thetas)
                    for blk in chunks(thetas, 9):
                        cases.append({"problem": prob, "kernel": kspec, "mean": mspec, "thetas": blk})
    # ---------------------------------------------------------------- data in units far from 1 (y, y_err, model matrix x 1e-9 .. 1e9)
    nscaled = 0
    for ci, (scale, ekind, shape) in enumerate(itertools.product(DATA_SCALES, ("spread", "uniform", "mixed"), SHAPES)):
        rot = seed + ci
        combos = [(KERNELS[rot % 4], MEANS[(rot // 4) % 3])] if quick else [(k, mm) for k in KERNELS for mm in ("C", "L")] + [(KERNELS[rot % 4], "N")]
        for kspec, mspec in combos:
            prob = make_problem(shape, AKINDS[0] if ci % 2 == 0 else AKINDS[rot % 3], ekind, 1 + rot % 2, pk1[rot % 3], seed, scale=scale)
            thetas = hp_lattice(kspec, mspec, prob, (9, rot))
            npoints += len(thetas)
            nscaled += len(thetas)
            cases.append({"problem": prob, "kernel": kspec, "mean": mspec, "thetas": thetas})
    # ---------------------------------------------------------------- call histories on one object
    hist = []
    nhist = 0
    sets = ["diag", "split"]
    for ki, kspec in enumerate(KERNELS):
        for mi, mspec in enumerate(MEANS + USER_MEANS):
            rot = seed + ki + 2 * mi
            if mspec in USER_MEANS and quick and ki != (seed + mi) % len(KERNELS):
                continue  # quick: one (rotating) kernel for each of the further user-written means
            layouts = [rot % 4] if quick else ([rot % 4, (rot + 1) % 4] if mspec in USER_MEANS else range(4))
            for si in layouts:
                r2 = rot + si
                akind = AKINDS[r2 % 3]
                if SHAPES[si][0] == 1 and akind == "zerorow" and mspec == "U0":
                    # a one-row matrix whose row is zero says nothing about the field, and this mean has no hyper-parameter:
                    # the posterior mean would not depend on the hyper-parameters at all and a stale answer could not be seen
                    akind = AKINDS[(r2 + 1) % 3]
                prob = make_problem(SHAPES[si], akind, ("uniform", "mixed")[r2 % 2], 1 + (r2 // 2) % 2, pk1[r2 % 3], seed)
                for wi, which in enumerate(sets):
                    if quick and wi != (r2 % 2):
                        continue
                    ths = theta_set(kspec, mspec, prob, which, r2)
                    # the same three vectors go through the 50-digit oracle (one object, all four calls per vector)
                    cases.append({"problem": prob, "kernel": kspec, "mean": mspec, "thetas": ths})
                    npoints += len(ths)
                    for mode in MODES:
                        hist.append({"problem": prob, "kernel": kspec, "mean": mspec, "thetas": ths, "set": which, "mode": mode, "max_len": 3})
                        nhist += sum((len(METHODS) * len(ths)) ** k for k in (1, 2, 3))
    # ---------------------------------------------------------------- several objects, interleaved
    inter = []
    ninter = 0

    def styled(style, j, rot):
        """object number j of a block: its own problem (size, dimension, positions and data all differ between the objects of a block)"""
        shape = SHAPES[(rot + j) % 4] if j < 2 else SHAPES[(rot + 3) % 4]
        d = 1 + (rot + j) % 2
        prob = make_problem(shape, AKINDS[(rot + 2 * j) % 3], ("uniform", "mixed")[(rot + j) % 2], d, pk1[(rot + j) % 3], seed + 3 * j)
        o = {"style": style, "problem": prob}
        if style == "instances":
            o["kernel"], o["mean"] = KERNELS[(rot + j) % len(KERNELS)], MEANS[(rot + 2 * j) % len(MEANS)]
        k, m = style_spec(o)
        r = (rot + j) % 3
        o["thetas"] = [theta_at(k, m, prob, r, (r + 1) % 3, (r + 2) % 3, r), theta_at(k, m, prob, (r + 1) % 3, r, r, (r + 2) % 3)]
        return o

    pairs = list(itertools.product(STYLES, repeat=2))
    for pi, (s0, s1) in enumerate(pairs):
        rot = seed + pi
        # quick: 4 calls for the pairs that involve an object built without kernel / mean arguments, 3 calls otherwise
        ml = 4 if (not quick or "default" in (s0, s1)) else 3
        for order in BUILD_ORDERS:
            inter.append({"objects": [styled(s0, 0, rot), styled(s1, 1, rot)], "max_len": ml, "build_orders": [order]})
            ninter += sum(8**k for k in range(1, ml + 1))
    triples = [t for t in itertools.product(STYLES, repeat=3) if quick is False or (t.count("default") >= 2 or t in (("classes", "default", "instances"), ("cp-classes", "cp-classes", "default")))]
    for ti, t in enumerate(triples):
        rot = seed + ti
        for order in BUILD_ORDERS:
            inter.append({"objects": [styled(st, j, rot) for j, st in enumerate(t)], "max_len": 3, "build_orders": [order]})
            ninter += sum(12**k for k in range(1, 4))
    cases.sort(key=lambda c: -len(c["thetas"][0]) * len(c["thetas"]) * c["problem"]["shape"][1] ** 2)
    ck.run_cases("inverter", cases, chunk=1)
    inter.sort(key=lambda c: -((4 * len(c["objects"])) ** c["max_len"]))
    ck.run_cases("interleave", inter, chunk=1)
    hist.sort(key=lambda c: -len(c["thetas"][0]) * c["problem"]["shape"][1] ** 2)
    ck.run_cases("history", hist, chunk=1)
    ck.rule = (
        "cartesian lattice: model matrices {1x3,3x3,5x3,3x5} x {dense, rank-deficient, zero row} x y_err {uniform, mixed 1e-3..1} x positions "
        "(d in 1,2; regular / irregular / one duplicated position) x kernels (SE, RQ, SE+WN, CP(SE,SE)) x means (constant, linear) x "
        "{low,mid,high} per hyper-parameter block (quick: a Latin ninth of the hyper-parameter product); distinct = (configuration, decade of "
        "cond(I + K A^T S^-1 A)); data units: the same problems with y, y_err and the model matrix multiplied by 1e-9, 1e-6, 1e6, 1e9 x y_err {0.1 x (1,2,5,0.5,3) "
        "'spread', uniform, mixed 1e-3..1} x the four layouts (kernel, mean, matrix kind, dimension rotating in quick; all kernels x {C,L} in thorough), a Latin ninth of the "
        "hyper-parameter product each, against the 50-digit closed form on the same floats with the same conditioning-derived tolerances (keys .../data-unit=small|large,yerr=...); means include a user-defined MeanFunction subclass exp(a) sin(b x_0 + c), non-linear in its hyper-parameters. "
        "user means non-uniform in x with 0 / 1 / 1 / 2 hyper-parameters {0.3 cos(1.3 x_0), a (1 + x_0), a sin(2 x_0), a + b x_0^2} x the four matrix layouts x d in {1,2} x kernels "
        "(quick: one rotating kernel, matrix kind, error pattern and position kind; thorough: all four kernels) x a Latin ninth (thorough: third) of the hyper-parameter product, every oracle of the "
        "lattice (closed-form mean / covariance, mean-only = full path, evidence, evidence gradient; gradient keys evidence/mean-U1|S1|U2/gradient), so that each count 0,1,2,3 of mean "
        "hyper-parameters is met by a user class and 1,2,3 by a library class (C; L d=1; L d=2); the same user means in the call histories (quick: one rotating kernel each). "
        "history: kernels x means x model-matrix layouts (quick: one rotating layout, thorough all four) x hyper-parameter triples "
        "{all blocks differ, mean-only / covariance-only differences} (quick: one, rotating) x caller conventions {fresh array per call, ONE array "
        "overwritten in place between calls, the same and the returned arrays overwritten by the caller}: every sequence of 1, 2 and 3 calls over "
        "{calculate_posterior, calculate_posterior_mean, marginal_likelihood, marginal_likelihood_gradient} x 3 vectors (12 + 144 + 1728 "
        "histories per block, a new inverter for each); after every call the result is compared bit-for-bit (else to 1e-12 relative) with a "
        "fresh inverter given a fresh copy of the vector; the three vectors of a block also go through the 50-digit oracle; distinct = "
        "(configuration, caller convention, triple). interleave: two inverter objects, every ordered pair of construction styles {no kernel/mean argument, the "
        "documented default classes passed explicitly, the caller's own instances (kernel and mean rotating), ChangePoint built from classes + a mean class} "
        "(16 pairs; three objects: %d style triples), each object with its own problem (different size, dimension, positions, data, errors) and its own two "
        "hyper-parameter vectors, objects {all built first, each built at its first use}: every sequence of <= 4 calls (object, method) (quick: <= 3 when "
        "neither object is default-built; three objects: <= 3), the vector alternating with the position; every result compared bit-for-bit (else 1e-12) with "
        "the same call on that object alone; default / class-built objects also against explicit SquaredExponential() / ConstantMean() instances; "
        "distinct = (styles, sizes, build order)" % len(triples)
    )
    ck.assume("interleaving: 2 or 3 live inverter objects, <= 4 calls (<= 3 for three objects), 2 hyper-parameter vectors per object; the caller gives each object its own kernel / mean instances")
    ck.assume("call histories are limited to 3 calls over 4 methods x 3 hyper-parameter vectors on one object; agreement with a fresh object is required bit-for-bit or to 1e-12 of the largest entry of the result")
    ck.assume("the user-defined mean functions are the ones written in checks/c17.py (exp(a) sin(b x_0 + c); 0.3 cos(1.3 x_0); a (1 + x_0); a sin(2 x_0); a + b x_0^2; all stateless, functions of the first coordinate): "
              "0, 1, 1, 2 and 3 hyper-parameters; other user classes are represented by them; the library itself has no mean function without hyper-parameters")
    ck.assume("data units: y, y_err and the model matrix are scaled together (1e-9 .. 1e9); the parameters and the prior stay of order one")
    ck.assume("continuous inputs are represented by the listed finite lattices; at most 5 parameters / 5 data (50-digit reference); points with cond(A K A^T + S) or cond(I + K A^T S^-1 A) > 1e10 are skipped and counted")
    ck.assume("the diagonal stabiliser of smooth kernels is accepted as any relative inflation in [0,1e-10] of the kernel diagonal (measured from the model's prior covariance)")
    ck.assume("optimize_hyperparameters (Nelder-Mead) is not part of the statement and is not exercised")
    ck.extra["lattice_points"] = npoints
    ck.extra["lattice_points_scaled_units"] = nscaled
    ck.extra["lattice_points_user_profile_means"] = nuser
    ck.extra["history_blocks"] = len(hist)
    ck.extra["histories"] = nhist
    ck.extra["interleave_blocks"] = len(inter)
    ck.extra["interleave_histories"] = ninter
