"""C19 – density-estimator intervals, moments and normalisation are self-consistent (GaussianKDE, UnimodalPdf).

Engine D.  Enumerated: deterministic quantile samples {normal, gamma(3), t6; bimodal for the KDE only}
x n in {300, 3000, 20000} x scale in {1e-6, 1, 1e6} x location in {0, +1e4 sd, -3e3 sd, 1e6 sd}
x fractions {.1, .5, .68, .95}; the thorough tier adds families {logistic, gamma(9), exp-modified normal}, n = 1000,
scales 1e-3 / 1e3, locations -1e6 sd / 100 sd and fractions from .02 to .99.  No random draws.

Oracle: the estimator's OWN density, integrated by the harness on a 40 001-node grid laid out in coordinates centred on
the data (so that nothing is lost to cancellation far from zero) and reaching 12 sd beyond the data; covariance: every
normalised output of a shifted / rescaled problem must satisfy the oracles of the base problem (scale 1, location 0)
within the same tolerances.
"""
import math

import numpy as np

from mc.core import HarnessError, LibFailure, fail, lib
from mc.ref import kde_ref as R

LEVEL = "exploration"

# ---- stated conventions for the approximate statement (DESIGN.md C19) ----------------------------------------------
TOL_NORM = 1e-3  # | int pdf - 1 |
TOL_CDF_PAIR = 1e-3  # | (cdf(b)-cdf(a)) - int_a^b pdf |
TOL_CDF_ABS = 3e-3  # | cdf(x) - int_-inf^x pdf |   (UnimodalPdf starts its quadrature at lwr_limit)
TOL_INT_MASS = 2e-3  # | cdf(hi)-cdf(lo) - f |
TOL_INT_ENDS = 1e-2  # | pdf(lo)-pdf(hi) | / peak
TOL_MODE = 1e-3  # pdf(mode) >= (1-1e-3) max
TOL_MEAN_SD = 1e-3  # mean, in units of the sd of the estimated density
TOL_VAR_REL = 5e-3
TOL_SKEW = 0.02
TOL_KURT = 0.05
TAIL_FACTOR = 3.0  # allowance tol_k + 3 T_k, T_k = k-th absolute central moment carried outside the declared range

FRACTIONS = [0.1, 0.5, 0.68, 0.95]
FRACTIONS_THOROUGH = [0.02, 0.05, 0.1, 0.3, 0.5, 0.68, 0.9, 0.95, 0.99]
GRID_NODES = 40001
REACH_SD = 12.0
SCALES = [1.0, 1e-6, 1e6]
LOCS = [0.0, 1e4, -3e3, 1e6]  # in units of the sample sd
CDF_Q = [0.004, 0.05, 0.25, 0.5, 0.75, 0.95, 0.996]


def estimator(name):
    from inference.pdf import GaussianKDE, UnimodalPdf

    return {"GaussianKDE": GaussianKDE, "UnimodalPdf": UnimodalPdf}[name]


def base_sample(family, n, stride):
    s = R.quantile_sample(family, n)
    return s[R.stride_permutation(n, stride)]


class Analysis:
    """one fitted estimator + harness quadrature of its own density; everything also in normalised (base) units"""

    pass


def analyse(cls_name, data, a, b, fractions, nodes=GRID_NODES):
    """data = a*base + b.  Returns (Analysis, n_evaluations).  Library exceptions escape as LibFailure."""
    cls = estimator(cls_name)
    A = Analysis()
    A.a, A.b = a, b
    with lib(f"construct-{cls_name}"):
        est = cls(data.copy())
    A.est = est
    nev = 1
    srt = np.sort(data)
    sd_s = float(np.std(data))
    c = float(srt[srt.size // 2])  # centre of the harness coordinates
    lo = (srt[0] - c) - REACH_SD * sd_s
    hi = (srt[-1] - c) + REACH_SD * sd_s
    u = lo + (hi - lo) * (np.arange(nodes) / (nodes - 1.0))  # centred coordinates
    du = (hi - lo) / (nodes - 1.0)
    x = c + u
    with lib(f"pdf-{cls_name}"):
        p = np.asarray(est(x.copy()), dtype=float)
    nev += 1
    if p.shape != x.shape or not np.isfinite(p).all():
        raise LibFailure(f"pdf-{cls_name}", ValueError(f"density not finite / wrong shape on the grid: shape {p.shape}, finite {np.isfinite(p).all()}"))
    A.c, A.u, A.du, A.x, A.p = c, u, du, x, p
    A.pmax = float(p.max())
    A.mass = float(R.simpson(p, du))
    A.cum = R.cumulative_simpson(p, du)
    m1 = R.simpson(p * u, du) / A.mass
    v = u - m1
    A.mean_c = float(m1)  # centred
    A.var = float(R.simpson(p * v**2, du) / A.mass)
    A.sd = math.sqrt(A.var)
    A.skew = float(R.simpson(p * v**3, du) / A.mass / A.sd**3)
    A.kurt = float(R.simpson(p * v**4, du) / A.mass / A.var**2 - 3.0)
    # contribution of the density outside the estimator's declared range to the absolute central moments
    lwr = getattr(est, "lwr_limit", None)
    upr = getattr(est, "upr_limit", None)
    lwr = float(x[0]) if lwr is None else float(lwr)
    upr = float(x[-1]) if upr is None else float(upr)
    A.limits = (lwr, upr)
    out = (x < lwr) | (x > upr)
    po = np.where(out, p, 0.0)
    A.T = [float(R.simpson(po * np.abs(v) ** k, du)) for k in range(5)]  # T[0] = mass outside
    # the estimator's reports
    with lib(f"moments-{cls_name}"):
        mom = est.moments()
    nev += 1
    A.moments = [float(t) for t in mom]
    with lib(f"mode-{cls_name}"):
        mode = float(est.mode)
        pm = float(est(mode))
    nev += 1
    A.mode, A.p_mode = mode, pm
    # cdf at grid nodes nearest to sample quantiles and beyond the data
    idx = [int(round((srt[int(q * (srt.size - 1))] - c - lo) / du)) for q in CDF_Q]
    idx += [int(round(((srt[0] - c) - 3 * sd_s - lo) / du)), int(round(((srt[-1] - c) + 3 * sd_s - lo) / du))]
    idx = np.array(sorted(set(int(min(max(i, 0), nodes - 1)) for i in idx)))
    # the points are handed over in a scrambled order (a permutation that is not its own inverse) and put back in order here
    scr = np.roll(np.arange(idx.size), 2)
    if idx.size >= 4:
        scr[[0, 3]] = scr[[3, 0]]
    with lib(f"cdf-{cls_name}"):
        Fs = np.asarray(est.cdf(x[idx][scr].copy()), dtype=float)
        F0 = float(est.cdf(float(x[idx[len(idx) // 2]])))
    if Fs.shape != (idx.size,):
        raise LibFailure(f"cdf-{cls_name}", ValueError(f"cdf of {idx.size} points has shape {Fs.shape}"))
    F = np.empty_like(Fs)
    F[scr] = Fs
    nev += 2
    A.cdf_idx, A.cdf = idx, F
    A.cdf_scalar = F0
    # intervals
    A.intervals = {}
    for f in fractions:
        with lib(f"interval-{cls_name}"):
            iv = est.interval(f)
            lo_i, hi_i = float(iv[0]), float(iv[1])
            Fi = np.asarray(est.cdf(np.array([lo_i, hi_i])), dtype=float)
            Pi = np.asarray(est(np.array([lo_i, hi_i])), dtype=float)
        nev += 3
        A.intervals[f] = (lo_i, hi_i, float(Fi[1] - Fi[0]), float(Pi[0]), float(Pi[1]))
    # call-order independence on ONE object: nearby fractions asked in one order, then every fraction asked again - an
    # interval must not depend on which intervals were asked for before
    A.order = []
    close = [(0.683, 0.68268), (0.95449, 0.954), (0.5, 0.5004)]
    with lib(f"interval-order-{cls_name}"):
        first = {}
        for fa, fb in close:
            first[fa] = tuple(float(v) for v in est.interval(fa))
            first[fb] = tuple(float(v) for v in est.interval(fb))
        for fa, fb in close:
            again_b = tuple(float(v) for v in est.interval(fb))
            again_a = tuple(float(v) for v in est.interval(fa))
            A.order.append((fa, first[fa], again_a))
            A.order.append((fb, first[fb], again_b))
        for f in fractions:
            A.order.append((f, A.intervals[f][:2], tuple(float(v) for v in est.interval(f))))
    nev += 12 + len(fractions)
    # two different fractions must not share one interval
    A.distinct = [(fa, fb, first[fa], first[fb]) for fa, fb in close]
    return A, nev


def own_density_oracles(A, cls_name, where, detail, fails, sl):
    """the clauses of the statement for one fitted estimator, against its own density"""
    a = A.a
    sd = A.sd
    # the interval for a fraction does not depend on which intervals were asked for before (same object, repeated call)
    for f, was, now in getattr(A, "order", []):
        scale = max(abs(was[1] - was[0]), 1e-300)
        if max(abs(was[0] - now[0]), abs(was[1] - now[1])) > 1e-9 * scale:
            fails.append(fail(f"interval/{cls_name}/depends-on-earlier-interval-calls", f"{where}: interval({f}) gave {was} first and {now} when asked again after other fractions", **detail))
            break
    for fa, fb, ia, ib in getattr(A, "distinct", []):
        if ia == ib and fa != fb:
            fails.append(fail(f"interval/{cls_name}/different-fractions-share-one-interval", f"{where}: interval({fa}) and interval({fb}) are identical: {ia}", **detail))
            break
    # normalisation
    e = abs(A.mass - 1.0)
    sl(f"normalisation/{cls_name}", e / TOL_NORM)
    if e > TOL_NORM:
        fails.append(fail(f"normalisation/{cls_name}/integral-of-pdf", f"{where}: integral of the density = {A.mass!r}", **detail))
    # cdf
    d = A.cdf - A.cum[A.cdf_idx]
    e_abs = float(np.abs(d).max())
    e_pair = float(d.max() - d.min())
    sl(f"cdf-vs-integral-abs/{cls_name}", e_abs / TOL_CDF_ABS)
    sl(f"cdf-vs-integral-pairs/{cls_name}", e_pair / TOL_CDF_PAIR)
    if e_abs > TOL_CDF_ABS:
        i = int(np.argmax(np.abs(d)))
        fails.append(fail(f"cdf/{cls_name}/not-integral-from-minus-infinity", f"{where}: x={A.x[A.cdf_idx[i]]!r}: cdf={A.cdf[i]!r} integral={A.cum[A.cdf_idx[i]]!r}", **detail))
    if e_pair > TOL_CDF_PAIR:
        i, j = int(np.argmin(d)), int(np.argmax(d))
        fails.append(fail(f"cdf/{cls_name}/difference-not-integral", f"{where}: between x={A.x[A.cdf_idx[i]]!r} and {A.x[A.cdf_idx[j]]!r}: cdf difference off by {e_pair:.3g}", **detail))
    if np.any(np.diff(A.cdf) < -1e-9):
        fails.append(fail(f"cdf/{cls_name}/decreasing", f"{where}: cdf at ascending points {A.cdf.tolist()}", **detail))
    k = len(A.cdf_idx) // 2  # the same clause for a single scalar argument
    e = abs(A.cdf_scalar - A.cum[A.cdf_idx[k]])
    sl(f"cdf-scalar-vs-integral/{cls_name}", e / TOL_CDF_ABS)
    if e > TOL_CDF_ABS:
        fails.append(fail(f"cdf/{cls_name}/scalar-argument-not-integral", f"{where}: cdf({A.x[A.cdf_idx[k]]!r})={A.cdf_scalar!r} but integral={A.cum[A.cdf_idx[k]]!r}", **detail))
    # mode
    r = A.p_mode / A.pmax
    sl(f"mode-density-deficit/{cls_name}", max(0.0, 1.0 - r) / TOL_MODE)
    if not r >= 1.0 - TOL_MODE:
        fails.append(fail(f"mode/{cls_name}/not-a-maximum-of-the-density", f"{where}: pdf(mode)={A.p_mode!r} but the density reaches {A.pmax!r} at x={A.x[int(np.argmax(A.p))]!r} (mode={A.mode!r}, ratio {r:.6f})", **detail))
    # intervals
    for f, (lo_i, hi_i, mass, pa, pb) in A.intervals.items():
        if not (lo_i < hi_i):
            fails.append(fail(f"interval/{cls_name}/ends-not-ordered", f"{where}: f={f}: ({lo_i!r},{hi_i!r})", fraction=f, **detail))
            continue
        e = abs(mass - f)
        sl(f"interval-mass/{cls_name}", e / TOL_INT_MASS)
        if e > TOL_INT_MASS:
            fails.append(fail(f"interval/{cls_name}/mass-under-own-cdf", f"{where}: f={f}: interval ({lo_i!r},{hi_i!r}) holds {mass!r}", fraction=f, **detail))
        e = abs(pa - pb) / A.pmax
        sl(f"interval-end-densities/{cls_name}", e / TOL_INT_ENDS)
        if e > TOL_INT_ENDS:
            fails.append(fail(f"interval/{cls_name}/end-densities-differ", f"{where}: f={f}: pdf(lo)={pa!r} pdf(hi)={pb!r} peak={A.pmax!r} (|diff|/peak={e:.4f})", fraction=f, **detail))
    # moments (compared in centred coordinates)
    mu, var, skw, kur = A.moments
    T = A.T
    checks = [
        ("mean", abs((mu - A.c) - A.mean_c) / sd, TOL_MEAN_SD + TAIL_FACTOR * T[1] / sd, (mu - A.c), A.mean_c),
        ("variance", abs(var - A.var) / A.var, TOL_VAR_REL + TAIL_FACTOR * T[2] / A.var, var, A.var),
        ("skewness", abs(skw - A.skew), TOL_SKEW + TAIL_FACTOR * T[3] / sd**3, skw, A.skew),
        ("kurtosis", abs(kur - A.kurt), TOL_KURT + TAIL_FACTOR * T[4] / sd**4, kur, A.kurt),
    ]
    for name, err, tol, got, want in checks:
        if not (err == err):
            err = float("inf")
        sl(f"moments-{name}/{cls_name}", err / tol)
        if err > tol:
            fails.append(
                fail(
                    f"moments/{cls_name}/{name}",
                    f"{where}: reported {name} {got!r} (mean relative to the data centre {A.c!r}) but the estimated density has {want!r}; error {err:.3g} > allowed {tol:.3g} (units: sd / relative / absolute)",
                    **detail,
                )
            )


def covariance_oracles(A, B, cls_name, where, detail, fails, sl):
    """normalised outputs of the transformed problem A against the base problem B (scale 1, location 0)"""
    a, b = A.a, A.b
    sd = B.sd
    est0 = B.est

    def back(xv):
        return (xv - b) / a

    # moments
    mu, var, skw, kur = A.moments
    mu0, var0, skw0, kur0 = B.moments
    T, T0 = A.T, B.T
    # (A.T are in transformed units: normalise by the own sd of A)
    sdA = A.sd
    checks = [
        ("mean", abs(back(mu) - mu0) / sd, TOL_MEAN_SD + TAIL_FACTOR * (T[1] / sdA + T0[1] / sd)),
        ("variance", abs(var / a**2 - var0) / B.var, TOL_VAR_REL + TAIL_FACTOR * (T[2] / A.var + T0[2] / B.var)),
        ("skewness", abs(skw - skw0), TOL_SKEW + TAIL_FACTOR * (T[3] / sdA**3 + T0[3] / sd**3)),
        ("kurtosis", abs(kur - kur0), TOL_KURT + TAIL_FACTOR * (T[4] / sdA**4 + T0[4] / sd**4)),
    ]
    for name, err, tol in checks:
        if not (err == err):
            err = float("inf")
        sl(f"cov-{name}/{cls_name}", err / tol)
        if err > tol:
            fails.append(fail(f"covariance/{cls_name}/{name}", f"{where}: normalised {name} differs from the base problem by {err:.3g} > {tol:.3g} (transformed {A.moments}, base {B.moments})", **detail))
    # mode: mapped back it must be a maximum of the base estimate
    with lib(f"pdf-{cls_name}"):
        pm = float(est0(float(back(A.mode))))
    r = pm / B.pmax
    sl(f"cov-mode-density-deficit/{cls_name}", max(0.0, 1.0 - r) / TOL_MODE)
    if not r >= 1.0 - TOL_MODE:
        fails.append(fail(f"covariance/{cls_name}/mode", f"{where}: mode {A.mode!r} maps back to {back(A.mode)!r}, where the base estimate is {pm!r} < max {B.pmax!r} (base mode {B.mode!r})", **detail))
    # intervals: mapped back they must hold f under the base cdf with equal end densities
    nev = 1
    for f, (lo_i, hi_i, _m, _pa, _pb) in A.intervals.items():
        ends = np.array([back(lo_i), back(hi_i)])
        if not ends[0] < ends[1]:
            continue
        with lib(f"cdf-{cls_name}"):
            Fi = np.asarray(est0.cdf(ends.copy()), dtype=float)
        with lib(f"pdf-{cls_name}"):
            Pi = np.asarray(est0(ends.copy()), dtype=float)
        nev += 2
        e = abs(Fi[1] - Fi[0] - f)
        sl(f"cov-interval-mass/{cls_name}", e / TOL_INT_MASS)
        if e > TOL_INT_MASS:
            fails.append(fail(f"covariance/{cls_name}/interval-mass", f"{where}: f={f}: interval maps back to {ends.tolist()} which holds {Fi[1]-Fi[0]!r} under the base estimate (base interval {B.intervals[f][:2]})", fraction=f, **detail))
        e = abs(Pi[0] - Pi[1]) / B.pmax
        sl(f"cov-interval-end-densities/{cls_name}", e / TOL_INT_ENDS)
        if e > TOL_INT_ENDS:
            fails.append(fail(f"covariance/{cls_name}/interval-end-densities", f"{where}: f={f}: interval maps back to {ends.tolist()} with base densities {Pi.tolist()} (peak {B.pmax!r}; base interval {B.intervals[f][:2]})", fraction=f, **detail))
    return nev


def ev_block(case):
    """one estimator x family x n x scale: the base problem and every location at that scale"""
    cls_name, fam, n, scale = case["cls"], case["family"], case["n"], case["scale"]
    base = base_sample(fam, n, case.get("stride"))
    sd0 = float(np.std(base))
    fractions = case["fractions"]
    fails, tags, slack = [], set(), {}
    nev = 0

    def sl(name, v):
        if v == v and v > slack.get(name, -1.0):
            slack[name] = float(v)

    nodes = case.get("nodes", GRID_NODES)
    B, k = analyse(cls_name, base, 1.0, 0.0, fractions, nodes)  # a failure of the base problem is reported by the (scale 1, loc 0) block
    nev += k
    for loc in case["locs"]:
        a = scale
        b = loc * sd0 * a
        where = f"{cls_name} {fam} n={n} scale={scale:g} location={loc:g}sd"
        detail = dict(cls=cls_name, family=fam, n=n, scale=scale, loc=loc)
        if a == 1.0 and b == 0.0:
            A = B
        else:
            try:
                A, k = analyse(cls_name, a * base + b, a, b, fractions, nodes)
            except LibFailure as e:
                fails.append(fail(f"raises/{cls_name}/{e.label}:{e.exc_type}", f"{where}: {e}", traceback=e.tb, **detail))
                continue
            nev += k
        own_density_oracles(A, cls_name, where, detail, fails, sl)
        if A is not B:
            nev += covariance_oracles(A, B, cls_name, where, detail, fails, sl)
        tags.add(f"{cls_name}|{fam}|n={n}|scale={scale:g}|loc={loc:g}")
    smp = {"cls": cls_name, "family": fam, "n": n, "base_moments": B.moments, "base_own_density_moments": [B.c + B.mean_c, B.var, B.skew, B.kurt], "base_intervals": {str(f): v[:3] for f, v in B.intervals.items()}, "tail_T": B.T}
    return {"fails": fails[:40], "n": nev, "tags": tags, "slack": slack, "sample": smp}


# ---- the density and the cumulative function are FUNCTIONS of x: an array argument = the same points one at a time -------
ARRAY_SIZES = [1, 2, 3, 31, 32, 33, 34, 100, 1000]
ARRAY_SIZES_THOROUGH = [1, 2, 3, 4, 5, 8, 15, 16, 17, 31, 32, 33, 34, 63, 64, 65, 100, 127, 128, 129, 255, 256, 257, 500, 511, 512, 513, 1000, 1023, 1024, 1025, 2049]
ARRAY_LAYOUTS = ["span", "quantiles", "cluster"]
ARRAY_ORDERS = ["sorted", "reversed", "scrambled"]
TOL_PDF_POINT = TOL_MODE  # | pdf(array)[i] - pdf(x_i) | / peak  (the convention already used for density values: 1e-3 of the peak)
TOL_CDF_POINT = TOL_CDF_PAIR  # | cdf(array)[i] - cdf(x_i) |, plus (UnimodalPdf) the mass of the density below its lower integration limit:
# its cumulative function is counted from lwr_limit (the reason for TOL_CDF_ABS above) unless the array holds a point below that limit,
# in which case it is counted from that point - the two calls may then differ by up to the mass below the limit, which the convention tolerates
CDF_STARTS_AT_LOWER_LIMIT = ("UnimodalPdf",)


def array_points(layout, size, srt, sd):
    """`size` distinct ascending abscissae; layouts: equally spaced over the data range +- 3 sd / the sample's own quantiles (dense
    centre, sparse tails) with the two outermost moved 3 sd beyond the data / all but four within 0.05 sd of the median."""
    c = float(srt[srt.size // 2])
    lo, hi = float(srt[0]) - 3.0 * sd, float(srt[-1]) + 3.0 * sd
    if size == 1:
        return np.array([{"span": c + 0.3 * sd, "quantiles": float(srt[srt.size // 4]), "cluster": hi - 0.5 * sd}[layout]])
    if layout == "span":
        x = lo + (hi - lo) * (np.arange(size) / (size - 1.0))
    elif layout == "quantiles":
        q = (np.arange(size) + 0.5) / size
        pos = q * (srt.size - 1)
        i0 = np.floor(pos).astype(int)
        i1 = np.minimum(i0 + 1, srt.size - 1)
        x = srt[i0] + (pos - i0) * (srt[i1] - srt[i0])
        if size >= 3:
            x[0], x[-1] = lo, hi
    elif layout == "cluster":
        far = [lo, float(srt[0]), float(srt[-1]), hi][: min(4, size - 1)] if size > 2 else [lo]
        m = size - len(far)
        near = c + 0.05 * sd * ((np.arange(m) + 0.5) / m * 2.0 - 1.0)
        x = np.sort(np.concatenate([far, near]))
    else:
        raise HarnessError(layout)
    x = np.unique(x)
    if x.size != size:  # ties in the data: fall back to an equally spaced axis between the same ends
        x = x[0] + (x[-1] - x[0]) * (np.arange(size) / (size - 1.0))
    return x


def ev_arrays(case):
    """one fitted estimator: cdf(array) and pdf(array) against the same points passed one at a time as python floats"""
    cls_name, fam, n, a, loc = case["cls"], case["family"], case["n"], case["scale"], case["loc"]
    base = base_sample(fam, n, case.get("stride"))
    data = a * base + loc * float(np.std(base)) * a
    fails, tags, slack = [], set(), {}
    nev = 0

    def sl(name, v):
        if v == v and v > slack.get(name, -1.0):
            slack[name] = float(v)

    with lib(f"construct-{cls_name}"):
        est = estimator(cls_name)(data.copy())
    nev += 1
    srt = np.sort(data)
    sd = float(np.std(data))
    where0 = f"{cls_name} {fam} n={n} scale={a:g} location={loc:g}sd"
    detail = dict(cls=cls_name, family=fam, n=n, scale=a, loc=loc)
    t_low = 0.0
    if cls_name in CDF_STARTS_AT_LOWER_LIMIT:
        # mass of the estimated density below the declared lower limit (harness quadrature, coordinates centred on the limit)
        lwr = float(est.lwr_limit)
        u = -REACH_SD * sd * (1.0 - np.arange(4001) / 4000.0)
        with lib(f"pdf-{cls_name}"):
            pl = np.asarray(est(lwr + u), dtype=float)
        nev += 1
        t_low = max(0.0, float(R.simpson(pl, u[1] - u[0])))
        sl(f"mass-below-lower-limit-over-cdf-point-tol/{cls_name}", t_low / TOL_CDF_POINT)
    for layout in case["layouts"]:
        for size in case["sizes"]:
            x = array_points(layout, size, srt, sd)
            with lib(f"pdf-scalar-{cls_name}"):
                ps = np.array([float(est(float(v))) for v in x])
            with lib(f"cdf-scalar-{cls_name}"):
                Fs = np.array([float(est.cdf(float(v))) for v in x])
            nev += 2 * size
            peak = max(float(ps.max()), float(est(float(est.mode))))
            perm = R.stride_permutation(size, max(1, int(size * 0.381966)) | 1)
            if size > 2 and (np.array_equal(perm, np.arange(size)) or np.array_equal(perm, np.arange(size)[::-1])):
                perm = np.roll(np.arange(size), 1)
            for order in case["orders"]:
                idx = {"sorted": np.arange(size), "reversed": np.arange(size)[::-1], "scrambled": perm}[order]
                xa = x[idx].copy()
                where = f"{where0}: {size} points, layout {layout}, {order}"
                with lib(f"pdf-array-{cls_name}"):
                    pa = np.asarray(est(xa.copy()), dtype=float)
                with lib(f"cdf-array-{cls_name}"):
                    Fa = np.asarray(est.cdf(xa.copy()), dtype=float)
                nev += 2
                for name, got, want, tol, scale_ in (("pdf", pa, ps[idx], TOL_PDF_POINT, peak), ("cdf", Fa, Fs[idx], TOL_CDF_POINT + t_low, 1.0)):
                    # a one-point array may come back as a scalar or as a one-element array (the statement leaves that open)
                    if got.shape != (size,) and not (size == 1 and got.shape == ()):
                        fails.append(fail(f"arrays/{cls_name}/{name}-shape", f"{where}: result of shape {got.shape}", size=size, layout=layout, order=order, **detail))
                        continue
                    got = got.reshape(size)
                    if not np.isfinite(got).all():
                        fails.append(fail(f"arrays/{cls_name}/{name}-not-finite", f"{where}: {got[~np.isfinite(got)][:3].tolist()}", size=size, layout=layout, order=order, **detail))
                        continue
                    d = np.abs(got - want) / scale_
                    e = float(d.max())
                    sl(f"array-vs-pointwise-{name}/{cls_name}", e / tol)
                    if e > tol:
                        i = int(np.argmax(d))
                        fails.append(fail(f"arrays/{cls_name}/{name}-differs-from-pointwise", f"{where}: at x={xa[i]!r} the array call gives {got[i]!r}, the scalar call {want[i]!r} "
                                          f"(difference {e:.3g} > {tol:g}{' of the peak' if name == 'pdf' else ''})", size=size, layout=layout, order=order, **detail))
                tags.add(f"arrays|{cls_name}|{layout}|size={size}|{order}")
    return {"fails": fails[:40], "n": nev, "tags": tags, "slack": slack}


EVALUATORS = {"block": ev_block, "arrays": ev_arrays}


def run(ck):
    seed, quick = ck.seed, ck.quick
    stride = [None, 7, 11, 13][seed % 4]
    fams = {"GaussianKDE": ["normal", "gamma3", "t6", "bimodal-c19", "gamma3-left"], "UnimodalPdf": ["normal", "gamma3", "t6", "gamma3-left"]}
    scales, locs, fractions, sizes = SCALES, LOCS, FRACTIONS, (300, 3000)
    if not quick:
        for v in fams.values():
            v += ["logistic", "gamma9", "expgauss"]
        scales, locs, fractions, sizes = SCALES + [1e-3, 1e3], LOCS + [-1e6, 100.0], FRACTIONS_THOROUGH, (300, 1000, 3000)
    cases = []
    for cls_name in ("GaussianKDE", "UnimodalPdf"):
        for fam in fams[cls_name]:
            for n in sizes:
                for scale in scales:
                    cases.append({"cls": cls_name, "family": fam, "n": n, "scale": scale, "locs": locs, "fractions": fractions, "stride": stride})
    # tens of thousands of points: every scale in the thorough tier, one (rotating with the seed) in the quick tier
    for ci, cls_name in enumerate(("GaussianKDE", "UnimodalPdf")):
        for fi, fam in enumerate(fams[cls_name]):
            for si, scale in enumerate(scales):
                if quick and si != (seed + ci + fi) % len(scales):
                    continue
                cases.append({"cls": cls_name, "family": fam, "n": 20000, "scale": scale, "locs": locs, "fractions": fractions, "stride": stride})
    # the smallest samples first (the first counter-example reported for a key is then the smallest one);
    # the remaining blocks heaviest first so that the pool stays busy
    ck.run_cases("block", [c for c in cases if c["n"] == 300], chunk=1)
    ck.run_cases("block", sorted([c for c in cases if c["n"] != 300], key=lambda c: -c["n"]), chunk=1)
    # array arguments against the same points one at a time
    acases = []
    tf = [(1e-6, 1e4), (1e6, -3e3), (1.0, 1e6)]
    for ci, cls_name in enumerate(("GaussianKDE", "UnimodalPdf")):
        for fi, fam in enumerate(fams[cls_name]):
            for n in (300,) if quick else (300, 3000):
                # the base problem with the full list of sizes; transformed problems (n = 300) with the short list
                pairs = [(1.0, 0.0)] + ([] if n != 300 else ([tf[(seed + ci + fi) % len(tf)]] if quick else tf))
                for a, loc in pairs:
                    for layout in ARRAY_LAYOUTS:
                        acases.append({"cls": cls_name, "family": fam, "n": n, "scale": a, "loc": loc, "stride": stride, "layouts": [layout],
                                       "sizes": ARRAY_SIZES if (quick or (a, loc) != (1.0, 0.0)) else ARRAY_SIZES_THOROUGH, "orders": ARRAY_ORDERS})
    ck.run_cases("arrays", acases, chunk=1)
    ck.rule = (
        "quantile samples %s (bimodal for the KDE only) x n in %s + 20000%s x scale %s x location %s sd x fractions %s; each problem: own-density "
        "oracles on a 40001-node centred grid, and covariance against the base problem (scale 1, location 0). "
        "Distinct = (estimator, family, n, scale, location). Array arguments: for every estimator and family (n=300%s; base problem and %s) cdf and pdf of arrays of "
        "%s points in 3 layouts (equally spaced over the data +- 3 sd; the sample's own quantiles with far outer points; all but four points within 0.05 sd of the median) "
        "x 3 orders (ascending, descending, a fixed non-monotone permutation) against the same points passed singly as floats; distinct = (estimator, layout, size, order)."
        % (fams["GaussianKDE"], list(sizes), " (one scale per estimator and family, rotating with the seed)" if quick else "", scales, locs, fractions,
           "" if quick else " and 3000", "one transformed problem rotating with the seed" if quick else "3 transformed problems at n=300 with the sizes %s" % ARRAY_SIZES, ARRAY_SIZES if quick else ARRAY_SIZES_THOROUGH)
    )
    ck.assume("'any reasonable sample' = the listed deterministic quantile samples (deterministically permuted), n <= 20000")
    ck.assume("conventions for the approximate clauses as in DESIGN.md C19 (normalisation 1e-3, cdf pairs 1e-3 / absolute 3e-3, interval mass 2e-3, end densities 1% of the peak, mode 1e-3, moments 1e-3 sd / 0.5% / 0.02 / 0.05 plus 3x the moment carried outside the declared range)")
    ck.assume("array arguments: 'equal to point-wise evaluation' is taken with the conventions above (cdf 1e-3 absolute, pdf 1e-3 of the peak), not to rounding; "
              "a one-point array may return a scalar or a one-element array")
    ck.extra["tolerances"] = dict(norm=TOL_NORM, cdf_pair=TOL_CDF_PAIR, cdf_abs=TOL_CDF_ABS, interval_mass=TOL_INT_MASS, interval_ends=TOL_INT_ENDS, mode=TOL_MODE, mean_sd=TOL_MEAN_SD, var_rel=TOL_VAR_REL, skew=TOL_SKEW, kurt=TOL_KURT, tail_factor=TAIL_FACTOR)
