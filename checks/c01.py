"""C01 – MCMC samplers draw from the posterior the user supplied.

Engine A.  The random stream of the REAL samplers is replaced by a scripted generator (finite symmetric
normal alphabet, symbolic uniform).  Enumerating the choice tree of one ``take_step`` from every state of a
lattice target gives the exact transition matrix of the implementation:

 L1 attempt level : the threshold the code compares its uniform with is the Metropolis-Hastings probability
                    of the move it proposed; a decision without a uniform only when that probability is 1 (or 0);
                    the proposal kernel on the alphabet is symmetric (q(x,y) = q(y,x));
 L2 kernel level  : the per-attempt kernel a(x,y) satisfies detailed balance w.r.t. pi^(1/T);
 L3 step level    : the law of what take_step records (all rejections up to R enumerated, loop invariance
                    checked, geometric tail summed in closed form) has stationary distribution pi^(1/T).

Hamiltonian and ensemble samplers have no lattice-closed moves; they are decided point-wise on the
enumerated (configuration, draw) pairs: threshold = exp(H0 - H1) resp. z^(n-1) pi(Y)/pi(X), the reverse
move exists and is what the code proposes when started from the far end, z(u) follows g(z) ~ z^-1/2.
"""
import itertools
import math

import numpy as np

from mc.core import HarnessError, fail, lib
from mc.explore import Cut, explore
from mc.mcmcseam import EvalLog, Lattice, WarmGen, build_rw_chain, set_rng, target_table
from mc.rngseam import ScriptedGenerator

LEVEL = "model_checking"
TOL = 1e-12


# --------------------------------------------------------------------------- parsing executions
def attempts_of(obs):
    """Split an observation log into attempts: (point, value, cmp or None) per posterior evaluation."""
    out = []
    cur = None
    normals = []
    for it in obs:
        if it[0] == "eval":
            if cur is not None:
                out.append(cur)
            cur = [it[1], it[2], None, normals]
            normals = []
        elif it[0] == "normal":
            normals.append(it[2])
        elif it[0] == "cmp" and cur is not None and cur[2] is None:
            cur[2] = it  # ("cmp", id, op, thr, p, outcome)
    if cur is not None:
        out.append(cur)
    return out


def mh_prob(p_new, p_old):
    if p_old == -math.inf:
        return 1.0 if p_new > -math.inf else float("nan")
    if p_new == -math.inf:
        return 0.0
    d = p_new - p_old
    return 1.0 if d >= 0 else math.exp(d)


# --------------------------------------------------------------------------- random-walk samplers on lattices
def rw_body(cfg, lat, start_idx, maxeval, completed):
    """returns body(ctx) exploring one take_step of a real chain sitting at lattice state start_idx."""
    kind = cfg["sampler"]
    T = cfg["T"]
    sigma = cfg.get("sigma", 1.0)
    dirs = cfg.get("directions")
    d = lat.d
    nphase = 1 if kind == "MetropolisChain" else d
    warm = cfg.get("warm", 0)

    def body(ctx):
        post = EvalLog(lat.value, ctx)
        x = lat.coords(start_idx)
        if warm == 2:
            # the state is INSTALLED, the way a parallel-tempering exchange installs it: the chain is built at another
            # state, then replace_last(x) and the stored probability is overwritten (tempering_process does exactly this)
            others = [s for s in lat.states() if s != tuple(start_idx)]
            x0 = lat.coords(others[(sum(start_idx) + len(others) // 2) % len(others)])
            with lib("construct"):
                chain = build_rw_chain(kind, post, x0, sigma, T, cfg["limits"], lat, dirs)
            with lib("replace_last"):
                chain.replace_last(x.copy())
                chain.probs[-1] = lat.value(x) * chain.inv_temp
        elif warm:
            delta = cfg["warm_delta"]
            if kind == "PcaChain" and dirs is not None:
                shift = sum(np.array(v, dtype=float) for v in dirs) * delta * sigma
            else:
                shift = np.full(d, delta * sigma)
            x0 = x - shift
            if lat.index(x0) is None or not np.isfinite(lat.value(x0)):
                return "skip"
            with lib("construct"):
                chain = build_rw_chain(kind, post, x0, sigma, T, cfg["limits"], lat, dirs)
            set_rng(chain, WarmGen(delta))
            with lib("warmup-take_step"):
                chain.take_step()
            if not np.allclose(chain.get_last(), x, atol=1e-9):
                return "skip"
        else:
            with lib("construct"):
                chain = build_rw_chain(kind, post, x, sigma, T, cfg["limits"], lat, dirs)
        gen = ScriptedGenerator(ctx, normal=cfg["alphabet"], normal_w=cfg["weights"])
        set_rng(chain, gen)
        n0 = chain.chain_length
        post.arm(maxeval)
        with lib("take_step"):
            chain.take_step()
        rec = chain.get_last()
        completed.append(1)
        return {"recorded": tuple(float(v) for v in rec), "dlen": chain.chain_length - n0,
                "nsamp": len(chain.params[0].samples), "nprobs": len(chain.probs)}

    return body


def ev_rw(case):
    cfg = case
    shape = tuple(cfg["shape"])
    offset = 0.5 if cfg["limits"] == "nonneg" else 0.0
    lat = Lattice(shape, target_table(cfg["target"], shape), offset, spacing=cfg.get("spacing", 1.0))
    lat.int_start = bool(cfg.get("int_start"))
    T = cfg["T"]
    kind = cfg["sampler"]
    name = f"{kind}/{cfg['limits'] or 'free'}" + ("/oblique" if cfg.get("directions") and any(abs(c) not in (0, 1) or sum(map(abs, v)) != 1 for v in cfg["directions"] for c in v) else "")
    states = lat.states()
    sidx = {s: i for i, s in enumerate(states)}
    n = len(states)
    piT = np.array([math.exp(lat.logp[s] / T) for s in states])
    piT /= piT.sum()
    single_phase = kind == "MetropolisChain" or lat.d == 1
    R = cfg["R"]
    fails, tags = [], set()
    nexec = ntrans = 0
    A = np.zeros((n, n))  # first-attempt accept kernel
    Q = np.zeros((n, n))  # first-attempt proposal kernel among support states
    Au = np.zeros((n, n))  # the same, restricted to proposals that were not folded back by the bounds
    Qu = np.zeros((n, n))
    track_fold = kind == "PcaChain" and cfg["limits"] == "box"
    blo = np.array([lat.offset - 0.5 * lat.spacing] * lat.d)
    bhi = np.array([lat.offset + (m - 0.5) * lat.spacing for m in lat.shape])
    W = np.zeros((R + 1, n, n))  # step law by number of rejections (single phase only)
    cutmass = np.zeros(n)
    skipped = 0
    skipped_law = 0
    fkeys = set()

    def add_fail(key, what, **kw):
        if key not in fkeys:
            fkeys.add(key)
            fails.append(fail(key, what, config={k: v for k, v in cfg.items()}, **kw))

    for s in states:
        xi = sidx[s]
        p_start = lat.logp[s] / T
        # ---- first attempt of the first phase (cut at the 2nd evaluation), any dimension
        # ---- and, for single-phase samplers, the whole step with up to R rejections
        maxeval = (R + 1) if single_phase else cfg.get("maxeval2d", 3)
        completed = []
        body = rw_body(cfg, lat, s, maxeval, completed)
        rowtot = 0.0
        for ctx, res in explore(body, max_exec=cfg.get("max_exec", 400000)):
            nexec += 1
            if res == "skip":
                skipped += 1
                rowtot = None
                break
            att = attempts_of(ctx.obs)
            ntrans += len(att)
            if not att:
                add_fail(f"attempt/{name}/step-without-evaluation", f"take_step from {s} evaluated nothing", start=s, choices=ctx.choices)
                continue
            # ---- L1: walk the attempt chain
            cur_p = p_start
            cur_pt = tuple(lat.coords(s))
            nrej = 0
            ok_chain = True
            for ai, (pt, val, cmp, normals) in enumerate(att):
                last_unfinished = ctx.cut and ai == len(att) - 1 and cmp is None
                p_new = val / T
                m = mh_prob(p_new, cur_p)
                if cmp is not None:
                    thr = cmp[3]
                    used = min(max(thr, 0.0), 1.0) if thr == thr else float("nan")
                    if not (abs(used - m) <= TOL):
                        add_fail(f"attempt/{name}/threshold-not-MH-probability",
                                 f"from {cur_pt} to {pt}: uniform compared with {thr!r}, Metropolis-Hastings probability is {m!r} (T={T})",
                                 start=s, choices=ctx.choices, attempt=ai)
                        ok_chain = False
                    acc = cmp[5] if cmp[2] in ("<", "<=") else None
                    if acc is None:
                        raise HarnessError(f"unexpected comparison {cmp}")
                elif last_unfinished:
                    acc = None
                else:
                    if not (m >= 1.0 - TOL or m <= 0.0):
                        add_fail(f"attempt/{name}/decision-without-uniform",
                                 f"from {cur_pt} to {pt}: decided without comparing a uniform although MH probability is {m!r}",
                                 start=s, choices=ctx.choices, attempt=ai)
                        ok_chain = False
                    acc = m >= 1.0 - TOL
                if ai == 0:
                    j = sidx.get(lat.index(pt)) if lat.index(pt) is not None else None
                    if acc is not None:
                        if j is not None:
                            Q[xi, j] += ctx.weight
                            if acc:
                                A[xi, j] += ctx.weight
                            folded = False
                            if track_fold and normals:
                                v0 = np.array((cfg.get("directions") or np.eye(lat.d).tolist())[0], dtype=float)
                                raw = lat.coords(s) + v0 * cfg.get("sigma", 1.0) * normals[-1]
                                folded = bool(((raw < blo) | (raw > bhi)).any())
                                if folded:
                                    tags.add(f"{name}:folded-proposal")
                            if not folded:
                                Qu[xi, j] += ctx.weight
                                if acc:
                                    Au[xi, j] += ctx.weight
                        tags.add(f"{name}:{'accept' if acc else 'reject'}:{'auto' if cmp is None else 'uniform'}")
                    if lat.index(pt) is None:
                        tags.add(f"{name}:proposal-off-support")
                if acc:
                    cur_p, cur_pt = p_new, pt
                elif acc is False:
                    nrej += 1
            # ---- completed executions: what was recorded
            if res is not None:
                rec = res["recorded"]
                if ok_chain and not np.allclose(rec, cur_pt, atol=1e-9):
                    add_fail(f"step/{name}/recorded-point-is-not-the-accepted-proposal",
                             f"from {s}: recorded {rec} but the accept/reject decisions lead to {cur_pt}", start=s, choices=ctx.choices)
                if res["dlen"] != 1:
                    add_fail(f"step/{name}/chain-length-not-incremented-by-one", f"delta {res['dlen']}", start=s, choices=ctx.choices)
                if single_phase:
                    j = sidx.get(lat.index(rec)) if lat.index(rec) is not None else None
                    if j is None:
                        add_fail(f"step/{name}/recorded-point-outside-support", f"from {s}: recorded {rec}", start=s, choices=ctx.choices)
                    elif len(att) - 1 <= R:
                        W[len(att) - 1, xi, j] += ctx.weight
                if nrej:
                    tags.add(f"{name}:rejections={nrej}")
            elif single_phase:
                cutmass[xi] += ctx.weight
            rowtot += ctx.weight
        if rowtot is None:
            A[xi, :] = np.nan
            continue
        if abs(rowtot - 1.0) > 1e-9:
            raise HarnessError(f"weights of executions from {s} sum to {rowtot}")
    valid = [i for i in range(n) if not np.isnan(A[i]).any()]
    if len(valid) < 2:
        return {"fails": fails, "n": nexec, "states": n, "transitions": ntrans, "tags": tags, "skipped": {"warmup-unreachable-start": skipped}}
    # ---- L1c proposal symmetry and L2 detailed balance on the valid sub-block
    slack = {}
    for i in valid:
        for j in valid:
            if i < j:
                if abs(Q[i, j] - Q[j, i]) > TOL:
                    add_fail(f"kernel/{name}/proposal-not-symmetric" + ("/only-folded-proposals" if track_fold and abs(Qu[i, j] - Qu[j, i]) <= TOL else ""),
                             f"q({states[i]}->{states[j]})={Q[i, j]!r} but q({states[j]}->{states[i]})={Q[j, i]!r}", pair=[states[i], states[j]])
                r = abs(piT[i] * A[i, j] - piT[j] * A[j, i])
                slack["detailed-balance"] = max(slack.get("detailed-balance", 0.0), r / 1e-12)
                if r > 1e-12:
                    add_fail(f"kernel/{name}/detailed-balance" + ("/only-folded-proposals" if track_fold and abs(piT[i] * Au[i, j] - piT[j] * Au[j, i]) <= 1e-12 else ""),
                             f"pi(x)a(x,y) - pi(y)a(y,x) = {r!r} for x={states[i]}, y={states[j]} (T={T})", pair=[states[i], states[j]])
    if np.count_nonzero(A[np.ix_(valid, valid)] - np.diag(np.diag(A[np.ix_(valid, valid)]))) > 0:
        tags.add(f"{name}:kernel-with-moves:{cfg['target']}:T={T}:d={lat.d}:warm={cfg.get('warm', 0)}")
    # ---- L3 step law
    if single_phase and len(valid) == n:
        a0 = W[0]
        acc_rate = a0.sum(axis=1)
        rej = 1.0 - acc_rate
        for k in range(1, R + 1):
            err = np.abs(W[k] - (rej[:, None] ** k) * a0).max()
            if err > 1e-12:
                add_fail(f"step/{name}/retry-loop-not-invariant", f"weight of {k} rejections then y differs from r^k a(x,y) by {err!r}")
        tail = np.abs(cutmass - rej ** (R + 1)).max()
        if tail > 1e-12:
            add_fail(f"step/{name}/retry-loop-not-invariant", f"mass cut after {R + 1} attempts differs from r^{R + 1} by {tail!r}")
        norm = 1.0 - cutmass
        # the step law has a unique stationary distribution only if the recorded chain is irreducible on the support;
        # with this alphabet some targets are not (a state none of whose proposals lands in the support, parity classes
        # of diagonal moves): the law oracle does not apply there and the case is counted as skipped
        offdiag = Q - np.diag(np.diag(Q))
        isolated = [i for i in range(n) if offdiag[i].sum() <= 0.0]
        reach = (W.sum(axis=0) > 0) | np.eye(n, dtype=bool)
        for _ in range(n):
            reach = reach | ((reach.astype(float) @ reach.astype(float)) > 0)
        irreducible = bool(reach.all()) and not isolated
        if not irreducible and not ((norm <= 1e-9) & (offdiag.sum(axis=1) > 0)).any():
            skipped_law = 1
        elif (norm <= 1e-9).any():
            add_fail(f"step/{name}/no-accepting-move", "a state whose proposals reach the support has no accepted move within the horizon")
        else:
            P = W.sum(axis=0) / norm[:, None]
            st = stationary(P)
            if st is not None:
                e1 = np.abs(st - piT).max()
                slack["step-law"] = e1 / 1e-10
                if e1 > 1e-10:
                    pa = piT * acc_rate
                    pa /= pa.sum()
                    e2 = np.abs(st - pa).max()
                    if e2 <= 1e-10 and rej.max() > 1e-9:
                        add_fail(f"steplaw/{kind}/recorded-law-is-pi-times-acceptance-rate",
                                 f"stationary law of the recorded chain is pi*alpha/Z, not pi (max abs diff {e1:.3g}); "
                                 f"take_step retries until a proposal is accepted and records only that",
                                 stationary=st.tolist(), pi=piT.tolist())
                    else:
                        add_fail(f"steplaw/{name}/recorded-law-wrong",
                                 f"stationary law of the recorded chain differs from pi by {e1:.3g} (and from pi*alpha by {e2:.3g})",
                                 stationary=st.tolist(), pi=piT.tolist())
                tags.add(f"{name}:steplaw:{cfg['target']}:T={T}")
    return {"fails": fails, "n": nexec, "states": n, "transitions": ntrans, "tags": tags, "slack": slack,
            "skipped": dict(({"warmup-unreachable-start": skipped} if skipped else {}), **({"step-law: recorded chain reducible on this target/alphabet": skipped_law} if skipped_law else {})),
            "sample": {"config": cfg, "first_attempt_kernel_row0": A[valid[0]].round(6).tolist()}}


def stationary(P):
    n = P.shape[0]
    M = np.vstack([P.T - np.eye(n), np.ones((1, n))])
    b = np.zeros(n + 1)
    b[-1] = 1.0
    sol, res, rank, sv = np.linalg.lstsq(M, b, rcond=None)
    if rank < n:
        return None
    return sol


EVALUATORS = {"rw": ev_rw}


# --------------------------------------------------------------------------- enumeration
ALPH = {
    "a4": ([-2.0, -1.0, 1.0, 2.0], [0.15, 0.35, 0.35, 0.15]),
    "a5": ([-2.0, -1.0, 0.0, 1.0, 2.0], [0.1, 0.25, 0.3, 0.25, 0.1]),
    "a2": ([-1.0, 1.0], [0.5, 0.5]),
}


def rw_cases(ck):
    quick = ck.quick
    cases = []
    targets1 = ["unimodal", "bimodal", "ties", "holes", "cliff"]
    for sampler in ("MetropolisChain", "GibbsChain", "PcaChain"):
        lims = {"MetropolisChain": [None, "box", "nonneg"], "GibbsChain": [None, "box", "nonneg"], "PcaChain": [None, "box"]}[sampler]
        for limits in lims:
            for T in (1.0, 2.5):
                for ti, target in enumerate(targets1):
                    for warm in (0, 1, 2):
                        if quick and (ti + warm + ck.seed) % 2 and target not in ("unimodal",):
                            continue
                        if warm == 2 and target in ("holes",):
                            continue
                        N = 6 + (ck.seed + ti) % 3
                        aname = "a4" if limits is None else "a6"
                        if aname == "a6":
                            big = float(2 * N + 1)
                            alph = ([-big, -2.0, -1.0, 1.0, 2.0, big], [0.05, 0.15, 0.3, 0.3, 0.15, 0.05])
                        else:
                            alph = ALPH["a4"]
                        cases.append(dict(sampler=sampler, limits=limits, T=T, target=target, shape=[N], alphabet=alph[0], weights=alph[1],
                                          R=2 if quick else 3, warm=warm, warm_delta=1.0 if (ti % 2 == 0) else -1.0))
    # a lattice of spacing 1/2 whose whole-number states are handed over with an INTEGER dtype (a legal way to write a start)
    for sampler in ("MetropolisChain", "GibbsChain", "PcaChain"):
        for T in (1.0, 2.5):
            cases.append(dict(sampler=sampler, limits=None, T=T, target="unimodal", shape=[7], alphabet=ALPH["a4"][0], weights=ALPH["a4"][1], R=2, warm=0,
                              warm_delta=1.0, spacing=0.5, sigma=0.5, int_start=True))
        cases.append(dict(sampler=sampler, limits=None, T=1.0, target="bimodal", shape=[3, 3], alphabet=[-1.0, 0.0, 1.0] if sampler == "MetropolisChain" else [-1.0, 1.0],
                          weights=[0.3, 0.4, 0.3] if sampler == "MetropolisChain" else [0.5, 0.5], R=1, warm=0, warm_delta=1.0, spacing=0.5, sigma=0.5, int_start=True, maxeval2d=3))
    # 2-D
    for sampler in ("MetropolisChain", "GibbsChain", "PcaChain"):
        for limits in ([None, "box"] if sampler == "PcaChain" else [None, "box", "nonneg"]):
            for T in (1.0, 2.5):
                for target in (["unimodal", "bimodal"] if quick else ["unimodal", "bimodal", "ties", "holes"]):
                    for shape in ([[3, 3]] if quick else [[3, 3], [4, 3]]):
                        alph = ALPH["a2"] if limits is None else ([-7.0, -1.0, 1.0, 7.0], [0.1, 0.4, 0.4, 0.1])
                        if sampler == "MetropolisChain":
                            # all coordinates move at once: a zero letter is needed for the recorded chain to be irreducible
                            alph = ([-1.0, 0.0, 1.0], [0.3, 0.4, 0.3]) if limits is None else ([-7.0, -1.0, 0.0, 1.0, 7.0], [0.08, 0.27, 0.3, 0.27, 0.08])
                        dirsets = [None]
                        if sampler == "PcaChain":
                            dirsets = [None, [[1.0, 1.0], [1.0, -1.0]], [[1.0, -1.0], [1.0, 1.0]], [[0.0, 1.0], [1.0, 0.0]]]
                        for dirs in dirsets:
                            for warm in (0, 1):
                                if quick and warm and target != "unimodal":
                                    continue
                                c = dict(sampler=sampler, limits=limits, T=T, target=target, shape=shape, alphabet=alph[0], weights=alph[1],
                                         R=1, warm=warm, warm_delta=1.0, maxeval2d=3)
                                if dirs is not None:
                                    c["directions"] = dirs
                                cases.append(c)
    return cases


def run(ck):
    cases = rw_cases(ck)
    ck.run_cases("rw", cases, chunk=1)
    ck.run_cases("hmc", hmc_cases(ck), chunk=1)
    ck.run_cases("ens", ens_cases(ck), chunk=1)
    ck.run_cases("l1hist", l1hist_cases(ck), chunk=2)
    ck.run_cases("ens_iter", [dict(d=d, alpha=al, walkers=nw, order=list(o)) for d, nw in ((2, 3), (2, 4)) for al in ((2.0,) if ck.quick else (2.0, 3.0))
                              for o in (list(itertools.permutations(range(nw)))[:: (nw if ck.quick else 1)] if nw == 3 else [tuple(range(nw)), tuple(reversed(range(nw)))][: (1 if ck.quick else 2)])], chunk=1)
    # each chain run under parallel tempering: the exchange move itself (shared with C08's exchange evaluator)
    ck.run_cases("exchange", [dict(chains=k, N=N, seed=1 + ck.seed, presteps=pre, ladder=lad)
                              for k, N, pre, lad in (("GibbsChain", 2, 0, "sorted"), ("GibbsChain", 3, 1, "unsorted"), ("HamiltonianChain", 2, 1, "unsorted"),
                                                     ("PcaChain", 3, 0, "sorted"), ("GibbsChain", 4, 1, "unsorted"))], chunk=1)
    ck.rule = ("choice-tree exploration of one real take_step from every state of each lattice target (every (state, draw) pair on the listed "
               "alphabets, all accept/reject outcomes up to R rejections); distinct non-trivial = (sampler/limits, decision kind, rejections, "
               "kernels with off-diagonal moves per target/T/dimension)")
    ck.assume("targets are lattice tables; draws are restricted to the listed finite symmetric alphabets")


# --------------------------------------------------------------------------- Hamiltonian sampler (point-wise)
HMC_POTS = {
    "quad1": (1, lambda t: -0.5 * 1.3 * float(t[0] ** 2), lambda t: np.array([-1.3 * t[0]])),
    "quart1": (1, lambda t: -0.5 * float(t[0] ** 2) - 0.25 * float(t[0] ** 4), lambda t: np.array([-t[0] - t[0] ** 3])),
    "corr2": (2, lambda t: -0.5 * float(t @ _A2 @ t), lambda t: -(_A2 @ t)),
    "quart2": (2, lambda t: -0.5 * float(t @ _A2 @ t) - 0.1 * float((t ** 4).sum()), lambda t: -(_A2 @ t) - 0.4 * t ** 3),
}
_A2 = np.array([[2.0, 0.6], [0.6, 1.0]])
HMC_MASS = {
    "scalar1": lambda d: None,
    "scalar0.3": lambda d: 0.3,
    "vector": lambda d: np.array([0.5, 2.0][:d]),
    "matrix": lambda d: np.array([[1.0, 0.3], [0.3, 0.7]])[:d, :d],
}
HMC_STARTS = {1: [[0.3], [-1.1], [0.0]], 2: [[0.3, -0.2], [-0.9, 0.8], [0.0, 0.5]]}


def inv_mass_matrix(spec, d):
    m = HMC_MASS[spec](d)
    if m is None:
        return np.eye(d)
    if np.isscalar(m):
        return np.eye(d) * m
    return np.diag(m) if m.ndim == 1 else m


def ev_hmc(case):
    from inference.mcmc import HamiltonianChain

    cfg = case
    d, post0, grad0 = HMC_POTS[cfg["potential"]]
    T = cfg["T"]
    iM = inv_mass_matrix(cfg["mass"], d)
    bounds = None
    if cfg["bounds"] == "wide":
        bounds = (np.full(d, -50.0), np.full(d, 50.0))
    elif cfg["bounds"] == "tight":
        bounds = (np.full(d, -1.2), np.full(d, 0.9))
    name = f"{cfg['bounds']}+{cfg['mass'].rstrip('0123456789.')}"
    fails, tags, fkeys = [], set(), set()
    nexec = ntrans = 0
    slack = {}

    def add_fail(key, what, **kw):
        if key not in fkeys:
            fkeys.add(key)
            fails.append(fail(key, what, config=cfg, **kw))

    for start in HMC_STARTS[d]:
        def body(ctx, start=start):
            post = EvalLog(post0, ctx)
            with lib("construct"):
                chain = HamiltonianChain(posterior=post, grad=grad0, start=np.array(start), epsilon=cfg["eps"], temperature=T,
                                         bounds=bounds, inverse_mass=HMC_MASS[cfg["mass"]](d), display_progress=False)
            chain.steps = cfg["steps"]
            chain.rng = ScriptedGenerator(ctx, normal=[-1.0, 1.0] if d == 2 else [-1.5, -0.5, 0.5, 1.5])
            orig = chain.run_leapfrog
            calls = []

            def logged(t, r, n):
                if len(calls) >= 2:
                    raise Cut()
                if calls:
                    # a second trajectory within one take_step (the retry after a rejection): observed as well
                    t_in, r_in = t.copy(), r.copy()
                    t1, r1 = orig(t, r, n)
                    calls.append(2)
                    ctx.note("leap2", tuple(t_in), tuple(r_in), int(n), tuple(t1), tuple(r1))
                    return t1, r1
                t_in, r_in = t.copy(), r.copy()
                t1, r1 = orig(t, r, n)
                calls.append(1)
                ctx.note("leap", tuple(t_in), tuple(r_in), int(n), tuple(t1), tuple(r1))
                # reverse trajectory, run by the code's own map
                tb, rb = orig(np.array(t1, dtype=float).copy(), -np.array(r1, dtype=float), n)
                ctx.note("back", tuple(tb), tuple(rb))
                return t1, r1

            chain.run_leapfrog = logged
            post.arm()
            with lib("take_step"):
                chain.take_step()
            return {"recorded": tuple(chain.theta[-1]), "prob": float(chain.probs[-1]), "len": chain.chain_length, "ntheta": len(chain.theta)}

        for ctx, res in explore(body):
            nexec += 1
            leap = [o for o in ctx.obs if o[0] == "leap"]
            back = [o for o in ctx.obs if o[0] == "back"]
            evals = [o for o in ctx.obs if o[0] == "eval"]
            cmps = [o for o in ctx.obs if o[0] == "cmp"]
            xis = [o[2] for o in ctx.obs if o[0] == "normal"][:d]
            if not leap:
                raise HarnessError("no trajectory observed")
            _, t0, r0, n, t1, r1 = leap[0]
            t0, r0, t1, r1 = map(np.array, (t0, r0, t1, r1))
            ntrans += n
            scale = 1.0 + np.abs(t0).max() + np.abs(r0).max()
            # momentum law vs kinetic energy
            k0 = float(r0 @ iM @ r0)
            if abs(k0 - sum(x * x for x in xis)) > 1e-9 * (1 + k0):
                add_fail(f"hmc/{name}/momentum-law-inconsistent-with-kinetic-energy",
                         f"r0^T M^-1 r0 = {k0!r} but the standard-normal draws have squared norm {sum(x * x for x in xis)!r}", start=start, choices=ctx.choices)
            # the point handed to the posterior is the end of the trajectory
            if evals and not np.allclose(evals[0][1], t1, atol=1e-12):
                add_fail(f"hmc/{name}/evaluated-point-is-not-trajectory-end", f"{evals[0][1]} vs {tuple(t1)}", start=start, choices=ctx.choices)
            if bounds is not None and ((t1 < bounds[0] - 1e-12) | (t1 > bounds[1] + 1e-12)).any():
                add_fail(f"hmc/{name}/trajectory-end-outside-bounds", f"{tuple(t1)}", start=start, choices=ctx.choices)
            H0 = 0.5 * k0 - post0(t0) / T
            H1 = 0.5 * float(r1 @ iM @ r1) - post0(t1) / T
            m = min(1.0, math.exp(min(H0 - H1, 50.0)))
            tol = 1e-9
            first_cmp = None
            # the first comparison after the first evaluation and before a second trajectory
            seen_eval = False
            for o in ctx.obs:
                if o[0] == "eval":
                    seen_eval = True
                elif o[0] == "leap2":
                    break
                elif o[0] == "cmp" and seen_eval:
                    first_cmp = o
                    break
            if first_cmp is not None:
                used = min(max(first_cmp[3], 0.0), 1.0)
                slack["hmc-threshold"] = max(slack.get("hmc-threshold", 0), abs(used - m) / tol)
                if abs(used - m) > tol:
                    add_fail(f"hmc/{name}/threshold-not-exp-H0-minus-H1", f"uniform compared with {first_cmp[3]!r}; exp(H0-H1) = {m!r} (T={T})", start=start, choices=ctx.choices)
                acc = first_cmp[5]
                tags.add(f"hmc:{name}:{'accept' if acc else 'reject'}:uniform")
            else:
                if m < 1.0 - tol:
                    add_fail(f"hmc/{name}/decision-without-uniform", f"exp(H0-H1) = {m!r} but no uniform compared", start=start, choices=ctx.choices)
                acc = True
                tags.add(f"hmc:{name}:accept:auto")
            # reversibility of the code's own trajectory map
            tb, rb = np.array(back[0][1]), np.array(back[0][2])
            rev = max(np.abs(tb - t0).max(), np.abs(rb + r0).max()) / scale
            folded = bounds is not None and cfg["bounds"] == "tight"
            slack[f"hmc-reversibility-{name}"] = max(slack.get(f"hmc-reversibility-{name}", 0), rev / 1e-9)
            if rev > 1e-9:
                add_fail(f"hmc/{name}/trajectory-not-reversible", f"forward then momentum-flipped forward misses the start by {rev:.3g} (relative)", start=start, choices=ctx.choices)
            l2 = [o for o in ctx.obs if o[0] == "leap2"]
            if res is not None and not l2:
                if acc and not np.allclose(res["recorded"], t1, atol=1e-12):
                    add_fail(f"hmc/{name}/accepted-proposal-not-recorded", f"{res['recorded']} vs {tuple(t1)}", start=start, choices=ctx.choices)
                if res["len"] != 2 or res["ntheta"] != 2:
                    add_fail(f"hmc/{name}/one-step-not-one-sample", f"{res}", start=start, choices=ctx.choices)
            if l2:
                # the second attempt is decided with ITS OWN energies
                _, t0b, r0b, nb, t1b, r1b = l2[0]
                t0b, r0b, t1b, r1b = map(np.array, (t0b, r0b, t1b, r1b))
                H0b = 0.5 * float(r0b @ iM @ r0b) - post0(t0b) / T
                H1b = 0.5 * float(r1b @ iM @ r1b) - post0(t1b) / T
                mb = min(1.0, math.exp(min(H0b - H1b, 50.0)))
                seen_l2 = False
                cmp2 = None
                for o in ctx.obs:
                    if o[0] == "leap2":
                        seen_l2 = True
                    elif o[0] == "cmp" and seen_l2:
                        cmp2 = o
                        break
                if cmp2 is not None and abs(min(max(cmp2[3], 0.0), 1.0) - mb) > tol:
                    add_fail(f"hmc/{name}/second-attempt-threshold-not-exp-H0-minus-H1",
                             f"retry after a rejection: uniform compared with {cmp2[3]!r}; exp(H0-H1) of that attempt = {mb!r} (T={T})", start=start, choices=ctx.choices)
                tags.add(f"hmc:{name}:second-attempt-observed")
                if l2 and not acc:
                    if np.allclose(l2[0][1], t0, atol=1e-12):
                        add_fail("steplaw/HamiltonianChain/rejected-proposal-retried-not-recorded",
                                 "after a rejected proposal take_step draws a new momentum and tries again from the same point instead of recording the current point", start=start, choices=ctx.choices)
                    else:
                        add_fail(f"hmc/{name}/retry-from-different-point", f"{l2[0][1]} vs {tuple(t0)}", start=start, choices=ctx.choices)
                elif l2 and acc:
                    add_fail(f"hmc/{name}/second-trajectory-after-accept", "a second trajectory was started although the first proposal was accepted", start=start, choices=ctx.choices)
    return {"fails": fails, "n": nexec, "states": len(HMC_STARTS[d]), "transitions": ntrans, "tags": tags, "slack": slack,
            "sample": {"config": cfg}}


def hmc_cases(ck):
    cases = []
    for pot in HMC_POTS:
        d = HMC_POTS[pot][0]
        for mass in HMC_MASS:
            if d == 1 and mass in ("matrix",):
                continue
            for bounds in ("none", "wide", "tight"):
                for T in (1.0, 2.5):
                    for eps, steps in ((0.3, 3), (0.05, 10)) if not ck.quick else ((0.3, 3),):
                        cases.append(dict(potential=pot, mass=mass, bounds=bounds, T=T, eps=eps, steps=steps))
    return cases


EVALUATORS["hmc"] = ev_hmc


# --------------------------------------------------------------------------- ensemble sampler (point-wise)
ENS_POS = {
    1: [[0.1], [1.0], [-0.7], [0.45]],
    2: [[0.1, 0.2], [1.0, -0.5], [-0.7, 0.9], [0.4, 1.3]],
}


def ens_post(t):
    t = np.asarray(t, dtype=float)
    return -0.5 * float((t ** 2).sum()) - 0.3 * float(t[0])


def stretch_ginv(u, a):
    lo, hi = math.sqrt(1.0 / a), math.sqrt(a)
    return (lo + u * (hi - lo)) ** 2


def stretch_g(z, a):
    lo, hi = math.sqrt(1.0 / a), math.sqrt(a)
    return (math.sqrt(z) - lo) / (hi - lo)


def line_ratio(Y, Xi, Xj):
    """zeta with Y - Xj = zeta (Xi - Xj), or None if Y is not on the line."""
    v = Xi - Xj
    w = Y - Xj
    z = float(w @ v) / float(v @ v)
    if np.abs(w - z * v).max() > 1e-9 * (1 + np.abs(Y).max()):
        return None
    return z


def ens_first_attempt(cfg, pos, quantiles, ctxs=None):
    """Explore the first posterior evaluation (+decision) of advance(1); yields dicts."""
    from inference.mcmc import EnsembleSampler

    d = pos.shape[1]
    bounds = None
    if cfg["bounds"] == "box":
        bounds = (np.full(d, -1.0), np.full(d, 1.5))

    def body(ctx):
        post = EvalLog(ens_post, ctx)
        with lib("construct"):
            e = EnsembleSampler(posterior=post, starting_positions=pos.copy(), alpha=cfg["alpha"], bounds=bounds, display_progress=False)
        e.rng = ScriptedGenerator(ctx, quantiles=quantiles)
        post.arm(cfg.get("maxeval", 1))
        with lib("advance"):
            e.advance(1)
        return {"positions": e.walker_positions.copy()}

    for ctx, res in explore(body):
        evals = [o for o in ctx.obs if o[0] == "eval"]
        us = [o for o in ctx.obs if o[0] == "u"]
        cmps = []
        seen = 0
        for o in ctx.obs:
            if o[0] == "eval":
                seen += 1
            elif o[0] == "cmp":
                cmps.append((seen, o))
        yield ctx, res, evals, us, cmps


def ev_ens(case):
    cfg = case
    d = cfg["d"]
    a = cfg["alpha"]
    nw = cfg["walkers"]
    base = np.array(ENS_POS[d][:nw], dtype=float)
    order = cfg["order"]
    pos = base[order]
    Q = [0.05, 0.25, 0.5, 0.75, 0.95]
    name = cfg["bounds"]
    lo, hi = -1.0, 1.5
    fails, tags, fkeys = [], set(), set()
    nexec = ntrans = 0

    def add_fail(key, what, **kw):
        if key not in fkeys:
            fkeys.add(key)
            fails.append(fail(key, what, config=cfg, **kw))

    def fold(v):
        w = hi - lo
        q, rem = np.divmod(v - lo, w)
        n = q % 2
        return lo + (1 - 2 * n) * rem + n * w

    partner_w = {}
    zetas = {}
    X0 = pos[0]
    # pass 1: what follows a rejection (second evaluation): retry of the same walker, or the next walker?
    for ctx, res, evals, us, cmps in ens_first_attempt(dict(cfg, maxeval=2), pos, [0.05, 0.95]):
        nexec += 1
        c0 = [c for s_, c in cmps if s_ == 1]
        if c0 and c0[0][5] is False and len(evals) >= 2:
            Y2 = np.array(evals[1][1])
            again0 = any((z2 := line_ratio(Y2, X0, pos[jj])) is not None and 1 / a - 1e-9 <= z2 <= a + 1e-9 for jj in range(1, nw))
            nxt = any((z2 := line_ratio(Y2, pos[1], pos[jj])) is not None and 1 / a - 1e-9 <= z2 <= a + 1e-9 for jj in range(nw) if jj != 1)
            if again0 and not nxt:
                add_fail("steplaw/EnsembleSampler/rejected-proposal-retried-not-recorded",
                         "after a rejected stretch move the same walker immediately proposes again (up to max_attempts) and only the accepted position is recorded", choices=ctx.choices)
            tags.add(f"ens:{name}:second-evaluation-after-reject")
    # pass 2: the first attempt, every partner x quantile x decision, with the reverse move run by the code
    rev_done = {}
    for ctx, res, evals, us, cmps in ens_first_attempt(dict(cfg, maxeval=1), pos, Q):
        nexec += 1
        ntrans += len(evals)
        if not evals:
            add_fail(f"ensemble/{name}/iteration-without-evaluation", "advance(1) evaluated nothing")
            continue
        Y = np.array(evals[0][1])
        u = us[0][2] if us else None
        # which partner?
        cand = [(j, line_ratio(Y, X0, pos[j])) for j in range(1, nw)]
        cand = [(j, z) for j, z in cand if z is not None]
        c0 = [c for s, c in cmps if s == 1]
        thr = c0[0][3] if c0 else None
        acc = c0[0][5] if c0 else None
        key_done = (tuple(Y),)
        folded_ref = None
        if cfg["bounds"] == "box":
            for j in range(1, nw):
                for uu in Q:
                    raw = pos[j] + stretch_ginv(uu, a) * (X0 - pos[j])
                    if ((raw < lo) | (raw > hi)).any() and np.allclose(fold(raw), Y, atol=1e-9):
                        folded_ref = (j, uu)
        if folded_ref is not None:
            tags.add("ens:box:folded-proposal")
            # a folded stretch proposal: is there a reverse move?  (there is none in general)
            j = folded_ref[0]
            z = line_ratio(X0, Y, pos[j])
            add_fail("ensemble/box/folded-stretch-proposal-has-no-reverse-move",
                     f"proposal {tuple(Y)} is the fold of a stretch move about walker {j}; from there the stretch move about the same walker cannot return to {tuple(X0)}"
                     if z is None or not (1 / a - 1e-12 <= z <= a + 1e-12) else "folded proposal (reverse exists by coincidence)",
                     choices=ctx.choices) if (z is None or not (1 / a - 1e-12 <= z <= a + 1e-12)) else None
            continue
        if not cand:
            add_fail(f"ensemble/{name}/proposal-not-on-a-line-through-another-walker", f"Y={tuple(Y)} from X={tuple(X0)}", choices=ctx.choices)
            continue
        # in 1-D every walker is collinear: prefer the partner whose ratio is a stretch factor at the drawn quantile
        wantz = {round(stretch_ginv(q, a), 9) for q in ((u, 1.0 - u) if u is not None else ())}
        pref = [c for c in cand if round(c[1], 9) in wantz] or [c for c in cand if 1 / a - 1e-9 <= c[1] <= a + 1e-9] or cand
        j, zeta = pref[0]
        if len(ctx.choices) and evals:
            partner_w[j] = partner_w.get(j, 0.0) + ctx.weight
        zetas.setdefault(j, set()).add(round(zeta, 10))
        if not (1 / a - 1e-9 <= zeta <= a + 1e-9):
            add_fail(f"ensemble/{name}/stretch-factor-outside-[1/a,a]",
                     f"Y - X_j = {zeta!r} (X_i - X_j) with a={a}: not a stretch move about walker j (no reverse move exists)", choices=ctx.choices)
            continue
        # threshold
        pY, pX = ens_post(Y), ens_post(X0)
        m = min(1.0, zeta ** (d - 1) * math.exp(pY - pX))
        if thr is None:
            if m < 1 - 1e-12:
                add_fail(f"ensemble/{name}/decision-without-uniform", f"MH probability {m!r}", choices=ctx.choices)
            acc = True
        else:
            if abs(min(max(thr, 0.0), 1.0) - m) > 1e-10:
                add_fail(f"ensemble/{name}/threshold-not-z^(n-1)-density-ratio", f"uniform compared with {thr!r}; z^(n-1) pi(Y)/pi(X) = {m!r} (z={zeta!r}, n={d})", choices=ctx.choices)
        tags.add(f"ens:{name}:d={d}:{'accept' if acc else 'reject'}")
        # reverse move: started at Y with the same partner and the draw u' = G(1/zeta) the code must propose X0
        up = stretch_g(1.0 / zeta, a)
        pos_r = pos.copy()
        pos_r[0] = Y
        rk = (j, round(zeta, 10))
        if rk in rev_done:
            continue
        rev_done[rk] = True
        found = False
        for uq in (up, 1.0 - up):
            for ctx2, res2, ev2, us2, cm2 in ens_first_attempt(dict(cfg, maxeval=1), pos_r, [min(max(uq, 0.0), 1.0)]):
                nexec += 1
                if not ev2:
                    continue
                Yr = np.array(ev2[0][1])
                if np.allclose(Yr, X0, atol=1e-8):
                    found = True
                    cr = [c for s, c in cm2 if s == 1]
                    mr = min(1.0, zeta ** (-(d - 1)) * math.exp(pX - pY))
                    if cr and abs(min(max(cr[0][3], 0.0), 1.0) - mr) > 1e-9:
                        add_fail(f"ensemble/{name}/reverse-threshold-breaks-detailed-balance", f"reverse uses {cr[0][3]!r}, needs {mr!r}", choices=ctx.choices)
            if found:
                break
        if not found:
            add_fail(f"ensemble/{name}/reverse-move-not-proposed", f"from Y={tuple(Y)} with partner {j} and u'=G(1/z) the code does not propose X={tuple(X0)}", choices=ctx.choices)
    # the stretch factors over the symmetric quantile alphabet
    want = sorted(round(stretch_ginv(u, a), 10) for u in Q)
    for j, zs in zetas.items():
        if sorted(zs) != want and cfg["bounds"] != "box":
            add_fail(f"ensemble/{name}/stretch-factor-law-not-g(z)~z^-1/2", f"factors at quantiles {Q}: {sorted(zs)} expected {want} (a={a})")
    if partner_w and cfg["bounds"] != "box":
        if len(partner_w) != nw - 1 or max(partner_w.values()) - min(partner_w.values()) > 1e-9:
            add_fail(f"ensemble/{name}/partner-not-uniform-over-other-walkers", f"{partner_w}")
    return {"fails": fails, "n": nexec, "states": 1, "transitions": ntrans, "tags": tags, "sample": {"config": cfg}}


def ens_cases(ck):
    cases = []
    for d in (1, 2):
        for alpha in (2.0, 3.0):
            for bounds in ("free", "box"):
                nw = 4 if d == 2 else 3
                orders = list(itertools.permutations(range(nw)))
                orders = orders[:: (3 if ck.quick else 1)]
                for order in orders:
                    cases.append(dict(d=d, alpha=alpha, bounds=bounds, walkers=nw, order=list(order)))
    return cases


EVALUATORS["ens"] = ev_ens


def ev_exchange(case):
    from checks.c08 import ev_exchange as _ev

    return _ev(case)


EVALUATORS["exchange"] = ev_exchange


# --------------------------------------------------------------------------- attempt-level oracle after a real history
def smooth_post(t):
    t = np.asarray(t, dtype=float)
    return float(-0.5 * ((t - 0.2) ** 2 / np.array([1.0, 0.3, 2.0])[: t.size]).sum() - 0.05 * (t ** 4).sum() - 0.3 * t[0] * t[-1])


def ev_l1hist(case):
    """Continuous target; the chain first lives W real steps under a seeded generator with the adaptation intervals shrunk
    (so proposal widths have been adapted, try-count halvings have happened and PCA directions have been re-estimated),
    then ONE step is explored over every outcome of the scripted stream within the deviation bound.  Oracle (L1): every
    accept/reject decision is taken with the Metropolis-Hastings probability of the move from the point that is current at
    that moment, and what is recorded is the point the decisions lead to - whatever the history did to the proposal."""
    from inference.mcmc import GibbsChain, PcaChain
    from inference.mcmc.gibbs import MetropolisChain

    kind, d, T, W, limits = case["sampler"], case["d"], case["T"], case["warm"], case["limits"]
    name = f"{kind}/{limits or 'free'}"
    fails, fkeys, tags = [], set(), set()
    nexec = ntrans = 0
    lo, hi = np.array([-1.5, -1.0, -2.0])[:d], np.array([1.8, 1.4, 2.2])[:d]

    def add_fail(key, what, **kw):
        if key not in fkeys:
            fkeys.add(key)
            fails.append(fail(key, what, config=case, **kw))

    def body(ctx):
        post = EvalLog(smooth_post, ctx)
        start = np.array([0.4, -0.3, 0.6])[:d]
        with lib("construct"):
            if kind == "PcaChain":
                ch = PcaChain(posterior=post, start=start, widths=np.full(d, 0.9), temperature=T, bounds=(lo.copy(), hi.copy()) if limits == "box" else None, display_progress=False)
                ch.dir_update_interval = 4
                ch.next_update = 4
            else:
                cls = GibbsChain if kind == "GibbsChain" else MetropolisChain
                ch = cls(posterior=post, start=start, widths=np.full(d, 0.9), temperature=T, display_progress=False)
                if limits == "box":
                    for i in range(d):
                        ch.set_boundaries(i, (float(lo[i]), float(hi[i])))
            for p in ch.params:
                p.chk_int = 3
                p.max_tries = case.get("max_tries", 50)
        ch.rng = np.random.default_rng(case["seed"])
        for i, p in enumerate(ch.params):
            p.rng = np.random.default_rng(100 * case["seed"] + i)
        with lib("warm-up"):
            for _ in range(W):
                ch.take_step()
        if case.get("reloaded"):
            # the chain is saved and reloaded (with the same posterior) before the explored step: still the same target
            import os
            import tempfile

            fd, path = tempfile.mkstemp(suffix=".npz")
            os.close(fd)
            try:
                with lib("save-load"):
                    ch.save(path)
                    ch = type(ch).load(path, posterior=post)
            finally:
                os.unlink(path)
        cur = ch.get_last().copy()
        info = {"cur": cur, "p": float(ch.probs[-1]), "sigmas": [float(p.sigma) for p in ch.params],
                "adapted": any(len(p.sigma_values) > 1 for p in ch.params), "dir_updates": len(getattr(ch, "update_history", []))}
        set_rng(ch, ScriptedGenerator(ctx, normal=[-1.0, 1.0, -2.5, 2.5], normal_w=[0.35, 0.35, 0.15, 0.15]))
        post.arm(case.get("maxeval", 5))
        with lib("take_step"):
            ch.take_step()
        info["recorded"] = tuple(float(v) for v in ch.get_last())
        info["prob"] = float(ch.probs[-1])
        return info

    first = {}
    for ctx, res in explore(body, bound=case["bound"], max_exec=50000):
        nexec += 1
        att = attempts_of(ctx.obs)
        ntrans += len(att)
        if res is None and not att:
            continue
        if res is not None:
            first = res
        # the starting point and its stored probability are the same in every execution of this case
        if not first:
            continue
        cur_pt = tuple(first["cur"])
        cur_p = smooth_post(np.array(cur_pt)) / T
        if abs(cur_p - first["p"]) > 1e-10 * (1 + abs(cur_p)):
            add_fail(f"l1hist/{name}/stored-probability-of-current-point-wrong-after-history", f"{first['p']!r} vs {cur_p!r}")
        ok = True
        for ai, (pt, val, cmp, normals) in enumerate(att):
            last_unfinished = ctx.cut and ai == len(att) - 1 and cmp is None
            p_new = val / T
            m = mh_prob(p_new, cur_p)
            if cmp is not None:
                used = min(max(cmp[3], 0.0), 1.0)
                if abs(used - m) > 1e-12:
                    add_fail(f"l1hist/{name}/threshold-not-MH-probability-after-history",
                             f"after {W} steps: from {cur_pt} to {pt}: uniform compared with {cmp[3]!r}, MH probability {m!r} (T={T})", choices=ctx.choices)
                    ok = False
                acc = cmp[5]
            elif last_unfinished:
                acc = None
            else:
                if not (m >= 1 - 1e-12 or m <= 0.0):
                    add_fail(f"l1hist/{name}/decision-without-uniform-after-history", f"MH probability {m!r}", choices=ctx.choices)
                    ok = False
                acc = m >= 1 - 1e-12
            if limits == "box" and (np.any(np.array(pt) < lo - 1e-12) or np.any(np.array(pt) > hi + 1e-12)):
                add_fail(f"l1hist/{name}/proposal-outside-bounds-after-history", f"{pt}", choices=ctx.choices)
            if acc:
                cur_p, cur_pt = p_new, pt
        if res is not None and ok:
            if not np.allclose(res["recorded"], cur_pt, atol=1e-12):
                add_fail(f"l1hist/{name}/recorded-point-is-not-the-accepted-proposal-after-history", f"{res['recorded']} vs {cur_pt}", choices=ctx.choices)
            elif abs(res["prob"] - smooth_post(np.array(res["recorded"])) / T) > 1e-10 * (1 + abs(res["prob"])):
                add_fail(f"l1hist/{name}/recorded-probability-wrong-after-history", f"{res['prob']!r}", choices=ctx.choices)
        if res is not None:
            tags.add(f"l1hist:{name}:W={W}:adapted={res['adapted']}:dir_updates={min(res['dir_updates'], 2)}:T={T}" + (":reloaded" if case.get("reloaded") else ""))
    return {"fails": fails, "n": nexec, "states": 1, "transitions": ntrans, "tags": tags, "sample": {"config": case, "after_history": {k: v for k, v in first.items() if k in ("sigmas", "adapted", "dir_updates")}}}


EVALUATORS["l1hist"] = ev_l1hist


def l1hist_cases(ck):
    out = []
    for kind in ("MetropolisChain", "GibbsChain", "PcaChain"):
        for d in (1, 2, 3):
            for T in (1.0, 2.5):
                for limits in (None, "box"):
                    for W in ((0, 7, 30) if ck.quick else (0, 3, 7, 12, 30, 60)):
                        if ck.quick and d == 3 and limits == "box":
                            continue
                        out.append(dict(sampler=kind, d=d, T=T, warm=W, limits=limits, seed=3 + ck.seed + W, bound=2 if ck.quick else 3))
                        if W in (7, 12) and d <= 2:
                            out.append(dict(sampler=kind, d=d, T=T, warm=W, limits=limits, seed=3 + ck.seed + W, bound=2 if ck.quick else 3, reloaded=True))
    # try-count halving of the proposal width inside the explored step itself
    for kind in ("GibbsChain", "MetropolisChain"):
        out.append(dict(sampler=kind, d=1, T=1.0, warm=5, limits=None, seed=11 + ck.seed, bound=3, max_tries=1, maxeval=6))
    return out


# --------------------------------------------------------------------------- ensemble: a whole iteration, walker after walker
def ev_ens_iter(case):
    """One full iteration of the ensemble (max_attempts = 1, so one proposal per walker) over every partner choice, two stretch
    quantiles and both outcomes for every walker: each proposal must be a stretch move between the CURRENT positions of two
    different walkers (walkers moved earlier in the iteration are used at their new positions), decided with the
    Metropolis-Hastings probability z^(n-1) pi(Y)/pi(X_current); at the end positions and probabilities are the tracked ones."""
    from inference.mcmc import EnsembleSampler

    d, a, nw = case["d"], case["alpha"], case["walkers"]
    base = ENS_POS[d] if not (d == 2 and nw == 3) else [ENS_POS[2][0], ENS_POS[2][1], ENS_POS[2][3]]  # (three walkers not nearly collinear)
    pos0 = np.array(base[:nw], dtype=float)[case["order"]]
    fails, fkeys, tags = [], set(), set()
    nexec = ntrans = 0

    def add_fail(key, what, **kw):
        if key not in fkeys:
            fkeys.add(key)
            fails.append(fail(key, what, config=case, **kw))

    def body(ctx):
        post = EvalLog(ens_post, ctx)
        with lib("construct"):
            e = EnsembleSampler(posterior=post, starting_positions=pos0.copy(), alpha=a, display_progress=False)
        e.max_attempts = 1
        e.rng = ScriptedGenerator(ctx, quantiles=(0.25, 0.75))
        post.arm()
        with lib("advance"):
            e.advance(1)
        return {"positions": np.array(e.walker_positions, dtype=float), "probs": np.array(e.walker_probs, dtype=float)}

    for ctx, res in explore(body, max_exec=60000):
        nexec += 1
        cur = pos0.copy()
        moved = set()
        pend = None
        ok = True
        for o in ctx.obs:
            if o[0] == "eval":
                Y = np.array(o[1])
                cands = []
                for i in range(nw):
                    for j in range(nw):
                        if i != j:
                            z = line_ratio(Y, cur[i], cur[j])
                            if z is not None and 1 / a - 1e-9 <= z <= a + 1e-9:
                                cands.append((i, j, z))
                ntrans += 1
                if not cands:
                    add_fail("ensemble-iteration/proposal-not-a-stretch-move-between-current-walker-positions",
                             f"proposal {tuple(Y)} is not on a line through two walkers at their current positions {cur.tolist()} (walkers already moved this iteration: {sorted(moved)})", choices=ctx.choices)
                    ok = False
                    break
                pend = (Y, cands)
            elif o[0] == "cmp" and pend is not None:
                Y, cands = pend
                pend = None
                thr = min(max(o[3], 0.0), 1.0)
                fit = [(i, j, z) for i, j, z in cands if abs(min(1.0, z ** (d - 1) * math.exp(ens_post(Y) - ens_post(cur[i]))) - thr) <= 1e-10]
                if not fit:
                    i, j, z = cands[0]
                    add_fail("ensemble-iteration/threshold-not-MH-probability-from-the-current-position",
                             f"walker {i} -> {tuple(Y)}: uniform compared with {o[3]!r}, z^(n-1) pi(Y)/pi(X) = {min(1.0, z ** (d - 1) * math.exp(ens_post(Y) - ens_post(cur[i])))!r}", choices=ctx.choices)
                    ok = False
                    break
                i, j, z = fit[0]
                if j in moved:
                    tags.add(f"ens-iter:d={d}:partner-already-moved-this-iteration")
                if o[5]:
                    cur[i] = Y
                    moved.add(i)
        if ok and res is not None:
            if not np.allclose(res["positions"], cur, atol=1e-12):
                add_fail("ensemble-iteration/final-positions-differ-from-accepted-moves", f"{res['positions'].tolist()} vs {cur.tolist()}", choices=ctx.choices)
            elif any(abs(res["probs"][k] - ens_post(cur[k])) > 1e-12 * (1 + abs(res["probs"][k])) for k in range(nw)):
                add_fail("ensemble-iteration/walker-probabilities-not-posterior-at-final-positions", f"{res['probs'].tolist()}", choices=ctx.choices)
            tags.add(f"ens-iter:d={d}:moved={len(moved)}")
    return {"fails": fails, "n": nexec, "states": nexec, "transitions": ntrans, "tags": tags, "sample": {"config": case, "executions": nexec}}


EVALUATORS["ens_iter"] = ev_ens_iter
