"""C09 – a saved sampler reloads to an equivalent sampler that can continue.

Engine C: for each sampler x configuration a history of L steps (adaptation intervals shrunk so that width, epsilon
and direction updates happen inside it); at EVERY save point k = 0..L the sampler is saved, loaded, saved and loaded
again; the reloaded object must (1) report the same read-outs and support the same read-out/plot calls, and (2) when
given the generator state the original had, continue byte-identically for the remaining L-k steps, both by take_step
and by advance.
"""
import os
import tempfile

import numpy as np

from mc.core import HarnessError, fail, lib

LEVEL = "model_checking"


def post(t):
    t = np.asarray(t, dtype=float)
    return float(-0.5 * ((t - 0.3) ** 2 / np.array([1.0, 0.4, 2.0])[: t.size]).sum() - 0.02 * (t ** 4).sum())


def grad(t):
    t = np.asarray(t, dtype=float)
    return -(t - 0.3) / np.array([1.0, 0.4, 2.0])[: t.size] - 0.08 * t ** 3


CONFIGS = {
    "GibbsChain": ["free", "box", "nonneg", "box+nonneg", "T2.5"],
    "MetropolisChain": ["free", "box", "T2.5"],
    "PcaChain": ["free", "box", "T2.5", "d3", "d3+box"],
    "HamiltonianChain": ["free", "box", "mass-scalar", "mass-vector", "mass-matrix", "T2.5", "nograd", "box+nograd", "estmass-diag", "estmass-full", "box+compressed", "mass-matrix+compressed"],
    "EnsembleSampler": ["free", "box", "alpha3"],
}
LO = np.array([-1.0, -1.5, -2.0])
HI = np.array([1.6, 1.2, 2.5])


def build(kind, cfg, seed):
    from inference.mcmc import EnsembleSampler, GibbsChain, HamiltonianChain, PcaChain
    from inference.mcmc.gibbs import MetropolisChain

    d = 3 if "d3" in cfg else 2
    start = np.array([0.5, 0.2, -0.4])[:d]
    T = 2.5 if cfg == "T2.5" else 1.0
    if kind in ("GibbsChain", "MetropolisChain"):
        cls = GibbsChain if kind == "GibbsChain" else MetropolisChain
        ch = cls(posterior=post, start=start, widths=np.array([0.9, 0.6]), temperature=T, display_progress=False)
        if "box" in cfg:
            for i in range(d):
                ch.set_boundaries(i, (float(LO[i]), float(HI[i])))
        if "nonneg" in cfg:
            ch.set_non_negative(0, True)
        for p in ch.params:
            p.chk_int = 3
    elif kind == "PcaChain":
        ch = PcaChain(posterior=post, start=start, widths=np.array([0.9, 0.6, 1.1])[:d], temperature=T, bounds=(LO[:d].copy(), HI[:d].copy()) if "box" in cfg else None, display_progress=False)
        for p in ch.params:
            p.chk_int = 3
        ch.dir_update_interval = 4
        ch.next_update = 4
    elif kind == "HamiltonianChain":
        im = {"mass-scalar": 0.3, "mass-vector": np.array([0.5, 2.0]), "mass-matrix": np.array([[1.0, 0.3], [0.3, 0.7]])}.get(cfg)
        ch = HamiltonianChain(posterior=post, grad=None if "nograd" in cfg else grad, start=start, epsilon=0.4, temperature=T,
                              bounds=(LO[:2].copy(), HI[:2].copy()) if "box" in cfg else None, inverse_mass=im, display_progress=False)
        ch.steps = 4
        ch.ES.chk_int = 3
    else:
        pos = np.array([[0.5, 0.2], [1.0, 0.4], [-0.6, 0.8], [0.1, -0.9], [0.9, -0.3]])
        ch = EnsembleSampler(posterior=post, starting_positions=pos, alpha=3.0 if cfg == "alpha3" else 2.0,
                             bounds=(LO[:2].copy(), HI[:2].copy()) if cfg == "box" else None, display_progress=False)
    ch.rng = np.random.default_rng(seed)
    for i, p in enumerate(getattr(ch, "params", [])):
        p.rng = np.random.default_rng(100 * seed + i)
    return ch


def step(ch, kind):
    if kind == "EnsembleSampler":
        ch.advance(1)
    else:
        ch.take_step()


def load(ch, kind, path, cfg):
    if kind == "HamiltonianChain":
        return type(ch).load(path, posterior=post, grad=None if "nograd" in cfg else grad)
    return type(ch).load(path, posterior=post)


def copy_rng(src, dst):
    dst.rng = np.random.default_rng(0)
    dst.rng.bit_generator.state = src.rng.bit_generator.state
    for ps, pd in zip(getattr(src, "params", []), getattr(dst, "params", [])):
        pd.rng = np.random.default_rng(0)
        pd.rng.bit_generator.state = ps.rng.bit_generator.state


def readout(ch, kind):
    if kind == "EnsembleSampler" and ch.sample is None:
        return {"empty": True, "walkers": np.array(ch.walker_positions).tobytes(), "wprobs": np.array(ch.walker_probs).tobytes(), "len": ch.chain_length}
    out = {"sample": np.asarray(ch.get_sample(burn=0)).tobytes(), "probs": np.asarray(ch.get_probabilities(burn=0)).tobytes(),
           "len": int(ch.chain_length), "npar": int(ch.n_parameters),
           "param0": np.asarray(ch.get_parameter(0, burn=0)).tobytes(), "mode": np.asarray(ch.mode()).tobytes()}
    if kind == "EnsembleSampler":
        out["walkers"] = np.array(ch.walker_positions).tobytes()
        out["wprobs"] = np.array(ch.walker_probs).tobytes()
    b = getattr(ch, "bounds", None)
    out["bounds"] = None if b is None else (np.asarray(b.lower).tobytes(), np.asarray(b.upper).tobytes())
    S, P = ch.get_interval(interval=0.5, burn=0)
    out["interval"] = (np.asarray(S).tobytes(), np.asarray(P).tobytes())
    return out


def tuning(ch, kind):
    """tuning state as far as it is observable without stepping (diagnostic only – equality of the continuation is the real test)"""
    if kind in ("GibbsChain", "MetropolisChain", "PcaChain"):
        t = {f"sigma{i}": float(p.sigma) for i, p in enumerate(ch.params)}
        if kind == "GibbsChain":
            t.update({f"limits{i}": (bool(p.bounded), float(p.lower), float(p.upper), bool(p.non_negative)) for i, p in enumerate(ch.params)})
        return t
    if kind == "HamiltonianChain":
        return {"epsilon": float(ch.ES.epsilon), "steps": int(ch.steps)}
    return {"alpha": float(ch.alpha)}


def try_plots(ch, kind):
    import matplotlib

    matplotlib.use("Agg")
    import matplotlib.pyplot as plt

    res = {}
    for name, fn in (("trace_plot", lambda: ch.trace_plot(show=False)), ("matrix_plot", lambda: ch.matrix_plot(show=False)),
                     ("plot_diagnostics", (lambda: ch.plot_diagnostics(show=False)) if kind != "EnsembleSampler" else None)):
        if fn is None:
            continue
        try:
            fn()
            res[name] = "ok"
        except Exception as e:  # differential oracle: only the comparison original vs reloaded matters
            res[name] = type(e).__name__
        plt.close("all")
    return res


def ev_savepoint(case):
    kind, cfg, L, k, seed = case["sampler"], case["config"], case["L"], case["k"], case["seed"]
    label = f"{kind}/{cfg}"
    fails, fkeys, tags = [], set(), set()
    n = 0

    def add_fail(key, what, **kw):
        if key not in fkeys:
            fkeys.add(key)
            fails.append(fail(key, what, config=case, **kw))

    origs = []
    for _ in range(2):
        with lib("build"):
            o = build(kind, cfg, seed)
            for _ in range(k):
                step(o, kind)
            if "estmass" in cfg and k >= 4:
                # the mass is re-estimated from the samples so far (public API), then the chain is saved
                o.estimate_mass(burn=0, diagonal=("diag" in cfg))
        origs.append(o)
    O1, O2 = origs
    t0 = tuning(O1, kind)
    # what adaptation has happened so far (non-vacuity)
    if kind in ("GibbsChain", "MetropolisChain", "PcaChain") and any(len(p.sigma_values) > 1 for p in O1.params):
        tags.add(f"{label}:saved-after-width-adaptation")
    if kind == "PcaChain":
        tags.add(f"{label}:saved-{'after' if len(O1.update_history) else 'before'}-direction-update")
    if kind == "HamiltonianChain":
        tags.add(f"{label}:saved-{'after' if len(O1.ES.epsilon_values) > 1 else 'before'}-epsilon-update")
    tags.add(f"{label}:k={'0' if k == 0 else 'mid' if k < L else 'end'}")
    tmp = tempfile.mkdtemp(prefix="c09_")
    try:
        loaded = []
        src = O1
        for rt in (1, 2):
            path = os.path.join(tmp, f"s{rt}.npz")
            try:
                with lib("save"):
                    if "compressed" in cfg:
                        src.save(path, compressed=True)
                    else:
                        src.save(path)
            except Exception as e:
                add_fail(f"save/{label}/raises-{'before-first-direction-update' if kind == 'PcaChain' and not len(O1.update_history) else 'at-save-point'}",
                         f"save() at step {k} (round trip {rt}): {e}"[:500], k=k)
                return {"fails": fails, "n": 1, "states": 1, "transitions": 1, "tags": tags}
            try:
                with lib("load"):
                    R = load(src, kind, path, cfg)
            except Exception as e:
                add_fail(f"load/{label}/raises", f"load() of a file saved at step {k} (round trip {rt}): {e}"[:500], k=k)
                return {"fails": fails, "n": 1, "states": 1, "transitions": 1, "tags": tags}
            loaded.append(R)
            src = R
            n += 1
        R = loaded[-1]
        try:
            r1, r2 = readout(loaded[0], kind), readout(R, kind)
            if r1 != r2:
                add_fail(f"readout/{label}/second-round-trip-differs-from-first", f"saved at step {k}", k=k)
        except Exception:
            pass  # reported below through the read-out of the reloaded sampler
        # ---- (1) read-outs
        try:
            with lib("readout-original"):
                ro = readout(O1, kind)
        except Exception as e:
            raise HarnessError(f"read-out of the original failed: {e}")
        try:
            with lib("readout-reloaded"):
                rr = readout(R, kind)
            for key in ro:
                if ro[key] != rr.get(key):
                    add_fail(f"readout/{label}/{key}-differs-after-reload", f"saved at step {k}", k=k)
        except Exception as e:
            add_fail(f"readout/{label}/read-out-call-fails-on-reloaded-sampler", f"saved at step {k}: {e}"[:400], k=k)
        try:
            t1 = tuning(R, kind)
            if t1 != t0:
                add_fail(f"tuning/{label}/tuning-state-differs-after-reload", f"{t0} vs {t1}", k=k)
        except Exception as e:
            add_fail(f"tuning/{label}/tuning-state-missing-after-reload", f"{e}"[:300], k=k)
        if case.get("plots"):
            po = try_plots(O1, kind)
            pr = try_plots(R, kind)
            for name in po:
                if po[name] == "ok" and pr[name] != "ok":
                    add_fail(f"plots/{label}/{name}-fails-on-reloaded-sampler", f"saved at step {k}: {pr[name]}", k=k)
            tags.add(f"{label}:plots:{sorted(po.items())}")
        # ---- (1b) the ORIGINAL saved a second time after its last point was replaced (the public hook parallel tempering
        # uses): the second file must describe the chain as it is now, not as it was at the first save
        if kind != "EnsembleSampler" and k >= 1:
            try:
                with lib("replace-and-resave"):
                    O3 = build(kind, cfg, seed)
                    for _ in range(k):
                        step(O3, kind)
                    if "estmass" in cfg and k >= 4:
                        O3.estimate_mass(burn=0, diagonal=("diag" in cfg))
                    O3.save(os.path.join(tmp, "r1.npz"))
                    newpt = np.array(O3.get_last(), dtype=float) * 0.5 + 0.05
                    O3.replace_last(newpt.copy())
                    O3.probs[-1] = post(newpt) * O3.inv_temp
                    O3.save(os.path.join(tmp, "r2.npz"))
                    R3 = load(O3, kind, os.path.join(tmp, "r2.npz"), cfg)
                    a3, b3 = readout(O3, kind), readout(R3, kind)
                for key in a3:
                    if a3[key] != b3.get(key):
                        add_fail(f"readout/{label}/{key}-differs-after-replace_last-and-second-save", f"saved at step {k}", k=k)
                n += 1
            except HarnessError:
                raise
            except Exception as e:
                from mc.core import LibFailure

                if isinstance(e, LibFailure):
                    raise
                add_fail(f"readout/{label}/second-save-after-replace_last-fails", f"{type(e).__name__}: {e}"[:300], k=k)
        # ---- (2) continuation, by take_step and by advance
        m = L - k
        # the take_step continuation starts from the file of the FIRST round trip, the advance continuation from the second
        # (a defect that cancels after two round trips, e.g. a transposition, must not go unnoticed)
        for variant, O, fname in (("take_step", O1, "s1.npz"), ("advance", O2, "s2.npz")):
            try:
                with lib("reload-for-continuation"):
                    Rv = load(O, kind, os.path.join(tmp, fname), cfg)
            except Exception as e:
                add_fail(f"load/{label}/raises", f"{e}"[:300], k=k)
                continue
            copy_rng(O, Rv)
            try:
                if variant == "take_step":
                    for j in range(m):
                        with lib("continue-original"):
                            step(O, kind)
                        step(Rv, kind)
                        n += 1
                        a, b = readout(O, kind), readout(Rv, kind)
                        if a["sample"] != b["sample"] or a["probs"] != b["probs"]:
                            add_fail(f"continuation/{label}/take_step-diverges-from-unsaved-sampler", f"saved at step {k}, diverged {j + 1} steps later", k=k)
                            break
                else:
                    with lib("continue-original"):
                        O.advance(m)
                    Rv.advance(m)
                    n += 1
                    if m > 0 or not (kind == "EnsembleSampler" and k == 0):
                        a, b = readout(O, kind), readout(Rv, kind)
                        if a.get("sample") != b.get("sample") or a.get("probs") != b.get("probs") or a["len"] != b["len"]:
                            add_fail(f"continuation/{label}/advance-diverges-from-unsaved-sampler", f"saved at step {k}, advance({m})", k=k)
            except HarnessError:
                raise
            except Exception as e:
                from mc.core import LibFailure

                if isinstance(e, LibFailure):
                    raise
                add_fail(f"continuation/{label}/reloaded-sampler-cannot-{variant}", f"saved at step {k}: {type(e).__name__}: {e}"[:400], k=k)
    finally:
        for f in os.listdir(tmp):
            os.unlink(os.path.join(tmp, f))
        os.rmdir(tmp)
    return {"fails": fails, "n": n, "states": 1, "transitions": n, "tags": tags, "sample": {"sampler": kind, "config": cfg, "k": k, "L": L}}


EVALUATORS = {"savepoint": ev_savepoint}


def run(ck):
    L = 12 if ck.quick else 30
    cases = []
    for kind, cfgs in CONFIGS.items():
        for cfg in cfgs:
            for k in range(0, L + 1):
                cases.append(dict(sampler=kind, config=cfg, L=L, k=k, seed=7 + ck.seed, plots=(k in (L,) if ck.quick else k in (0, 3, L))))
    ck.run_cases("savepoint", cases, chunk=2)
    ck.rule = ("every save point k=0..L of an L-step history per sampler x configuration, double round trip, read-out equality and byte-identical continuation "
               "by take_step and by advance; distinct non-trivial = (sampler/config, save point class, before/after each kind of adaptation, plot outcomes)")
    ck.assume("one posterior, seeded generators (the property is stated 'given the same random-generator state'); L=%d" % L)
    ck.extra["save_points_per_configuration"] = L + 1
